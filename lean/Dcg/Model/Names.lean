import Dcg.Py.Ident
import Dcg.Gen.EnumSites
/-
Dcg.Model.Names — transliteration of `reference.py`:
`FieldNameResolver.get_valid_name` (as of the tree with the two sanitiser repairs: per-character
identifier filter after the regex, and the re-prefixing after the leading-underscore loop),
`PydanticFieldNameResolver`, `EnumFieldNameResolver`, `get_valid_field_name_and_alias`,
`camel_to_snake`, `snake_to_upper_camel`, and the `exclude_field_names` fold of
`JsonSchemaParser.parse_object_fields`.

What is modelled exactly: every option of the resolver (aliases, snake_case_field, empty_field_name,
original_delimiter, special_field_name_prefix, remove_special_field_name_prefix,
capitalise_enum_members, no_alias) and both call flags (ignore_snake_case_field, upper_camel).
`str.lower`/`str.upper` are PARAMETERS (`Env`); `pyEnv` instantiates them with the character-wise
maps of Dcg/Py/Chars (exact for `upper`, exact for `lower` except the final-sigma context rule).
The constructor's guard on `special_field_name_prefix` is `PrefixStart` / `construct`.
Python exceptions (`ValueError: empty separator` for an empty delimiter, `IndexError` on an empty
name, the constructor's `Error`) are the result `.error`; the retry loop carries a fuel argument and `.outOfFuel` stands for
"has not returned yet".
-/
namespace Dcg.Model.Names
open Dcg.Py.Chars Dcg.Py.Ident

inductive Res (α : Type) where
  | ok (a : α)
  | outOfFuel
  | error
  deriving Repr, DecidableEq

def Res.map {α β} (f : α → β) : Res α → Res β
  | .ok a => .ok (f a)
  | .outOfFuel => .outOfFuel
  | .error => .error

/-- the two Python string methods that are not modelled structurally -/
structure Env where
  lower : List Char → List Char
  upper : List Char → List Char

def pyEnv : Env := ⟨lowerS, upperS⟩

inductive Kind where
  | base      -- FieldNameResolver (ModelType.CLASS)
  | pydantic  -- PydanticFieldNameResolver (ModelType.PYDANTIC; used for the members of every model kind)
  | enum      -- EnumFieldNameResolver (ModelType.ENUM)
  deriving Repr, DecidableEq

structure Cfg where
  /-- `empty_field_name` as passed (`[]` = None or ""); the constructor stores `empty_field_name or "_"` -/
  emptyFieldName : List Char := []
  snakeCase : Bool := false
  delimiter : Option (List Char) := none
  /-- `special_field_name_prefix` after the constructor's default ("field" when None) -/
  pfx : List Char := ['f', 'i', 'e', 'l', 'd']
  removePrefix : Bool := false
  capitalise : Bool := false
  noAlias : Bool := false
  aliases : List (List Char × List Char) := []

def Cfg.effEmpty (cfg : Cfg) : List Char :=
  if cfg.emptyFieldName = [] then ['_'] else cfg.emptyFieldName

/-! ### the constructor (`FieldNameResolver.__init__`, inherited by the two subclasses) -/

/-- `"field" if special_field_name_prefix is None else special_field_name_prefix` -/
def storedPrefix : Option (List Char) → List Char
  | none => ['f', 'i', 'e', 'l', 'd']
  | some p => p

/-- the guard of the constructor: `f"{self.special_field_name_prefix}_".isidentifier()` — the prefix is empty
or the beginning of an identifier (it may start with `_`) -/
def PrefixStart (cfg : Cfg) : Prop := isIdentifier (cfg.pfx ++ ['_']) = true

instance (cfg : Cfg) : Decidable (PrefixStart cfg) := by unfold PrefixStart; infer_instance

/-- the constructor: `none` = it raises `Error` (no resolver object exists); otherwise the options are stored
as they are -/
def construct (cfg : Cfg) : Option Cfg := if PrefixStart cfg then some cfg else none

/-- `_validate_field_name` -/
def validate (k : Kind) (n : List Char) : Bool :=
  match k with
  | .pydantic => !isPydReserved n
  | _ => true

/-! ### str.split(delim) for a non-empty delimiter -/

/-- `skip` > 0: inside a matched delimiter; `cur`: the current piece, reversed -/
def splitGo (d : List Char) : List Char → Nat → List Char → List (List Char)
  | [], _, cur => [cur.reverse]
  | _ :: cs, skip + 1, cur => splitGo d cs skip cur
  | c :: cs, 0, cur =>
    if d.isPrefixOf (c :: cs) then cur.reverse :: splitGo d cs (d.length - 1) []
    else splitGo d cs 0 (c :: cur)

def splitOn (d s : List Char) : List (List Char) := splitGo d s 0 []

/-- `x[0].upper() + x[1:]` -/
def capFirst (E : Env) : List Char → List Char
  | [] => []
  | c :: cs => E.upper [c] ++ cs

/-- `snake_to_upper_camel(word, delimiter)` for a non-empty delimiter -/
def snakeToUpperCamelD (E : Env) (word delim : List Char) : List Char :=
  let pre := if delim.isPrefixOf word then ['_'] else []
  let w := if delim.isPrefixOf word then word.drop 1 else word
  pre ++ ((splitOn delim w).filter (fun x => !x.isEmpty)).flatMap (capFirst E)

/-- `snake_to_upper_camel`: with an empty delimiter `word.startswith("")` holds and
`word[1:].split("")` raises `ValueError: empty separator` -/
def snakeToUpperCamel (E : Env) (word delim : List Char) : Res (List Char) :=
  if delim = [] then .error else .ok (snakeToUpperCamelD E word delim)

/-! ### camel_to_snake -/

/-- `re.sub(r"([^_])([A-Z][a-z]+)", r"\1_\2", s)`; `inRun`: the greedy `[a-z]+` of the previous
match is still consuming -/
def sub1Go : Bool → List Char → List Char
  | inRun, a :: b :: c :: rest =>
    if inRun && isAsciiLower a then a :: sub1Go true (b :: c :: rest)
    else if a != '_' && isAsciiUpper b && isAsciiLower c then a :: '_' :: b :: c :: sub1Go true rest
    else a :: sub1Go false (b :: c :: rest)
  | _, l => l

/-- `re.sub(r"([a-z0-9])([A-Z])", r"\1_\2", s)` -/
def sub2 : List Char → List Char
  | a :: b :: rest =>
    if (isAsciiLower a || isAsciiDigit a) && isAsciiUpper b then a :: '_' :: b :: sub2 rest
    else a :: sub2 (b :: rest)
  | l => l

def camelToSnake (E : Env) (s : List Char) : List Char := E.lower (sub2 (sub1Go false s))

/-! ### get_valid_name -/

/-- the characters of the class `[¹²³⁴⁵⁶⁷⁸⁹]` -/
def isSuper19 (c : Char) : Bool :=
  c.toNat == 0xB9 || c.toNat == 0xB2 || c.toNat == 0xB3 || (0x2074 ≤ c.toNat && c.toNat ≤ 0x2079)

/-- `re.sub(r"[¹²³⁴⁵⁶⁷⁸⁹]|\W", "_", name)` on one character -/
def subWord (c : Char) : Char := if isSuper19 c || !isWord c then '_' else c

/-- `c if f"_{c}".isidentifier() else "_"` -/
def subIdent (c : Char) : Char := if isIdentifier ['_', c] then c else '_'

def sanitize (s : List Char) : List Char := (s.map subWord).map subIdent

/-- `if name[0].isnumeric() or not name[0].isidentifier(): name = f"{prefix}_{name}"` (name non-empty) -/
def prefixHead (cfg : Cfg) (s : List Char) : List Char :=
  match s with
  | [] => []
  | c :: _ => if isNumeric c || !isIdStart c then cfg.pfx ++ '_' :: s else s

/-- the `while name.startswith("_")` loop: strips all leading underscores when
`remove_special_field_name_prefix`, else prepends the prefix once -/
def underscoreLoop (cfg : Cfg) (s : List Char) : List Char :=
  if s.head? = some '_' then
    if cfg.removePrefix then s.dropWhile (· == '_') else cfg.pfx ++ s
  else s

/-- `if not name or not name[0].isidentifier(): name = f"{prefix}_{name}"` -/
def repairHead (cfg : Cfg) (s : List Char) : List Char :=
  match s with
  | [] => cfg.pfx ++ ['_']
  | c :: _ => if !isIdStart c then cfg.pfx ++ '_' :: s else s

/-- `name += "_"` when keyword or rejected by `_validate_field_name` -/
def suffixReserved (k : Kind) (s : List Char) : List Char :=
  if isKeyword s || !validate k s then s ++ ['_'] else s

def digits (n : Nat) : List Char := Nat.toDigits 10 n

/-- `f"{name}{count}" if upper_camel else f"{name}_{count}"` -/
def cand (base : List Char) (uc : Bool) (count : Nat) : List Char :=
  if uc then base ++ digits count else base ++ '_' :: digits count

/-- the condition of the retry loop -/
def bad (k : Kind) (excl : List (List Char)) (n : List Char) : Bool :=
  !(isIdentifier n || !validate k n) || isKeyword n || excl.contains n

/-- the retry loop; `fuel` = number of loop-condition evaluations allowed -/
def retry (k : Kind) (excl : List (List Char)) (base : List Char) (uc : Bool) :
    Nat → Nat → List Char → Res (List Char)
  | 0, _, _ => .outOfFuel
  | fuel + 1, count, new =>
    if bad k excl new then retry k excl base uc fuel (count + 1) (cand base uc count) else .ok new

/-- everything before the substitution: empty name, leading `#`, optional camel conversion -/
def stage1 (E : Env) (cfg : Cfg) (ign : Bool) (name : List Char) : Res (List Char) :=
  let name := if name = [] then cfg.effEmpty else name
  let name := match name with
    | '#' :: t => if t = [] then cfg.effEmpty else t
    | _ => name
  if cfg.snakeCase && !ign then
    match cfg.delimiter with
    | some d => snakeToUpperCamel E name d
    | none => .ok name
  else .ok name

/-- from the substituted name to the body the retry loop works on -/
def body (E : Env) (k : Kind) (cfg : Cfg) (ign : Bool) (s : List Char) : List Char :=
  let s3 := repairHead cfg (underscoreLoop cfg (prefixHead cfg s))
  let s4 := if cfg.capitalise || (cfg.snakeCase && !ign) then camelToSnake E s3 else s3
  suffixReserved k s4

def firstName (E : Env) (cfg : Cfg) (uc : Bool) (b : List Char) : List Char :=
  if uc then snakeToUpperCamelD E b ['_'] else if cfg.capitalise then E.upper b else b

/-- `FieldNameResolver.get_valid_name` (and the pydantic variant through `k`) with explicit fuel -/
def getValidNameBaseF (fuel : Nat) (E : Env) (k : Kind) (cfg : Cfg) (name : List Char)
    (excl : List (List Char)) (ign uc : Bool) : Res (List Char) :=
  match stage1 E cfg ign name with
  | .ok n1 =>
    match sanitize n1 with
    | [] => .error   -- `name[0]` raises IndexError
    | s =>
      let b := body E k cfg ign s
      retry k excl b uc fuel 1 (firstName E cfg uc b)
  | .outOfFuel => .outOfFuel
  | .error => .error

def mro : List Char := ['m', 'r', 'o']

/-- the name and excludes actually used: `EnumFieldNameResolver.get_valid_name` rewrites some names and adds
names of its own to the excludes before it calls the base class. WHICH names is read off the source
(`Dcg.Gen.EnumSites`: today it rewrites `mro` to `mro_` and reserves `mro`), so the model follows the code
when the reservation moves; what the callers must then provide is stated in Props/C09 (call sites). -/
def effName (k : Kind) (name : List Char) : List Char :=
  if k = .enum then (Dcg.Gen.EnumSites.resolverRenames.lookup name).getD name else name

def effExcl (k : Kind) (excl : List (List Char)) : List (List Char) :=
  if k = .enum then Dcg.Gen.EnumSites.resolverExcludes ++ excl else excl

def getValidNameF (fuel : Nat) (E : Env) (k : Kind) (cfg : Cfg) (name : List Char)
    (excl : List (List Char)) (ign uc : Bool) : Res (List Char) :=
  getValidNameBaseF fuel E k cfg (effName k name) (effExcl k excl) ign uc

/-- `get_valid_name` with the fuel that `retry_terminates` proves sufficient -/
def getValidName (E : Env) (k : Kind) (cfg : Cfg) (name : List Char)
    (excl : List (List Char)) (ign uc : Bool) : Res (List Char) :=
  getValidNameF ((effExcl k excl).length + 2) E k cfg name excl ign uc

/-- What a caller observes of `Resolver(**options).get_valid_name(...)`: the constructor first (its `Error`
is the result `.error`), then the call. -/
def newAndGetValidName (E : Env) (k : Kind) (cfg : Cfg) (name : List Char)
    (excl : List (List Char)) (ign uc : Bool) : Res (List Char) :=
  match construct cfg with
  | none => .error
  | some c => getValidName E k c name excl ign uc

/-- `get_valid_field_name_and_alias` -/
def getValidFieldNameAndAlias (E : Env) (k : Kind) (cfg : Cfg) (name : List Char)
    (excl : List (List Char)) : Res (List Char × Option (List Char)) :=
  match cfg.aliases.lookup name with
  | some a => .ok (a, some name)
  | none =>
    (getValidName E k cfg name excl false false).map fun v =>
      (v, if cfg.noAlias || name == v then none else some name)

/-- one emitted member: ((field name, alias), typed `Any` because the property's schema is `true`/`false`) -/
abbrev FieldOut := (List Char × Option (List Char)) × Bool

/-- (instance search gives up on this nesting depth by itself) -/
instance instDecEqFoldOut : DecidableEq (List FieldOut × List (List Char)) :=
  fun a b => instDecidableEqProd a b

/-- The loop of `parse_object_fields` over (property name, is-boolean-schema). Per property:
`get_valid_field_name_and_alias(name, exclude_field_names)`, then `exclude_field_names.add(field_name)`,
and only THEN the branch `if isinstance(field, bool): fields.append(<Any member>); continue` — the name of
a boolean-schema property is reserved for the rest of the class exactly like any other.
Returns the members and the final `exclude_field_names`. -/
def foldProps (E : Env) (k : Kind) (cfg : Cfg) :
    List (List Char × Bool) → List (List Char) → Res (List FieldOut × List (List Char))
  | [], excl => .ok ([], excl)
  | (n, isBool) :: ps, excl =>
    match getValidFieldNameAndAlias E k cfg n excl with
    | .ok fa =>
      let excl' := fa.1 :: excl
      if isBool then
        -- boolean schema: member typed Any, `continue`
        (foldProps E k cfg ps excl').map fun r => ((fa, true) :: r.1, r.2)
      else
        -- ordinary schema: `parse_item` (outside this model), member of that type
        (foldProps E k cfg ps excl').map fun r => ((fa, false) :: r.1, r.2)
    | .outOfFuel => .outOfFuel
    | .error => .error

/-- the key under which a member is read and written: alias if there is one, else the name -/
def wireKey (fa : List Char × Option (List Char)) : List Char := fa.2.getD fa.1

/-- the same, when the attribute name is what the Python compiler makes of the identifier
(`nfkc`: NFKC normalisation of identifiers, PEP 3131 — a parameter supplied by the harness) -/
def effKey (nfkc : List Char → List Char) (fa : List Char × Option (List Char)) : List Char :=
  fa.2.getD (nfkc fa.1)

end Dcg.Model.Names
