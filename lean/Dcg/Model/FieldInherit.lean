import Dcg.Model.FieldSpec
import Dcg.Model.TypedDict
/-!
# Inherited members and required-only overrides (property C05)

A schema `S` that extends `B` (`allOf: [{$ref: B}, …]`) may list members it INHERITS in a `required`
list of its own. Three places:

* `owner`   — `required` of the schema that owns the `allOf`. `_parse_object_common_part` turns every
  name of `obj.required` that is no own property into a nameless placeholder field
  (`data_model_field_type(required=True, original_name=…, data_type=DataType())`), and
  `Parser.__override_required_field` replaces the placeholder by a COPY of the base's field (found through
  the base classes, nearest first) with `required = True` — whatever `--force-optional` / `--use-default`
  say, and without recomputing `nullable`;
* `sibling` — an allOf item that carries only `required`: the names are collected and applied to the
  schema's OWN fields only (`if (field.original_name or field.name) in required`);
* `item`    — the `required` list of an allOf item that has properties of its own: `parse_object_fields`
  reads it for the item's own properties only.
In the last two places the entry is dropped for an inherited member.

What the subclass then means is decided by the target library:
* pydantic 1/2, msgspec, TypedDict (class syntax): the subclass's own declaration replaces the inherited one;
* TypedDict (functional syntax): `Dcg.Model.TypedDict` — one dict display over `all_fields`, last entry wins;
* dataclasses: `default = getattr(cls, name, MISSING)` finds the class attribute the BASE dataclass left
  for a literal default, so a re-annotation without `= …` keeps the inherited default
  (`field(default_factory=…)` leaves no class attribute);
* dataclasses and msgspec collect the fields of the bases first, a re-declared field keeps its position,
  and refuse a field without default after one with a default when the class is created (`classOrderOk`).
-/
namespace Dcg.Model.Field

/-- how the subclass schema re-lists an inherited member in a `required` list -/
inductive Relist where
  | no | owner | sibling | item
  deriving DecidableEq, Repr, Inhabited

/-- `base`: the member as the BASE schema declares it (own `required` list of the base);
`relist`: how the subclass schema lists it again -/
structure IVec where
  base : Vec
  relist : Relist
  deriving Repr, Inhabited

def IVec.valid (i : IVec) : Bool := i.base.valid && i.base.via == .own

/-- the subclass gets a field of its own for the member: only the owner form creates the placeholder -/
def IVec.overridden (i : IVec) : Bool := i.relist == .owner

/-- `__override_required_field`: `copied_original_field = original_field.copy(); copied_original_field.required = True` -/
def FieldRec.asOverride (f : FieldRec) : FieldRec := { f with required := true }

/-- the field record of the nearest class that declares the member, seen from the subclass -/
def fromInherit (i : IVec) : FieldRec :=
  if i.overridden then (fromSchema i.base).asOverride else fromSchema i.base

/-- the member as the base class renders it -/
def IVec.baseShape (i : IVec) : Shape := render i.base

/-- the member as the subclass renders it, when it has a field of its own -/
def overrideShapeD (dec : Kind → Env → Decision) (i : IVec) : Option Shape :=
  if i.overridden then some (renderFieldD dec i.base.kind (fromSchema i.base).asOverride) else none

def IVec.overrideShape (i : IVec) : Option Shape := overrideShapeD tableDecision i

/-- the declaration an instance of the subclass is governed by (the nearest one) -/
def renderI (i : IVec) : Shape := i.overrideShape.getD i.baseShape

/-- What a member means in a class that re-declares it (`own`) on top of an inherited declaration
(`inherited`). Only dataclasses look at the inherited one: a re-annotation without ` = …` picks up the
class attribute a LITERAL default left on the base class. -/
def inheritSem (k : Kind) (inherited : Shape) (own : Option Shape) : Sem :=
  match own with
  | none => semOf k inherited
  | some s =>
    if k == .dc && s.asg == .none then
      match inherited.asg with
      | .lit d => semOf k { s with asg := .lit d }
      | _ => semOf k s
    else semOf k s

def semI (i : IVec) : Sem := inheritSem i.base.kind i.baseShape i.overrideShape

/-! ## Spec side -/

/-- the schema of the subclass lists the member as required (in its own or in the inherited list) -/
def IVec.listed (i : IVec) : Bool := i.base.inreq || i.relist != .no

/-- the member may be omitted in the subclass -/
def IVec.omittable (i : IVec) : Bool := !i.listed || i.base.opts.fo || (i.base.opts.ud && i.base.hasDefault)

/-! ## Defect families -/

/-- the `required` entry stands in an allOf item: never applied to an inherited member -/
def IVec.relistDropped (i : IVec) : Bool := (i.relist == .sibling || i.relist == .item) && !i.base.inreq

/-- dataclasses: the re-annotated member keeps the literal default of the base class -/
def IVec.dcKeepsDefault (i : IVec) : Bool :=
  i.base.kind == .dc && i.overridden &&
    (match i.overrideShape with | some s => s.asg == .none | none => false) &&
    (match i.baseShape.asg with | .lit _ => true | _ => false)

/-- the override is made required although `--force-optional` / `--use-default` ask for an omittable member -/
def IVec.overrideIgnoresRelaxation (i : IVec) : Bool :=
  i.overridden && (i.base.opts.fo || (i.base.opts.ud && i.base.hasDefault))

/-! ## Class level: field order of dataclasses and msgspec Structs with a base class -/

/-- a member declaration as far as the order rule is concerned -/
inductive AsgK where
  | none      -- no default
  | attr      -- a default that is left as a class attribute (a literal)
  | other     -- a default that leaves no class attribute (`field(default_factory=…)`, `field(default=…)`)
  deriving DecidableEq, Repr, Inhabited

def AsgK.hasDefault : AsgK → Bool
  | .none => false
  | _ => true

abbrev Decl := Nat × AsgK

def declGet (k : Nat) : List Decl → Option AsgK
  | [] => none
  | d :: ds => if d.1 = k then some d.2 else declGet k ds

/-- `fields[f.name] = f` on the ordered dict of fields: a re-declared field keeps its position -/
def declSet : List Decl → Nat → AsgK → List Decl
  | [], k, a => [(k, a)]
  | d :: ds, k, a => if d.1 = k then (k, a) :: ds else d :: declSet ds k a

/-- the default a subclass declaration ends up with: dataclasses read `getattr(cls, name, MISSING)`,
which finds the class attribute of the base for a declaration without ` = …`; msgspec reads the class
namespace only -/
def effectiveAsg (k : Kind) (base : List Decl) (d : Decl) : AsgK :=
  if d.2 == .none && k == .dc then
    (match declGet d.1 base with | some .attr => .attr | _ => .none)
  else d.2

/-- the fields of the subclass, in the order Python collects them -/
def mergeDecls (k : Kind) (base own : List Decl) : List Decl :=
  own.foldl (fun acc d => declSet acc d.1 (effectiveAsg k base d)) base

/-- no field without default after a field with a default -/
def orderOk : List Bool → Bool
  | [] => true
  | true :: rest => rest.all id
  | false :: rest => orderOk rest

/-- can Python create the subclass? (dataclass: `TypeError: non-default argument follows default
argument`; msgspec: `Required field cannot follow optional fields`); other kinds have no such rule -/
def classOrderOk (k : Kind) (base own : List Decl) : Bool :=
  match k with
  | .dc | .ms => orderOk ((mergeDecls k base own).map (·.2.hasDefault))
  | _ => true

/-! ## TypedDict: the tag of a declaration carries whether it is required -/

/-- tag of a TypedDict member declaration: which member (`h`) and whether the declaration is required -/
def tdTag (h : Nat) (required : Bool) : Nat := 2 * h + (if required then 1 else 0)

def tdTagRequired (t : Nat) : Bool := t % 2 == 1

/-- a de-duplication of a TypedDict member list that keeps the FIRST declaration of every key (what the
code does NOT do; only used to state what goes wrong then:
`Props/C05.lean: typedDict_keeping_first_declaration_loses_override`) -/
def keepFirstGo (seen : List (List Char)) : List Dcg.Model.TypedDict.TdField → List Dcg.Model.TypedDict.TdField
  | [] => []
  | f :: fs => if seen.contains f.key then keepFirstGo seen fs else f :: keepFirstGo (f.key :: seen) fs

end Dcg.Model.Field
