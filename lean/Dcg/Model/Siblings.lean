import Dcg.Model.Translate
/-
Validation keywords written NEXT TO `anyOf` / `oneOf` (siblings of the combination, not inside its members).

`parse_combined_schema` (parser/jsonschema.py) takes `base_object` = the combination schema without the
`anyOf` / `oneOf` list and parses every inline member from `_deep_merge(base_object, member)`: a keyword the
member states itself wins, every other sibling keyword is added to it. A `$ref` member is taken as it is
("TODO: support partial ref"). The merge of one member does not depend on the other members: `distribute`
is a `map`. (The seeded change C04-g pops the keywords from the shared `base_object` when it meets a `null`
member, so every member listed AFTER it loses them: a `foldl` with state, not a `map`.)

`Schema.anyOf` / `Schema.oneOf` carry no keywords of their own: a combination with sibling keywords is
represented by the combination of the distributed members (`distribute`), which is what JSON Schema says it
means for members without keywords of their own (`anyOf_siblings_valid`, `oneOf_siblings_valid` in
Props/C04.lean) — and what stage 1 of the generator builds (`trSib`, compared with the real parser on every run).
-/
namespace Dcg.Model.Translate
open Dcg.Sem Dcg.Model.Constraints

/-- `_deep_merge(base_object, member)` on the validation keywords: the member's own keyword wins -/
def mergeBounds (own sib : Bounds) : Bounds :=
  { minimum := own.minimum.or sib.minimum
    maximum := own.maximum.or sib.maximum
    exclMin := own.exclMin.or sib.exclMin
    exclMax := own.exclMax.or sib.exclMax
    multipleOf := own.multipleOf.or sib.multipleOf
    minLength := own.minLength.or sib.minLength
    maxLength := own.maxLength.or sib.maxLength
    pattern := own.pattern.or sib.pattern }

/-- one member of the combination with the sibling keywords merged in (a scalar member; `null` has no
keywords to carry, a `$ref` member is not merged) -/
def pushSib (sib : Bounds) : Schema → Schema
  | .scalar ty n b => .scalar ty n (mergeBounds b sib)
  | s => s

/-- the members of `{"anyOf": alts, …sib}` as the generator parses them: member by member -/
def distribute (sib : Bounds) (alts : List Schema) : List Schema := alts.map (pushSib sib)

/-- what the sibling keywords say about a value on their own: numeric keywords about numbers, string
keywords about strings, nothing about anything else (JSON Schema: a keyword applies to its own kind of value) -/
def sibOK (re : Regex) (sib : Bounds) : Json → Bool
  | .num x => numOK sib x
  | .str s => strOK re sib s
  | _ => true

/-- a member without keywords of its own: `{"type": T}` (possibly a nullable type list) or `{"type": "null"}` -/
def plainMember : Schema → Bool
  | .null => true
  | .scalar _ _ b => b == {}
  | _ => false

/-- `DataModelField._get_strict_field_constraint_value` on a member of ANY type: `int()` for gt/ge/lt/le unless
the type is `float` (a `str` / `bool` / `None` member that inherited a numeric sibling keyword gets `int()`) -/
def sibFam : Option STy → Fam
  | some .number => .num
  | _ => .int

def sibFieldCons (st : Style) (ty : Option STy) (b : Bounds) : Cons :=
  consOfBounds (fieldKw st) (castValue .field (sibFam ty)) b

/-- one member of a combination WITH sibling keywords (`boundsHasConstraint sib`): `parse_item` sees a parent
that `has_constraint` and a member that has one too (the merged keywords), so every inline member — the
`null` member included — becomes a root class of its own; the constrained type takes the keywords of its own
kind (`typeCons`), `Field()` takes them all under `field_constraints` -/
def trSibMember (st : Style) (o : Opts) (sib : Bounds) : Schema → Ty
  | .ref n => .ref n
  | .null => .root (rootCons o (sibFieldCons st none sib)) .null
  | .scalar ty n b =>
    let m := mergeBounds b sib
    .root (rootCons o (sibFieldCons st (some ty) m)) (scalarCore st o ty n m)
  | s => tr st o (.item true) s

/-- `parse_combined_schema` for a combination with sibling keywords -/
def trSib (st : Style) (o : Opts) (sib : Bounds) (alts : List Schema) : Ty :=
  .union (alts.map (trSibMember st o sib))

theorem mergeBounds_empty (sib : Bounds) : mergeBounds {} sib = sib := by
  cases sib; simp [mergeBounds]

theorem numOK_empty (x : Dec) : numOK {} x = true := by simp [numOK]

theorem strOK_empty (re : Regex) (s : List Char) : strOK re {} s = true := by simp [strOK]

/-- a plain member with the sibling keywords pushed in is valid exactly when the member is valid and the
sibling keywords hold for the value — at every fuel -/
theorem pushSib_valid (re : Regex) (defs : Defs) (sib : Bounds) (a : Schema) (v : Json)
    (hp : plainMember a = true) (n : Nat) :
    validJ re n defs (pushSib sib a) v = (validJ re n defs a v && sibOK re sib v) := by
  cases n with
  | zero => simp [validJ]
  | succ n =>
    cases a with
    | null => cases v <;> simp [pushSib, validJ, sibOK, Json.isNull]
    | scalar ty nl b =>
      have hb : b = {} := by simpa [plainMember] using hp
      subst hb
      simp only [pushSib, mergeBounds_empty, validJ]
      cases v with
      | null => simp [validScalar, sibOK, Json.isNull]
      | bool x => cases ty <;> simp [validScalar, sibOK, Json.isNull]
      | num x => cases ty <;> simp [validScalar, sibOK, Json.isNull, numOK_empty]
      | str s => cases ty <;> simp [validScalar, sibOK, Json.isNull, strOK_empty]
      | arr xs => cases ty <;> simp [validScalar, sibOK, Json.isNull]
      | obj kvs => cases ty <;> simp [validScalar, sibOK, Json.isNull]
    | _ => simp [plainMember] at hp

theorem distribute_valid_map (re : Regex) (defs : Defs) (sib : Bounds) (v : Json) (n : Nat) :
    (alts : List Schema) → alts.all plainMember = true →
    (distribute sib alts).map (fun a => validJ re n defs a v) =
      alts.map (fun a => validJ re n defs a v && sibOK re sib v)
  | [], _ => rfl
  | a :: as, h => by
    have h' : plainMember a = true ∧ as.all plainMember = true := by simpa using h
    have ih := distribute_valid_map re defs sib v n as h'.2
    simp only [distribute, List.map_cons] at ih ⊢
    rw [pushSib_valid re defs sib a v h'.1 n, ih]

end Dcg.Model.Translate
