import Dcg.Model.Graphql
import Dcg.Model.Types
import Dcg.Model.HintExpr
import Dcg.Sem.Typing
/-
Dcg.Model.GraphqlBridge — the seam between the GraphQL front end (C17, `Model.Graphql`) and the
rendering of type annotations (C13, `Model.Types` / `Sem.Typing`):

* `toTypes`       the `DataType` chain `GraphQLParser.parse_field` builds (`Graphql.DT`) as the type tree
                  `DataType.type_hint` walks (`Types.DT`): a list node has `is_list = True` and one child,
                  the innermost node has `type = obj.name` (an enum leaf also carries `reference`, whose
                  source is not nullable; `type_hint` reads `type` first);
* `fieldBits`     what `DataModelFieldBase.type_hint` reads of the member besides its type: `required`
                  (`nullable` is not passed by `parse_field`, no `default_factory`, `type_has_null` unset);
* `gqlOpts`       the spelling options the GraphQL parser hands to its `DataType`s:
                  `use_union_operator`, `use_standard_collections` — NOT `use_generic_container`;
* `annotation`    the annotation text written for a field of GraphQL type `t`;
* `gqlDenote`     what the GraphQL type expression means as a Python typing (TRUSTED statement of the
                  property): a list level ↦ `list[…]`, a nullable level ↦ the alternative `None`, a named
                  type ↦ that name; `!` removes the alternative `None` of its level;
* `chainE`        the typing expression a chain is expected to print as (typing spelling).
-/
namespace Dcg.Model.GraphqlBridge
open Dcg.Model.Graphql (GType FieldIR parseField unroll)
open Dcg.Model.Types (Attrs Opts FieldBits Str fieldTypeHint listName sNone sAny)
open Dcg.Sem.Typing (TExpr Ty nList sOptional)

abbrev GDT := Dcg.Model.Graphql.DT
abbrev TDT := Dcg.Model.Types.DT

def toTypes (isEnum : Str → Bool) : GDT → TDT
  | .leaf opt n =>
    .mk { ty := n, isOptional := opt, ref := if isEnum n then some { shortName := n } else none } none []
  | .listOf opt d => .mk { isList := true, isOptional := opt } none [toTypes isEnum d]

def fieldBits (ir : FieldIR) : FieldBits := { required := ir.required }

def gqlOpts (unionOp stdColl : Bool) : Opts := { unionOp := unionOp, stdColl := stdColl, genericCont := false }

/-- `field.type_hint` of the member `parse_field` builds for a field of type `t` -/
def annotation (o : Opts) (isEnum : Str → Bool) (forceOptional : Bool) (t : GType) : Str :=
  let ir := parseField forceOptional t
  fieldTypeHint o (fieldBits ir) (toTypes isEnum ir.dt)

/-! ### what a GraphQL type expression means -/

/-- a nullable level has the alternative `None` -/
def withNone (nullable : Bool) (x : Ty) : Ty := if nullable then .union [x] true else x

/-- `den nullable t`: `nullable` = no `!` has been seen at this level yet -/
def den : Bool → GType → Ty
  | nullable, .named n => withNone nullable (.atom n)
  | nullable, .list t => withNone nullable (.app nList [den true t])
  | _, .nonNull t => den false t

def gqlDenote (t : GType) : Ty := den true t

/-- the declared type of the member under `force_optional_for_required_fields` -/
def declared (forceOptional : Bool) (t : GType) : GType := if forceOptional then t.nullableTop else t

/-! ### the expected expression -/

def optE (b : Bool) (e : TExpr) : TExpr := if b then .app sOptional [e] else e

def chainE (o : Opts) : GDT → TExpr
  | .leaf opt n => optE opt (.atom n)
  | .listOf opt d => optE opt (.app (listName o) [chainE o d])

/-- the same reading on chains -/
def denChain : GDT → Ty
  | .leaf opt n => withNone opt (.atom n)
  | .listOf opt d => withNone opt (.app nList [denChain d])

def setOpt (b : Bool) : GDT → GDT
  | .leaf _ n => .leaf b n
  | .listOf _ d => .listOf b d

/-- a GraphQL type name the annotation can carry unchanged: an identifier-like token (no `[ ] , |`,
no white space) that is not `None` / `Any` (Python names `type_hint` treats specially) and not one
of the nine container names of the `typing` spellings. GraphQL names are `[_A-Za-z][_0-9A-Za-z]*`,
so only the last two conditions restrict. -/
def reservedNames : List Str :=
  [sNone, sAny] ++ Dcg.Sem.Typing.listNames ++ Dcg.Sem.Typing.setNames ++ Dcg.Sem.Typing.dictNames ++
    [Dcg.Sem.Typing.sUnion, sOptional, Dcg.Sem.Typing.sLiteral]

def okName (n : Str) : Bool := Dcg.Model.HintExpr.plainName n && !reservedNames.contains n

end Dcg.Model.GraphqlBridge
