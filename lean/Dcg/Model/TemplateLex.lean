import Dcg.Model.TemplateAbs
import Dcg.Model.Sites
import Dcg.Py.LexState
/-
Dcg.Model.TemplateLex — the lexical-state analysis of the templates, in Lean.

`LQ` is Python's coarse lexical state (`Dcg/Py/LexState.St`) refined into a proper left-to-right
automaton: `LexState.run` decides at an opening quote whether a triple quote follows by looking two
characters ahead, which does not compose over the pieces of a rendered text; here the quotes read
so far are part of the state (`q1`, `q2`, `t1`, `t2`), as is a pending backslash (`sEsc`, `tEsc`).
`LQ.proj` maps back to the coarse state (the state `LexState.lexState` reports if the text ended
here); the two are compared on random texts by the campaign `lex.auto` and on the template
literals by `decide`.

`lexAuto` adds what an interpolation site may do: a site may only stand in a state that
`Model/Sites.allowed` permits for its reviewed class (otherwise the analysis FAILS), and a value
that is lexically neutral for its class (`LexHyp`, `Dcg/Proofs/TemplateLex.lean`) leaves the state
as listed in `lslot`.
-/
namespace Dcg.Model.TemplateLex
open Dcg.Model.TemplateSyntax Dcg.Model.Template Dcg.Model.TemplateAbs Dcg.Model.Sites
open Dcg.Py.LexState (St)

/-- `d` = the quote character is `"` (false: `'`) -/
inductive LQ where
  | code
  | q1 (d : Bool)     -- in code, one quote read: a short string has begun, or a triple quote is coming
  | q2 (d : Bool)     -- two quotes read: an empty string, or a triple quote is coming
  | s (d : Bool)      -- inside a short string
  | sEsc (d : Bool)   -- … after a backslash
  | t (d : Bool)      -- inside a triple-quoted string
  | tEsc (d : Bool)   -- … after a backslash
  | t1 (d : Bool)     -- … one quote read
  | t2 (d : Bool)     -- … two quotes read
  | cmt               -- inside a `#` comment
  | err               -- a short string was broken by a newline
  deriving DecidableEq, Repr

def quoteOf (d : Bool) : Char := if d then '"' else '\''

def stepCode (c : Char) : LQ :=
  if c = '#' then .cmt else if c = '\'' then .q1 false else if c = '"' then .q1 true else .code

def stepS (d : Bool) (c : Char) : LQ :=
  if c = '\\' then .sEsc d else if c = quoteOf d then .code
  else if c = '\n' ∨ c = '\r' then .err else .s d

def stepT (d : Bool) (c : Char) : LQ :=
  if c = '\\' then .tEsc d else if c = quoteOf d then .t1 d else .t d

def lstep : LQ → Char → LQ
  | .code, c => stepCode c
  | .q1 d, c => if c = quoteOf d then .q2 d else stepS d c
  | .q2 d, c => if c = quoteOf d then .t d else stepCode c
  | .s d, c => stepS d c
  | .sEsc d, _ => .s d
  | .t d, c => stepT d c
  | .tEsc d, _ => .t d
  | .t1 d, c => if c = quoteOf d then .t2 d else stepT d c
  | .t2 d, c => if c = quoteOf d then .code else stepT d c
  | .cmt, c => if c = '\n' ∨ c = '\r' then .code else .cmt
  | .err, _ => .err

/-- the coarse state `Dcg/Py/LexState` reports when the text ends here -/
def LQ.proj : LQ → St
  | .code => .code
  | .q1 d => if d then .dq else .sq
  | .q2 _ => .code
  | .s d | .sEsc d => if d then .dq else .sq
  | .t d | .tEsc d | .t1 d | .t2 d => if d then .tdq else .tsq
  | .cmt => .comment
  | .err => .err

/-- class of a site: the reviewed classification of `Model/Sites` applied to the expression under
its filters -/
def siteClass (e : Expr) : VClass :=
  let bf := e.unfilter
  classify bf.1.src (bf.2.map Filter.name)

/-- a site may stand in `q` when its class is allowed in the coarse state and no quote or
backslash is pending, except directly behind an opening quote -/
def siteAllowed (e : Expr) (q : LQ) : Bool :=
  allowed (siteClass e) q.proj.name &&
  (match q with
   | .code | .q1 _ | .s _ | .t _ | .cmt => true
   | _ => false)

/-- states possible after a lexically neutral value of the site's class -/
def lslot (e : Expr) (q : LQ) : Option (List LQ) :=
  if siteAllowed e q then
    match q with
    | .q1 d => some [.q1 d, .s d]            -- empty value / the string has begun
    | .t d => some [.t d, .t1 d, .t2 d]      -- escaped text may end in one or two quotes
    | q => some [q]
  else none

/-- sites whose values are a single line in the sense of `str.splitlines` and that may therefore
stand inside an `indent` filter block: the sites of the included Config templates
(`Model/Sites.filterBlockSites`); any other site inside a filter block fails the check -/
def loneLine (e : Expr) : Bool :=
  (match siteClass e with
   | .identifier | .typeExpr | .reprValue | .baseExpr | .escapedKey | .commentLine => true
   | _ => false) && Dcg.Model.Sites.filterBlockSites.contains e.unfilter.1.src

def lexAuto : Auto := { Q := LQ, step := lstep, slot := lslot, oneLine := loneLine }

/-- a template must end in code, or in a comment (closed by the newline that joins models) -/
def lexGood (q : LQ) : Bool := q == .code || q == .cmt

/-! ### the per-site table, computed from the same analysis (no facts: every branch is possible) -/

structure Row where
  expr : String
  escaped : Bool            -- the `escape_docstring` filter is applied
  states : List String      -- names of the possible coarse states, in order of discovery
  deriving DecidableEq, Repr

def rowOf (e : Expr) (S : List (MQ lexAuto)) : Row :=
  let bf := e.unfilter
  ⟨bf.1.src, bf.2.contains .escapeDocstring, dedup (S.map (fun mq => mq.2.proj.name))⟩

def pseudoRow (label : String) (S : List (MQ lexAuto)) : Row :=
  ⟨label, false, dedup (S.map (fun mq => mq.2.proj.name))⟩

def argsSrc : List Expr → String
  | [] => ""
  | [e] => e.src
  | e :: r => e.src ++ "," ++ argsSrc r

mutual
/-- rows of the interpolation sites of one node entered with the state set `S`; includes and
macro calls are sites (their bodies are analysed where they are defined), as in the table the
Python translator writes -/
def rowsT : Tpl → List (MQ lexAuto) → List Row
  | .out e, S => [rowOf e S]
  | .ite _ thn els, S => rowsL thn S ++ rowsL els S
  | .forIn _ _ body, S =>
    match closeLoop (fun X => absL lexAuto [] body X) loopFuel S with
    | some T => rowsL body T
    | none => [pseudoRow "<loop does not close>" S]
  | .incl name _ _, S => [pseudoRow ("include:" ++ name) S]
  | .filterBlock _ body, S => rowsL body S
  | .macroDef _ _ body, _ => rowsL body [(Mode.off, LQ.code)]
  | .callMacro name _ args _, S => [pseudoRow (name ++ "(" ++ argsSrc args ++ ")") S]
  | _, _ => []
def rowsL : List Tpl → List (MQ lexAuto) → List Row
  | [], _ => []
  | t :: ts, S =>
    rowsT t S ++ (match absT lexAuto [] t S with
      | some S' => rowsL ts S'
      | none => [pseudoRow "<analysis gives up>" S])
end

def siteRows (t : List Tpl) : List Row := rowsL t [(Mode.off, LQ.code)]

/-- coarse final states of a template (no facts) -/
def finalNames (t : List Tpl) : Option (List String) :=
  (finalStates lexAuto .code [] t).map (fun S => dedup (S.map (fun q => q.proj.name)))

end Dcg.Model.TemplateLex
