import Dcg.Model.TemplateSyntax
import Dcg.Model.Escape
/-
Dcg.Model.Template — a total interpreter for the template fragment of `Model/TemplateSyntax`:
our statement of what Jinja2 (3.1, default `Undefined`, no autoescape — the Environment of
`model/base.py get_template`) does with such a template.  MODELLED, not verified: on every run the
campaign `templates: Lean interpreter vs the real Jinja templates` renders random environments
through the project's own templates and compares the text with `render` (exact equality).

Values are a small universe (undefined, None, bool, int, str, list, dict/record).  Whatever the
interpreter does not state (printing a list, comparing containers, …) is the explicit error
`unmodelled`, never a guess.  Every `{{ … }}` interpolation is also recorded as a *slot*
(expression, text written), which is what the template theorems quantify over.
-/
namespace Dcg.Model.Template
open Dcg.Model.TemplateSyntax

inductive Val where
  | undef                                -- jinja2.Undefined
  | none
  | bool (b : Bool)
  | int (i : Int)
  | str (s : List Char)
  | list (xs : List Val)
  | dict (kvs : List (String × Val))     -- a Python dict with str keys, or an object with attributes
  deriving Repr, Inhabited

inductive Err where
  | undefined                    -- jinja2.exceptions.UndefinedError
  | type                         -- TypeError / AttributeError / ValueError from the Python operation
  | unmodelled (what : String)   -- behaviour this model does not state
  | unsupported                  -- a node outside the fragment
  deriving Repr, DecidableEq

/-! ### Python / Jinja primitives -/

/-- the line boundaries of `str.splitlines()` -/
def isBreak (c : Char) : Bool :=
  c = '\n' || c = '\r' || c = Char.ofNat 0x0b || c = Char.ofNat 0x0c || c = Char.ofNat 0x1c ||
  c = Char.ofNat 0x1d || c = Char.ofNat 0x1e || c = Char.ofNat 0x85 || c = Char.ofNat 0x2028 ||
  c = Char.ofNat 0x2029

/-- `str.splitlines()` (keepends=False): `\r\n` is one boundary; no empty last line -/
def splitlines : List Char → List (List Char)
  | [] => []
  | '\r' :: '\n' :: r => [] :: splitlines r
  | c :: r =>
    if isBreak c then [] :: splitlines r
    else match splitlines r with
      | [] => [[c]]
      | l :: ls => (c :: l) :: ls

def spaces (n : Nat) : List Char := List.replicate n ' '

def joinNL : List (List Char) → List Char
  | [] => []
  | [l] => l
  | l :: ls => l ++ '\n' :: joinNL ls

/-- jinja2 `do_indent(s, width)` with `first=False, blank=False`:
`s += "\n"; lines = s.splitlines(); rv = lines.pop(0);`
`if lines: rv += "\n" + "\n".join(indention + line if line else line for line in lines)` -/
def indentStr (width : Nat) (s : List Char) : List Char :=
  match splitlines (s ++ ['\n']) with
  | [] => []
  | first :: rest =>
    if rest.isEmpty then first
    else first ++ '\n' :: joinNL (rest.map (fun l => if l.isEmpty then l else spaces width ++ l))

/-- `str.replace(old, new)` for non-empty `old` (left to right, non-overlapping) -/
def replaceGo (old new : List Char) : Nat → List Char → List Char
  | 0, s => s
  | _, [] => []
  | n + 1, c :: r =>
    if old.isPrefixOf (c :: r) then new ++ replaceGo old new n ((c :: r).drop old.length)
    else c :: replaceGo old new n r

def replaceStr (old new s : List Char) : List Char := replaceGo old new s.length s

def isInfix (needle : List Char) : List Char → Bool
  | [] => needle.isEmpty
  | c :: r => needle.isPrefixOf (c :: r) || isInfix needle r

def intStr (i : Int) : List Char :=
  if i < 0 then '-' :: Nat.toDigits 10 i.natAbs else Nat.toDigits 10 i.toNat

/-- Python truth value (Undefined is false) -/
def truthy : Val → Bool
  | .undef => false
  | .none => false
  | .bool b => b
  | .int i => i != 0
  | .str s => !s.isEmpty
  | .list xs => !xs.isEmpty
  | .dict kvs => !kvs.isEmpty

/-- the truth value where the universe determines it.  `.dict []` stands for an empty Python dict
(false) as well as for an object without attributes (true: a pydantic config object whose
`.dict(exclude_unset=True)` is empty still makes `{% if config %}` succeed) — not stated. -/
def truthOf (v : Val) : Except Err Bool :=
  match v with
  | .dict [] => .error (.unmodelled "truth value of an empty dict or object")
  | v => .ok (truthy v)

/-- `str(value)` as `{{ value }}` writes it (Undefined prints as the empty string) -/
def toStr : Val → Except Err (List Char)
  | .undef => .ok []
  | .none => .ok "None".toList
  | .bool true => .ok "True".toList
  | .bool false => .ok "False".toList
  | .int i => .ok (intStr i)
  | .str s => .ok s
  | .list _ => .error (.unmodelled "str(list)")
  | .dict _ => .error (.unmodelled "str(dict)")

def lookupKey (kvs : List (String × Val)) (k : String) : Val := (kvs.lookup k).getD .undef

/-- Python `==` on the scalar part of the universe -/
def valEq : Val → Val → Except Err Bool
  | .str a, .str b => .ok (a == b)
  | .int a, .int b => .ok (a == b)
  | .bool a, .bool b => .ok (a == b)
  | .none, .none => .ok true
  | .undef, .undef => .ok true
  | .bool _, .int _ => .error (.unmodelled "bool == int")
  | .int _, .bool _ => .error (.unmodelled "int == bool")
  -- only container against container of the same kind needs element-wise comparison (not stated);
  -- a list / dict / object never equals a scalar, None, Undefined or a container of the other kind
  | .list _, .list _ => .error (.unmodelled "list == list")
  | .dict _, .dict _ => .error (.unmodelled "dict == dict")
  | _, _ => .ok false

def cmpOrd (op : CmpOp) (a b : Int) : Bool :=
  match op with
  | .lt => a < b | .le => a ≤ b | .gt => a > b | .ge => a ≥ b | _ => false

def containsVal (needle : Val) : List Val → Except Err Bool
  | [] => .ok false
  | x :: xs => do
    if (← valEq needle x) then pure true else containsVal needle xs

def valIn (needle hay : Val) : Except Err Bool :=
  match hay with
  | .str h => (match needle with
    | .str n => .ok (isInfix n h)
    | _ => .error .type)
  | .list xs => containsVal needle xs
  | .dict kvs => (match needle with
    | .str n => .ok (kvs.any (fun kv => kv.1.toList == n))
    | _ => .error (.unmodelled "non-str key in dict"))
  | .undef => .ok false
  | _ => .error .type

def compare (op : CmpOp) (a b : Val) : Except Err Val :=
  match op with
  | .eq => do pure (.bool (← valEq a b))
  | .ne => do pure (.bool (!(← valEq a b)))
  | .isIn => do pure (.bool (← valIn a b))
  | .notIn => do pure (.bool (!(← valIn a b)))
  | op => match a, b with
    | .int x, .int y => .ok (.bool (cmpOrd op x y))
    | .undef, _ => .error .undefined
    | _, .undef => .error .undefined
    | .str _, .str _ => .error (.unmodelled "str ordering")
    | .bool _, _ => .error (.unmodelled "bool ordering")
    | _, .bool _ => .error (.unmodelled "bool ordering")
    | .list _, .list _ => .error (.unmodelled "list ordering")
    | _, _ => .error .type

def applyFilter (f : Filter) (v : Val) : Except Err Val :=
  match f with
  | .escapeDocstring => (match v with
    | .str s => .ok (.str (Escape.escDoc 0 s))
    | .undef => .error .undefined
    | _ => .error .type)
  | .indent w => (match v with
    | .str s => .ok (.str (indentStr w s))
    | .undef => .error .undefined
    | _ => .error .type)
  | .replace old new => do
    if old.isEmpty then throw (.unmodelled "replace of the empty string")
    let s ← toStr v
    pure (.str (replaceStr old new s))
  | .length => (match v with
    | .str s => .ok (.int s.length)
    | .list xs => .ok (.int xs.length)
    | .dict kvs => .ok (.int kvs.length)
    | .undef => .ok (.int 0)
    | _ => .error .type)
  | .defaultEmptyDict => (match v with
    | .undef => .ok (.dict [])
    | v => .ok v)
  | .other _ => .error .unsupported

/-- the attributes (CPython 3.12, `dir(type)`) that a str / int / bool / list / None itself has: on these
names `x.a` is a bound method or a number, which the universe does not contain -/
def builtinHasAttr (v : Val) (a : String) : Bool :=
  a.startsWith "__" ||
  (match v with
   | .str _ => ["capitalize", "casefold", "center", "count", "encode", "endswith", "expandtabs", "find", "format",
       "format_map", "index", "isalnum", "isalpha", "isascii", "isdecimal", "isdigit", "isidentifier", "islower",
       "isnumeric", "isprintable", "isspace", "istitle", "isupper", "join", "ljust", "lower", "lstrip", "maketrans",
       "partition", "removeprefix", "removesuffix", "replace", "rfind", "rindex", "rjust", "rpartition", "rsplit",
       "rstrip", "split", "splitlines", "startswith", "strip", "swapcase", "title", "translate", "upper", "zfill"].contains a
   | .int _ | .bool _ => ["as_integer_ratio", "bit_count", "bit_length", "conjugate", "denominator", "from_bytes",
       "imag", "is_integer", "numerator", "real", "to_bytes"].contains a
   | .list _ => ["append", "clear", "copy", "count", "extend", "index", "insert", "pop", "remove", "reverse", "sort"].contains a
   | _ => false)

structure Env where
  base : List (String × Val)      -- the context passed to `template.render(**context)`
  vars : List (String × Val)      -- `set` / loop / macro-parameter bindings, innermost first
  deriving Repr

def Env.get (env : Env) (x : String) : Val :=
  match env.vars.lookup x with
  | some v => v
  | none => lookupKey env.base x

def Env.bind (env : Env) (x : String) (v : Val) : Env := { env with vars := (x, v) :: env.vars }

def eval (env : Env) : Expr → Except Err Val
  | .name n => .ok (env.get n)
  | .attr e a => do
    match (← eval env e) with
    | .dict kvs => pure (lookupKey kvs a)
    | .undef => throw .undefined
    | v =>
      -- `Environment.getattr`: `getattr(v, a)` fails, `v[a]` fails (TypeError), the result is Undefined
      if builtinHasAttr v a then throw (.unmodelled "attribute of a builtin value") else pure .undef
  | .item e i => do
    let v ← eval env e
    let k ← eval env i
    match v, k with
    | .undef, _ => throw .undefined
    | .list xs, .int n => if n < 0 then throw (.unmodelled "negative index") else pure (xs.getD n.toNat .undef)
    | .dict kvs, .str s => pure (lookupKey kvs (String.ofList s))
    -- `Environment.getitem`: TypeError / LookupError from `v[k]` with an int `k` gives Undefined
    | .str s, .int n =>
      if n < 0 then throw (.unmodelled "negative index")
      else pure (match s[n.toNat]? with | some c => .str [c] | none => .undef)
    | .none, .int _ | .int _, .int _ | .bool _, .int _ | .dict _, .int _ => pure .undef
    | _, _ => throw (.unmodelled "subscript")
  | .str s => .ok (.str s)
  | .int n => .ok (.int n)
  | .bool b => .ok (.bool b)
  | .none => .ok .none
  | .not e => do pure (.bool (!(← truthOf (← eval env e))))
  | .and a b => do
    let x ← eval env a
    if (← truthOf x) then eval env b else pure x
  | .or a b => do
    let x ← eval env a
    if (← truthOf x) then pure x else eval env b
  | .cmp op a b => do
    let x ← eval env a
    let y ← eval env b
    compare op x y
  | .filter e f => do applyFilter f (← eval env e)
  | .isDefined e => do
    match (← eval env e) with
    | .undef => pure (.bool false)
    | _ => pure (.bool true)
  | .isNone e => do
    match (← eval env e) with
    | .none => pure (.bool true)
    | _ => pure (.bool false)
  | .mcall e m args => do
    let v ← eval env e
    if m == "splitlines" && args == "" then
      match v with
      | .str s => pure (.list ((splitlines s).map .str))
      | _ => throw .undefined        -- no such attribute → Undefined → calling it fails
    else if m == "items" && args == "" then
      match v with
      | .dict kvs => pure (.list (kvs.map (fun kv => .list [.str kv.1.toList, kv.2])))
      | _ => throw .undefined
    else if m == "dict" && args == "exclude_unset=True" then
      -- a pydantic config object is modelled as the dict of the fields that were set
      match v with
      | .dict kvs => pure (.dict kvs)
      | _ => throw .undefined
    else throw (.unmodelled "method call")
  | .unsupported _ => .error .unsupported

/-- what `{{ e }}` writes -/
def evalOut (env : Env) (e : Expr) : Except Err (List Char) := do toStr (← eval env e)

/-- the items a `{% for %}` loop runs over -/
def iterate : Val → Except Err (List Val)
  | .list xs => .ok xs
  | .str s => .ok (s.map (fun c => .str [c]))
  | .dict kvs => .ok (kvs.map (fun kv => .str kv.1.toList))
  | .undef => .ok []
  | _ => .error .type

def bindAll (env : Env) : List String → List Val → Env
  | x :: xs, v :: vs => bindAll (env.bind x v) xs vs
  | x :: xs, [] => bindAll (env.bind x .undef) xs []
  | [], _ => env

/-- bind the loop target(s) to one item: `for x in …` or `for a, b in …` (tuple unpacking) -/
def bindTarget (env : Env) (vars : List String) (item : Val) : Except Err Env :=
  match vars with
  | [x] => .ok (env.bind x item)
  | vars => match item with
    | .list vs => if vs.length = vars.length then .ok (bindAll env vars vs) else .error .type
    | .str _ => .error (.unmodelled "unpacking a str")
    | .dict _ => .error (.unmodelled "unpacking a dict")
    | .undef => .error .undefined
    | _ => .error .type

/-- an interpolation together with its position: the text rendered before it -/
structure Site where
  before : List Char
  expr : Expr
  value : List Char
  deriving Repr

/-- rendered text together with every interpolation made on the way: `slots` = (site expression,
text written) for ALL interpolations; `sites` = the interpolations outside `{% filter %}` blocks
together with the text rendered before them (a filter block rewrites its body as a whole, so
positions inside it are not positions of the final text) -/
structure Out where
  text : List Char
  slots : List (Expr × List Char)
  sites : List Site
  deriving Repr

def Site.shift (pre : List Char) (s : Site) : Site := { s with before := pre ++ s.before }

def Out.empty : Out := ⟨[], [], []⟩
def Out.append (a b : Out) : Out :=
  ⟨a.text ++ b.text, a.slots ++ b.slots, a.sites ++ b.sites.map (Site.shift a.text)⟩
instance : Append Out := ⟨Out.append⟩

def forEach (f : Val → Except Err Out) : List Val → Except Err Out
  | [] => .ok Out.empty
  | v :: vs => do
    let o ← f v
    let r ← forEach f vs
    pure (o ++ r)

/-- the filters a `{% filter %}` block may apply to its rendered body -/
def blockFilter (f : Filter) (s : List Char) : Except Err (List Char) :=
  match f with
  | .indent w => .ok (indentStr w s)
  | .escapeDocstring => .ok (Escape.escDoc 0 s)
  | .replace old new => if old.isEmpty then .error (.unmodelled "replace of the empty string") else .ok (replaceStr old new s)
  | .length => .error (.unmodelled "filter block: length")
  | .defaultEmptyDict => .ok s
  | .other _ => .error .unsupported

mutual
/-- one node: output and the environment afterwards (`set` is visible to what follows) -/
def render (env : Env) : Tpl → Except Err (Out × Env)
  | .text s => .ok (⟨s, [], []⟩, env)
  | .out e => do
    let s ← evalOut env e
    pure (⟨s, [(e, s)], [⟨[], e, s⟩]⟩, env)
  | .ite c thn els => do
    let v ← eval env c
    if (← truthOf v) then renderL env thn else renderL env els
  | .forIn vars iter body => do
    let items ← iterate (← eval env iter)
    -- every iteration starts from the environment before the loop; nothing leaks out of the body
    let o ← forEach (fun item => do
      let env' ← bindTarget env vars item
      let r ← renderL env' body
      pure r.1) items
    pure (o, env)
  | .setVar v e => do
    let x ← eval env e
    pure (Out.empty, env.bind v x)
  | .incl _ _ body => do
    -- the included template sees the whole current context; its own assignments stay inside
    let r ← renderL env body
    pure (r.1, env)
  | .filterBlock f body => do
    let r ← renderL env body
    let s ← blockFilter f r.1.text
    pure (⟨s, r.1.slots, []⟩, env)
  | .macroDef _ _ _ => .ok (Out.empty, env)
  | .callMacro _ params args body => do
    if args.length > params.length then throw .type
    let vals ← args.mapM (eval env)
    -- a macro body sees the render context and its parameters, not the caller's local variables
    let r ← renderL (bindAll ⟨env.base, []⟩ params vals) body
    pure (r.1, env)
  | .unsupported _ => .error .unsupported
def renderL (env : Env) : List Tpl → Except Err (Out × Env)
  | [] => .ok (Out.empty, env)
  | t :: ts => do
    let r ← render env t
    let r' ← renderL r.2 ts
    pure (r.1 ++ r'.1, r'.2)
end

/-- `template.render(**context)` -/
def renderTemplate (context : List (String × Val)) (t : List Tpl) : Except Err Out := do
  let r ← renderL ⟨context, []⟩ t
  pure r.1

end Dcg.Model.Template
