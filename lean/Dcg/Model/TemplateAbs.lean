import Dcg.Model.Template
/-
Dcg.Model.TemplateAbs — abstract interpretation of a template (`List Tpl`) with respect to a
deterministic automaton that reads the rendered text.

An analysis is given by an `Auto`: the automaton (`step`), what an interpolation site may do to it
(`slot`: the set of states possible after the value, or `none` when the site must not stand in
that state) and which sites produce a single line (`oneLine`; only those may stand inside a
`{% filter indent(w) %}` block).  `absL A σ t S` computes the set of automaton states possible
after rendering `t` from any state in `S`, for every environment that agrees with the *facts* `σ`
(known truth values of context names such as `fields` / `description`): conditions decided by the
facts select one branch, a `for` over a name known to be empty runs zero times, over a name known
to be non-empty at least once; everything else is joined.  `none` = the analysis gives up
(`unsupported` node, a site in a forbidden state, a fact name re-bound, a loop that does not
close within the fuel, …), which every check treats as failure.

Soundness with respect to `Model.Template.render` is proved once, for every `Auto`, in
`Dcg/Proofs/TemplateAbs.lean`; the per-template results are then obtained by kernel evaluation of
`check` on the generated ASTs.
-/
namespace Dcg.Model.TemplateAbs
open Dcg.Model.TemplateSyntax Dcg.Model.Template

structure Auto where
  Q : Type
  [deq : DecidableEq Q]
  step : Q → Char → Q
  slot : Expr → Q → Option (List Q)
  oneLine : Expr → Bool

instance (A : Auto) : DecidableEq A.Q := A.deq

def Auto.run (A : Auto) (q : A.Q) (s : List Char) : A.Q := s.foldl A.step q

/-- `off`: plain output.  `on w pending`: inside `{% filter indent(w) %}`; `pending` = a newline has
been written and the indentation of the next line is due as soon as a non-newline character
follows (Jinja does not indent blank lines). -/
inductive Mode where
  | off
  | on (w : Nat) (pending : Bool)
  deriving DecidableEq, Repr

abbrev MQ (A : Auto) := Mode × A.Q

def stepM (A : Auto) : MQ A → Char → MQ A
  | (.off, q), c => (.off, A.step q c)
  | (.on w p, q), c =>
    if c = '\n' then (.on w true, A.step q '\n')
    else (.on w false, A.step (if p then A.run q (spaces w) else q) c)

def runM (A : Auto) (mq : MQ A) (s : List Char) : MQ A := s.foldl (stepM A) mq

def insertNew {α} [DecidableEq α] (x : α) (l : List α) : List α := if x ∈ l then l else l ++ [x]
def union {α} [DecidableEq α] (a b : List α) : List α := b.foldl (fun acc x => insertNew x acc) a
def dedup {α} [DecidableEq α] (l : List α) : List α := union [] l
def subset {α} [DecidableEq α] (a b : List α) : Bool := a.all (fun x => x ∈ b)

/-- a line break other than `\n` (they are what makes `indent`'s `splitlines` differ from a
character transducer) -/
def exotic (c : Char) : Bool := isBreak c && c != '\n'

def Mode.isOn : Mode → Bool
  | .off => false
  | .on _ _ => true

def absText (A : Auto) (S : List (MQ A)) (s : List Char) : Option (List (MQ A)) :=
  if S.any (fun mq => mq.1.isOn) && s.any exotic then none
  else some (dedup (S.map (fun mq => runM A mq s)))

def absSlot1 (A : Auto) (e : Expr) : MQ A → Option (List (MQ A))
  | (.off, q) => (A.slot e q).map (fun qs => qs.map (fun q' => (Mode.off, q')))
  | (.on w p, q) =>
    if A.oneLine e then
      (A.slot e (if p then A.run q (spaces w) else q)).map
        (fun qs => (Mode.on w p, q) :: qs.map (fun q' => (Mode.on w false, q')))
    else none

def absSlot (A : Auto) (e : Expr) : List (MQ A) → Option (List (MQ A))
  | [] => some []
  | mq :: r => do
    let a ← absSlot1 A e mq
    let b ← absSlot A e r
    pure (union a b)

/-- does the expression read the context name `x`? -/
def mentions (x : String) : Expr → Bool
  | .name n => n == x
  | .attr e _ | .not e | .isDefined e | .isNone e | .mcall e _ _ | .filter e _ => mentions x e
  | .item a b | .and a b | .or a b | .cmp _ a b => mentions x a || mentions x b
  | _ => false

/-- known truth values of expressions over the render context (e.g. `fields` ↦ false) -/
abbrev Facts := List (Expr × Bool)

/-- is the name read by one of the fact expressions (then it must not be re-bound)? -/
def Facts.has (σ : Facts) (x : String) : Bool := σ.any (fun p => mentions x p.1)

/-- truth value of a condition as far as the facts decide it -/
def absCond (σ : Facts) (e : Expr) : Option Bool :=
  match σ.lookup e with
  | some b => some b
  | none =>
    match e with
    | .not e => (absCond σ e).map (!·)
    | .and a b => (match absCond σ a, absCond σ b with
      | some false, _ => some false
      | _, some false => some false
      | some true, some true => some true
      | _, _ => none)
    | .or a b => (match absCond σ a, absCond σ b with
      | some true, _ => some true
      | _, some true => some true
      | some false, some false => some false
      | _, _ => none)
    | _ => none

/-- does the loop run: `some false` = never, `some true` = at least once, `none` = unknown -/
def absIter (σ : Facts) (e : Expr) : Option Bool := σ.lookup e

/-- smallest superset of `S` closed under `f`, within `fuel` rounds -/
def closeLoop {α} [DecidableEq α] (f : List α → Option (List α)) : Nat → List α → Option (List α)
  | 0, S => do
    let S' ← f S
    if subset S' S then some S else none
  | n + 1, S => do
    let S' ← f S
    if subset S' S then some S else closeLoop f n (union S S')

def loopFuel : Nat := 3

mutual
def absT (A : Auto) (σ : Facts) : Tpl → List (MQ A) → Option (List (MQ A))
  | .text s, S => absText A S s
  | .out e, S => absSlot A e S
  | .ite c thn els, S =>
    match absCond σ c with
    | some true => absL A σ thn S
    | some false => absL A σ els S
    | none => do
      let a ← absL A σ thn S
      let b ← absL A σ els S
      pure (union a b)
  | .forIn vars iter body, S =>
    if vars.any σ.has then none
    else match absIter σ iter with
      | some false => some S
      | some true => do
        let T ← closeLoop (fun X => absL A σ body X) loopFuel S
        absL A σ body T
      | none => closeLoop (fun X => absL A σ body X) loopFuel S
  | .setVar v _, S => if σ.has v then none else some S
  | .incl _ _ body, S => absL A σ body S
  | .filterBlock f body, S =>
    match f with
    | .indent w =>
      if S.all (fun mq => !mq.1.isOn) then do
        let S' ← absL A σ body (S.map (fun mq => (Mode.on w false, mq.2)))
        pure (dedup (S'.map (fun mq => (Mode.off, mq.2))))
      else none
    | _ => none
  | .macroDef _ _ _, S => some S
  | .callMacro _ _ _ body, S => absL A [] body S
  | .unsupported _, _ => none
def absL (A : Auto) (σ : Facts) : List Tpl → List (MQ A) → Option (List (MQ A))
  | [], S => some S
  | t :: ts, S => do
    let S' ← absT A σ t S
    absL A σ ts S'
end

/-- all total assignments of truth values to the expressions -/
def assignments : List Expr → List Facts
  | [] => [[]]
  | x :: xs => (assignments xs).flatMap (fun σ => [(x, false) :: σ, (x, true) :: σ])

/-- the states in which the template can end, started in `init`, under facts `σ` -/
def finalStates (A : Auto) (init : A.Q) (σ : Facts) (t : List Tpl) : Option (List A.Q) :=
  (absL A σ t [(Mode.off, init)]).map (fun S => S.map (·.2))

/-- the first assignment of the enumerated expressions (on top of the assumed facts) under which
some possible final state is not `good` (or the analysis gives up): the model-level counter-example -/
def refute (A : Auto) (init : A.Q) (good : A.Q → Bool) (assume : Facts) (enum : List Expr) (t : List Tpl) : Option Facts :=
  (assignments enum).find? (fun σ => match finalStates A init (assume ++ σ) t with
    | some S => !S.all good
    | none => true)

def check (A : Auto) (init : A.Q) (good : A.Q → Bool) (assume : Facts) (enum : List Expr) (t : List Tpl) : Bool :=
  (assignments enum).all (fun σ => match finalStates A init (assume ++ σ) t with
    | some S => S.all good
    | none => false)

/-! ### which context names to enumerate: bare names under `not/and/or` in `if` conditions and as
`for` iterables, minus every name the template binds itself (any list is sound; this choice only
decides how precise the analysis is) -/

def condNames : Expr → List String
  | .name x => [x]
  | .not e => condNames e
  | .and a b => condNames a ++ condNames b
  | .or a b => condNames a ++ condNames b
  | _ => []

mutual
def usedNamesT : Tpl → List String
  | .ite c thn els => condNames c ++ usedNamesL thn ++ usedNamesL els
  | .forIn _ iter body => condNames iter ++ usedNamesL body
  | .incl _ _ body => usedNamesL body
  | .filterBlock _ body => usedNamesL body
  | _ => []
def usedNamesL : List Tpl → List String
  | [] => []
  | t :: ts => usedNamesT t ++ usedNamesL ts
end

mutual
def boundNamesT : Tpl → List String
  | .ite _ thn els => boundNamesL thn ++ boundNamesL els
  | .forIn vars _ body => vars ++ boundNamesL body
  | .setVar v _ => [v]
  | .incl _ _ body => boundNamesL body
  | .filterBlock _ body => boundNamesL body
  | _ => []
def boundNamesL : List Tpl → List String
  | [] => []
  | t :: ts => boundNamesT t ++ boundNamesL ts
end

def factNames (t : List Tpl) : List String :=
  let bound := boundNamesL t
  dedup ((usedNamesL t).filter (fun x => !bound.contains x))

def factExprs (t : List Tpl) : List Expr := (factNames t).map Expr.name

end Dcg.Model.TemplateAbs
