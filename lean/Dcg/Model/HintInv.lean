import Dcg.Model.HintRegion
/-
Dcg.Model.HintInv — the field-level half of C13's `no_double_optional`, `Optional[…]`/`Union[…]` spelling.

* `anyContPlain t` — the shape invariant of what the schema parsers hand to `DataModelFieldBase`: a
  `DataType` whose raw type is `Any` and that is a list / set / dict (the type-map entries for a free-form
  `object` / `array`) is never ITSELF optional; optionality sits on a wrapper node around it.  Two guards of
  the code compare `DataType.type` with `"Any"` to mean "renders as `Any`" (`DataModelFieldBase.type_hint`,
  the optional-`Any` clean-up of `DataType.__init__`); they are right exactly on trees with this invariant
  (known finding C13-F5 is the tree without it).  Evaluated by the driver on every tree the real parser
  produces (campaign `c13 e2e`, stage 1).
* `optRegion o t` — the decidable region of the theorem (where known finding C13-F2 does not live): at every
  node that renders its members without a container of its own, no member hint reaches an `Optional[…]`
  through directly nested `Union[…]`s.
* `noDbl e` — the statement: no `Optional[Optional[…]]` anywhere in the expression.
* `fieldE` — the field-level decision of `DataModelFieldBase.type_hint` on expressions.
-/
namespace Dcg.Model.HintExpr
open Dcg.Model.Types
open Dcg.Sem.Typing hiding Str sNone sComma sPipe

/-! ### the parser-output invariant -/

/-- one node: not (raw type `Any`, a container, and optional by flag or by a nullable reference) -/
def anyContPlainA (a : Attrs) : Bool :=
  !(a.ty == sAny && isCont a && (a.isOptional || refNullable a))

mutual
/-- "a `DataType` with `type == 'Any'` and `is_dict`/`is_list`/`is_set` is never itself optional", at every node -/
def anyContPlain : DT → Bool
  | .mk a key kids => anyContPlainA a && anyContPlainO key && anyContPlainL kids
def anyContPlainO : Option DT → Bool
  | none => true
  | some k => anyContPlain k
def anyContPlainL : List DT → Bool
  | [] => true
  | t :: ts => anyContPlain t && anyContPlainL ts
end

/-! ### the statement: no doubly wrapped optional -/

/-- the expression is an `Optional[…]` subscription -/
def optRooted : TExpr → Bool
  | .app h _ => h == sOptional
  | _ => false

mutual
/-- no `Optional[Optional[…]]` anywhere (arguments of `Literal[…]` are atoms) -/
def noDbl : TExpr → Bool
  | .atom _ => true
  | .app h args => !(h == sOptional && args.any optRooted) && noDblL args
  | .bor args => noDblL args
def noDblL : List TExpr → Bool
  | [] => true
  | e :: es => noDbl e && noDblL es
end

mutual
/-- flattening the expression through directly nested `Union[…]` never reaches an `Optional[…]`
(closed under the `None` removal `rmU`, which may collapse a `Union[…]` to one of its members) -/
def noOptTop : TExpr → Bool
  | .atom _ => true
  | .bor _ => true
  | .app h args => if h = sOptional then false else if h = sUnion then noOptTopL args else true
def noOptTopL : List TExpr → Bool
  | [] => true
  | e :: es => noOptTop e && noOptTopL es
end

/-! ### the region -/

/-- a node that writes its members without a container of its own: none of them reaches an `Optional[…]` -/
def optNode (o : Opts) (a : Attrs) (kids : List DT) : Bool :=
  if a.ty = [] ∧ isCont a = false then noOptTopL (hintEL o kids) else true

mutual
def optRegion (o : Opts) : DT → Bool
  | .mk a key kids => optNode o a kids && optRegionO o key && optRegionL o kids
def optRegionO (o : Opts) : Option DT → Bool
  | none => true
  | some k => optRegion o k
def optRegionL (o : Opts) : List DT → Bool
  | [] => true
  | t :: ts => optRegion o t && optRegionL o ts
end

/-! ### `DataModelFieldBase.type_hint` on expressions -/

/-- `fieldDecide` with `get_optional_type` on the expression -/
def fieldDecideE (unionOp : Bool) (fb : FieldBits) (e : TExpr) (optAfter : Bool) (ty : Str) : TExpr :=
  if print e = [] then eNone
  else if fb.hasDefaultFactory ∨ (optAfter ∧ ty ≠ sAny) then e
  else match fb.nullable with
    | some true => getOptionalE unionOp e
    | some false => e
    | none =>
      if fb.required then (if fb.typeHasNull then getOptionalE unionOp e else e)
      else if fb.fallBack then getOptionalE unionOp e
      else e

def fieldE (o : Opts) (fb : FieldBits) (t : DT) : TExpr :=
  let r := hintE o t
  fieldDecideE o.unionOp fb r.1 r.2 t.attrs.ty

end Dcg.Model.HintExpr
