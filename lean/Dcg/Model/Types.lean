/-
Dcg.Model.Types — transliteration of `src/datamodel_code_generator/types.py`:
`_remove_none_from_union` (both spellings, on characters), `get_optional_type`,
`DataType.__init__` (the optional-`Any` normalisation), `DataType.type_hint`, and the field
level decision of `DataModelFieldBase.type_hint` (`model/base.py`).

Strings are `List Char`.  `DataType.type_hint` *assigns* `self.is_optional`; here it returns the
hint together with the flag as it is after the call (`DataType.imports` reads it afterwards).

What is a parameter, not modelled:
* `repr(literal)` — the members of `DataType.literals` travel as their `repr` text (a token);
* the three spelling options are one `Opts` value for the whole tree, as the generator creates
  every `DataType` through one `DataTypeManager.data_type` class carrying them as defaults;
* `is_func`/`kwargs` (call syntax `conint(ge=1)`) and `alias` are outside the model (absent).
-/
namespace Dcg.Model.Types

abbrev Str := List Char

/-! ### Python string primitives used by the code -/

/-- `re` `\s` on `str` patterns and `str.strip()`/`str.isspace()` (validated against CPython over
all code points on every run, campaign `types.isspace`). -/
def isSpace (c : Char) : Bool :=
  let n := c.toNat
  (9 ≤ n && n ≤ 13) || (28 ≤ n && n ≤ 32) || n == 0x85 || n == 0xA0 || n == 0x1680 ||
  (0x2000 ≤ n && n ≤ 0x200A) || n == 0x2028 || n == 0x2029 || n == 0x202F || n == 0x205F ||
  n == 0x3000

def lstrip (s : Str) : Str := s.dropWhile isSpace
def rstrip (s : Str) : Str := (s.reverse.dropWhile isSpace).reverse
/-- `str.strip()` -/
def strip (s : Str) : Str := rstrip (lstrip s)

/-- `sep.join(parts)` -/
def joinSep (sep : Str) : List Str → Str
  | [] => []
  | [p] => p
  | p :: ps => p ++ sep ++ joinSep sep ps

/-- `s.startswith(p)` -/
def startsWith (p : Str) (s : Str) : Bool := p.isPrefixOf s

/-- `sub in s` -/
def containsSub (sub : Str) : Str → Bool
  | [] => sub.isEmpty
  | c :: cs => sub.isPrefixOf (c :: cs) || containsSub sub cs

def sNone : Str := ['N', 'o', 'n', 'e']
def sAny : Str := ['A', 'n', 'y']
def sStr : Str := ['s', 't', 'r']
def sUnionPrefix : Str := ['U', 'n', 'i', 'o', 'n', '[']
def sOptionalPrefix : Str := ['O', 'p', 't', 'i', 'o', 'n', 'a', 'l', '[']
def sLiteralPrefix : Str := ['L', 'i', 't', 'e', 'r', 'a', 'l', '[']
def sComma : Str := [',', ' ']
def sPipe : Str := [' ', '|', ' ']
def sList : Str := ['L', 'i', 's', 't']
def sSet : Str := ['S', 'e', 't']
def sDict : Str := ['D', 'i', 'c', 't']
def sStdList : Str := ['l', 'i', 's', 't']
def sStdSet : Str := ['s', 'e', 't']
def sStdDict : Str := ['d', 'i', 'c', 't']
def sSequence : Str := ['S', 'e', 'q', 'u', 'e', 'n', 'c', 'e']
def sFrozenSet : Str := ['F', 'r', 'o', 'z', 'e', 'n', 'S', 'e', 't']
def sMapping : Str := ['M', 'a', 'p', 'p', 'i', 'n', 'g']

/-! ### `_remove_none_from_union`, operator spelling -/

/-- `re.split(r"\s*\|\s*", s)`: `cur` is the part read so far, `ws` the white space seen after it
(dropped when a `|` follows, kept otherwise), `skip` = directly after a `|` and its white space. -/
def splitPipeAux : Str → Bool → Str → Str → List Str
  | [], _, cur, ws => [cur ++ ws]
  | c :: cs, skip, cur, ws =>
    if c = '|' then cur :: splitPipeAux cs true [] []
    else if isSpace c then
      (if skip then splitPipeAux cs true [] [] else splitPipeAux cs false cur (ws ++ [c]))
    else splitPipeAux cs false (cur ++ ws ++ [c]) []

def splitPipe (s : Str) : List Str := splitPipeAux s false [] []

/-- The recursive call of the Python function (`if " | " in part`) is unreachable: a part of the
split contains no `|` (theorem `splitPipe_no_pipe` in Proofs/Types). -/
def removeNoneB (s : Str) : Str :=
  if containsSub sPipe s then
    match (splitPipe s).filter (· ≠ sNone) with
    | [] => sNone
    | parts => joinSep sPipe parts
  else s

/-! ### `_remove_none_from_union`, `Union[...]` spelling -/

/-- the character loop: raw segments between the commas seen at bracket depth 0; the last
element is what is left in `current_part` after the loop -/
def splitTopAux : Str → Int → Str → List Str
  | [], _, cur => [cur]
  | c :: cs, d, cur =>
    if c = '[' then splitTopAux cs (d + 1) (cur ++ [c])
    else if c = ']' then splitTopAux cs (d - 1) (cur ++ [c])
    else if c = ',' ∧ d = 0 then cur :: splitTopAux cs d []
    else splitTopAux cs d (cur ++ [c])

/-- one segment → zero or one part (`rec` = the recursive call on nested unions) -/
def procPart (rec : Str → Str) (p : Str) : List Str :=
  if p = sNone then [] else [if startsWith sUnionPrefix p then rec p else p]

def procSegs (rec : Str → Str) : List Str → List Str
  | [] => []
  | [last] => if last = [] then [] else procPart rec (strip last)
  | seg :: rest => procPart rec (strip seg) ++ procSegs rec rest

/-- fuel-indexed; `removeNoneU` supplies `s.length`, which suffices
(`removeNoneUF_fuel` in Proofs/Types): every recursive call is on a strictly shorter string -/
def removeNoneUF : Nat → Str → Str
  | 0, s => s
  | n + 1, s =>
    if startsWith sUnionPrefix s then
      match procSegs (removeNoneUF n) (splitTopAux ((s.drop 6).dropLast) 0 []) with
      | [] => sNone
      | [p] => p
      | parts => sUnionPrefix ++ joinSep sComma parts ++ [']']
    else s

def removeNoneU (s : Str) : Str := removeNoneUF s.length s

/-- `_remove_none_from_union(type_, use_union_operator=…)` -/
def removeNone (unionOp : Bool) (s : Str) : Str :=
  if unionOp then removeNoneB s else removeNoneU s

/-- `get_optional_type` -/
def getOptionalType (unionOp : Bool) (s : Str) : Str :=
  let t := removeNone unionOp s
  if t = [] ∨ t = sNone then sNone
  else if unionOp then t ++ sPipe ++ sNone
  else sOptionalPrefix ++ t ++ [']']

/-! ### The type tree -/

/-- `Import(from_, import_, alias, reference_path)` -/
structure Imp where
  from_ : Option Str
  name : Str
  alias : Option Str := none
  refPath : Option Str := none
  deriving DecidableEq, Repr, Inhabited

/-- what `type_hint` reads of `DataType.reference`: `short_name`, and whether
`reference.source` is `Nullable` with `nullable == True` -/
structure Ref where
  shortName : Str
  nullable : Bool := false
  deriving DecidableEq, Repr, Inhabited

structure Attrs where
  /-- `DataType.type`; `[]` stands for `None`/`""` (both falsy) -/
  ty : Str := []
  ref : Option Ref := none
  isOptional : Bool := false
  isDict : Bool := false
  isList : Bool := false
  isSet : Bool := false
  isCustom : Bool := false
  /-- `repr` of each member of `DataType.literals` -/
  literals : List Str := []
  imp : Option Imp := none
  deriving DecidableEq, Repr, Inhabited

/-- `use_union_operator`, `use_standard_collections`, `use_generic_container` -/
structure Opts where
  unionOp : Bool := false
  stdColl : Bool := false
  genericCont : Bool := false
  deriving DecidableEq, Repr, Inhabited

/-- `DataType`: attributes, `dict_key`, `data_types` -/
inductive DT where
  | mk (a : Attrs) (key : Option DT) (kids : List DT)
  deriving Inhabited

def DT.attrs : DT → Attrs
  | .mk a _ _ => a
def DT.key : DT → Option DT
  | .mk _ k _ => k
def DT.kids : DT → List DT
  | .mk _ _ ks => ks

/-! ### `DataType.__init__` -/

def isOptAny (t : DT) : Bool := t.attrs.ty == sAny && t.attrs.isOptional

/-- optional `Any` members of a union are dropped and make the union optional,
when some member is not `Any` -/
def initNode (a : Attrs) (key : Option DT) (kids : List DT) : DT :=
  if kids.any isOptAny && kids.any (fun t => t.attrs.ty != sAny) then
    .mk { a with isOptional := true } key (kids.filter (fun t => !isOptAny t))
  else .mk a key kids

mutual
/-- build bottom-up through the constructor, as Python does -/
def DT.init : DT → DT
  | .mk a key kids => initNode a (DT.initO key) (DT.initL kids)
def DT.initO : Option DT → Option DT
  | none => none
  | some k => some (DT.init k)
def DT.initL : List DT → List DT
  | [] => []
  | t :: ts => DT.init t :: DT.initL ts
end

/-! ### `DataType.type_hint` -/

/-- the `for data_type in self.data_types` loop of the union branch;
state = (`data_types` so far, `self.is_optional`) -/
def unionLoop (unionOp : Bool) : List Str → List Str → Bool → List Str × Bool
  | [], acc, opt => (acc, opt)
  | h :: hs, acc, opt =>
    if acc.contains h then unionLoop unionOp hs acc opt
    else if h = sNone then unionLoop unionOp hs acc true
    else
      let h' := removeNone unionOp h
      unionLoop unionOp hs (acc ++ [h']) (opt || h' != h)

def listName (o : Opts) : Str := if o.genericCont then sSequence else if o.stdColl then sStdList else sList
def setName (o : Opts) : Str := if o.genericCont then sFrozenSet else if o.stdColl then sStdSet else sSet
def dictName (o : Opts) : Str := if o.genericCont then sMapping else if o.stdColl then sStdDict else sDict

/-- `f"{name}[{inner}]" if inner else name` -/
def wrap1 (name inner : Str) : Str := if inner = [] then name else name ++ ['['] ++ inner ++ [']']

/-- the `if not type_:` part of `type_hint`: the text before any container is put around it, and
`self.is_optional` as the union loop leaves it -/
def baseOf (o : Opts) (a : Attrs) (kidHints : List Str) : Str × Bool :=
  if a.ty ≠ [] then (a.ty, a.isOptional)
  else
    match kidHints with
    | _ :: _ :: _ =>
      let r := unionLoop o.unionOp kidHints [] a.isOptional
      match r.1 with
      | [d] => (d, r.2)
      | dts => (if o.unionOp then joinSep sPipe dts else sUnionPrefix ++ joinSep sComma dts ++ [']'], r.2)
    | [h] => (h, a.isOptional)
    | [] =>
      if a.literals ≠ [] then (sLiteralPrefix ++ joinSep sComma a.literals ++ [']'], a.isOptional)
      else match a.ref with
        | some r => (r.shortName, a.isOptional)
        | none => ([], a.isOptional)

/-- the `if self.is_list: … elif self.is_set: … elif self.is_dict: …` part -/
def containerOf (o : Opts) (a : Attrs) (keyHint : Option Str) (b : Str) : Str :=
  if a.isList then wrap1 (listName o) b
  else if a.isSet then wrap1 (setName o) b
  else if a.isDict then
    (if keyHint.isSome ∨ b ≠ [] then
      dictName o ++ ['['] ++ keyHint.getD sStr ++ sComma ++ (if b = [] then sAny else b) ++ [']']
    else dictName o)
  else b

/-- `reference.source.nullable` makes the type optional -/
def refNullable (a : Attrs) : Bool := match a.ref with | some r => r.nullable | none => false

/-- the end of `type_hint`: `if self.is_optional and type_ != ANY: return get_optional_type(…)` -/
def finishOf (unionOp : Bool) (ty : Str) (opt : Bool) : Str × Bool :=
  if opt ∧ ty ≠ sAny then (getOptionalType unionOp ty, opt) else (ty, opt)

/-- everything `type_hint` does at one node, given the hints of `dict_key` and `data_types` -/
def hintNode (o : Opts) (a : Attrs) (keyHint : Option Str) (kidHints : List Str) : Str × Bool :=
  let base := baseOf o a kidHints
  finishOf o.unionOp (containerOf o a keyHint base.1) (base.2 || refNullable a)

mutual
/-- `DataType.type_hint`: the hint, and `is_optional` as the call leaves it -/
def typeHint (o : Opts) : DT → Str × Bool
  | .mk a key kids => hintNode o a (typeHintO o key) (typeHintL o kids)
def typeHintO (o : Opts) : Option DT → Option Str
  | none => none
  | some k => some (typeHint o k).1
def typeHintL (o : Opts) : List DT → List Str
  | [] => []
  | t :: ts => (typeHint o t).1 :: typeHintL o ts
end

/-! ### `DataModelFieldBase.type_hint` -/

structure FieldBits where
  hasDefaultFactory : Bool := false
  /-- `nullable: Optional[bool]` -/
  nullable : Option Bool := none
  required : Bool := false
  /-- truthiness of `type_has_null` -/
  typeHasNull : Bool := false
  /-- `fall_back_to_nullable` (a property; `False` for not-required TypedDict members) -/
  fallBack : Bool := true
  deriving DecidableEq, Repr, Inhabited

/-- the five-way decision on top of the type's own hint -/
def fieldDecide (unionOp : Bool) (fb : FieldBits) (hint : Str) (optAfter : Bool) (ty : Str) : Str :=
  if hint = [] then sNone
  else if fb.hasDefaultFactory ∨ (optAfter ∧ ty ≠ sAny) then hint
  else match fb.nullable with
    | some true => getOptionalType unionOp hint
    | some false => hint
    | none =>
      if fb.required then (if fb.typeHasNull then getOptionalType unionOp hint else hint)
      else if fb.fallBack then getOptionalType unionOp hint
      else hint

def fieldTypeHint (o : Opts) (fb : FieldBits) (t : DT) : Str :=
  let r := typeHint o t
  fieldDecide o.unionOp fb r.1 r.2 t.attrs.ty

end Dcg.Model.Types
