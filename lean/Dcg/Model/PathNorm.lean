/-
Dcg.Model.PathNorm — what a PATH-VALUED option's text becomes
(`__main__.py`: `Config.validate_path`, and the part of `Config.validate_file` before `.open`):

    if value is None or isinstance(value, Path): return value          -- untouched
    return Path(value).expanduser().resolve()                          -- a string

on a POSIX system, for a tree without symbolic links (the check's scratch trees), HOME an absolute path:

  comps s          = the parts `pathlib` keeps of a text: split at '/', empty parts and "." dropped
  expanduser       = only when the path is relative and its FIRST KEPT part begins with '~':
                     exactly "~" → the parts of HOME followed by the rest; "~name" with no such user →
                     RuntimeError (`none`; names of existing accounts are outside the model)
  resolve          = `os.path.realpath(…, strict=False)`: a relative path is joined to the working
                     directory, then the parts are walked with a stack, ".." pops (and stays at the root)
  render           = "/" followed by the parts joined with "/"

`Seen` is what the validator is handed: the string itself (pyproject.toml always; the command line when the
argparse `type=` is None/str) or an already built `Path` (argparse `type=Path`, a `generate()` caller).
Strings are `List Char`.
-/
namespace Dcg.Model.PathNorm

abbrev Str := List Char

/-- `s.split("/")` -/
def splitSlash : Str → List Str
  | [] => [[]]
  | c :: cs =>
    if c = '/' then [] :: splitSlash cs
    else match splitSlash cs with
      | [] => [[c]]
      | h :: t => (c :: h) :: t

def keep (c : Str) : Bool := !(c == [] || c == ['.'])

/-- the parts `pathlib` keeps -/
def comps (s : Str) : List Str := (splitSlash s).filter keep

def isAbs (s : Str) : Bool := s.head? == some '/'

def dotdot : Str := ['.', '.']

/-- `realpath` without symbolic links: the stack holds the parts walked so far, innermost first -/
def walk (stack : List Str) : List Str → List Str
  | [] => stack
  | c :: cs => if c = dotdot then walk stack.tail cs else walk (c :: stack) cs

/-- lexical resolution of a list of parts from the root: the parts of the result, outermost first -/
def resolveParts (cs : List Str) : List Str := (walk [] cs).reverse

/-- the parts (from the root) a string names; `none` = `RuntimeError("Could not determine home directory.")` -/
def normaliseParts (home cwd : List Str) (value : Str) : Option (List Str) :=
  let t := comps value
  if isAbs value then some (resolveParts t)
  else match t with
    | [] => some (resolveParts cwd)
    | c :: rest =>
      if c = ['~'] then some (resolveParts (home ++ rest))
      else if c.head? = some '~' then none
      else some (resolveParts (cwd ++ t))

def joinSlash : List Str → Str
  | [] => []
  | [c] => c
  | c :: d :: cs => c ++ '/' :: joinSlash (d :: cs)

def render (parts : List Str) : Str := '/' :: joinSlash parts

/-- `str(Path(value).expanduser().resolve())` with HOME = `home`, working directory = `cwd` (both absolute) -/
def normalise (home cwd value : Str) : Option Str :=
  (normaliseParts (comps home) (comps cwd) value).map render

/-- what the validator is handed -/
inductive Seen where
  | str (s : Str)
  | path (s : Str)   -- a `Path` built from the text `s`
  deriving Repr, DecidableEq

/-- the argparse `type=` of an option -/
inductive ArgType where
  | none | str | path
  deriving Repr, DecidableEq

/-- what `merge_args` finds in the namespace for `--opt value` -/
def cliSees : ArgType → Str → Seen
  | .none, v => .str v
  | .str, v => .str v
  | .path, v => .path v

/-- `str(Path(v))`: the kept parts joined, nothing expanded, `..` kept (a `//` root is written `/` here) -/
def pathText (v : Str) : Str :=
  if isAbs v then render (comps v) else if comps v = [] then ['.'] else joinSlash (comps v)

/-- `Config.validate_path` (text of the result): a `Path` instance is returned untouched -/
def validatePath (home cwd : Str) : Seen → Option Str
  | .str v => normalise home cwd v
  | .path v => some (pathText v)

end Dcg.Model.PathNorm
