/-!
`Parser.__apply_discriminator_type` (parser/base.py) on ONE variant class, as a function over
(the discriminator's `propertyName` as it is NOW, the members of the variant), applied n times (C07).

The pass sanitises `propertyName` (`get_valid_field_name_and_alias`, here the parameter `san`), REWRITES
`discriminator['propertyName']` to the identifier, walks the members of every variant: a member is taken for the tag when
`field_name in {original_name, name}`; a hit that already is the one-literal member ends the walk (`break`), any other hit
is retyped `Literal[...]`; when nothing was hit a new member (name = identifier, alias = what `san` returned, no
original name) is appended.  The same dict is visited again when a collapsed field shares the root model's extras.
-/
namespace Dcg.Model.DiscrVisit

structure Member where
  name : List Char
  orig : Option (List Char)
  alias : Option (List Char)
  lit : Bool
deriving DecidableEq, Repr

/-- `get_valid_field_name_and_alias(field_name=property_name)`: (identifier, alias) -/
abbrev San := List Char → List Char × Option (List Char)

/-- the key under which the member is read and written (`alias or name`) -/
def Member.wire (m : Member) : List Char := m.alias.getD m.name

/-- `field_name in {discriminator_field.original_name, discriminator_field.name}` (negated `continue`) -/
def hits (fn : List Char) (m : Member) : Bool := m.orig == some fn || m.name == fn

/-- the loop over `discriminator_model.fields`: (members afterwards, `has_one_literal`) -/
def mark (fn : List Char) : List Member → List Member × Bool
  | [] => ([], false)
  | m :: ms =>
    if hits fn m then
      if m.lit then (m :: ms, true)
      else ({ m with lit := true } :: (mark fn ms).1, true)
    else (m :: (mark fn ms).1, (mark fn ms).2)

/-- the member the pass creates for a variant that does not declare the tag -/
def created (san : San) (pn : List Char) : Member :=
  { name := (san pn).1, orig := none, alias := (san pn).2, lit := true }

/-- one visit: (`discriminator['propertyName']` afterwards, members afterwards) -/
def visit (san : San) (pn : List Char) (ms : List Member) : List Char × List Member :=
  ((san pn).1, if (mark (san pn).1 ms).2 then (mark (san pn).1 ms).1 else (mark (san pn).1 ms).1 ++ [created san pn])

/-- n visits of the same dict -/
def visits (san : San) : Nat → List Char → List Member → List Char × List Member
  | 0, pn, ms => (pn, ms)
  | n + 1, pn, ms => visits san n (visit san pn ms).1 (visit san pn ms).2

/-- all variants of the union share the dict -/
def visitsAll (san : San) (n : Nat) (pn : List Char) (vs : List (List Member)) : List (List Member) :=
  vs.map (fun ms => (visits san n pn ms).2)

/-! the lookup matched against WIRE names only (`original_name != property_name: continue`), the created member
recording `original_name = property_name` — not what the code does; kept to show why the identifier must be matched -/
def hitsWire (pn : List Char) (m : Member) : Bool := m.orig == some pn

def markWire (pn : List Char) : List Member → List Member × Bool
  | [] => ([], false)
  | m :: ms =>
    if hitsWire pn m then
      if m.lit then (m :: ms, true)
      else ({ m with lit := true } :: (markWire pn ms).1, true)
    else (m :: (markWire pn ms).1, (markWire pn ms).2)

def visitWire (san : San) (pn : List Char) (ms : List Member) : List Char × List Member :=
  ((san pn).1, if (markWire pn ms).2 then (markWire pn ms).1
    else (markWire pn ms).1 ++ [{ created san pn with orig := some pn }])

def visitsWire (san : San) : Nat → List Char → List Member → List Char × List Member
  | 0, pn, ms => (pn, ms)
  | n + 1, pn, ms => visitsWire san n (visitWire san pn ms).1 (visitWire san pn ms).2

end Dcg.Model.DiscrVisit
