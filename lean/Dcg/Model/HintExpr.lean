import Dcg.Model.Types
import Dcg.Sem.Typing
/-
Dcg.Model.HintExpr — the *structural* counterpart of `Model.Types`: the same algorithm as
`DataType.type_hint`, but building a typing expression (`Sem.Typing.TExpr`) and removing `None`
on the expression instead of on its text.  It is not a model of any function of the code; it is
the yardstick of property C13: theorem `typeHint_eq_print` (Proofs/Types) says the text the code
builds is the printed form of this expression whenever the atoms are plain (`wfTree`), and the
campaign `types.hintexpr` compares it with the real `DataType(...).type_hint` on every run.

The empty hint `""` is `atom []`.
-/
namespace Dcg.Model.HintExpr
open Dcg.Model.Types
open Dcg.Sem.Typing hiding Str sNone sComma sPipe

def isNoneE : TExpr → Bool
  | .atom s => s = sNone
  | _ => false

def mkUnionE : List TExpr → TExpr
  | [] => eNone
  | [p] => p
  | ps => .app sUnion ps

mutual
/-- `None` removed from a `Union[…]`, recursively through directly nested `Union[…]`
(what `_remove_none_from_union(…, use_union_operator=False)` is meant to do) -/
def rmU : TExpr → TExpr
  | .atom s => .atom s
  | .bor args => .bor args
  | .app h args => if h = sUnion then mkUnionE (rmUL args) else .app h args
def rmUL : List TExpr → List TExpr
  | [] => []
  | e :: es => if isNoneE e then rmUL es else rmU e :: rmUL es
end

def mkBorE : List TExpr → TExpr
  | [] => eNone
  | [p] => p
  | ps => .bor ps

/-- `None` removed from the alternatives of `a | b | …` -/
def rmB : TExpr → TExpr
  | .bor args => mkBorE (args.filter (fun e => !isNoneE e))
  | e => e

def rmE (unionOp : Bool) (e : TExpr) : TExpr := if unionOp then rmB e else rmU e

def borArgs : TExpr → List TExpr
  | .bor args => args
  | e => [e]

/-- `" | ".join(…)` of printed expressions is one flat `|` expression -/
def borFlat (es : List TExpr) : TExpr := mkBorE' (es.flatMap borArgs)
where mkBorE' : List TExpr → TExpr
  | [] => .atom []
  | [p] => p
  | ps => .bor ps

/-- `get_optional_type` on expressions -/
def getOptionalE (unionOp : Bool) (e : TExpr) : TExpr :=
  let t := rmE unionOp e
  if print t = [] ∨ print t = sNone then eNone
  else if unionOp then borFlat [t, eNone]
  else .app sOptional [t]

/-- the union loop of `type_hint` on expressions; membership and change tests are on the printed
text, as in the code -/
def unionLoopE (unionOp : Bool) : List TExpr → List TExpr → Bool → List TExpr × Bool
  | [], acc, opt => (acc, opt)
  | h :: hs, acc, opt =>
    if (acc.map print).contains (print h) then unionLoopE unionOp hs acc opt
    else if print h = sNone then unionLoopE unionOp hs acc true
    else
      let h' := rmE unionOp h
      unionLoopE unionOp hs (acc ++ [h']) (opt || print h' != print h)

def wrap1E (name : Str) (inner : TExpr) : TExpr :=
  if print inner = [] then .atom name else .app name [inner]

def baseE (o : Opts) (a : Attrs) (kidEs : List TExpr) : TExpr × Bool :=
  if a.ty ≠ [] then (.atom a.ty, a.isOptional)
  else
    match kidEs with
    | _ :: _ :: _ =>
      let r := unionLoopE o.unionOp kidEs [] a.isOptional
      match r.1 with
      | [d] => (d, r.2)
      | ds => (if o.unionOp then borFlat ds else .app sUnion ds, r.2)
    | [h] => (h, a.isOptional)
    | [] =>
      if a.literals ≠ [] then (.app sLiteral (a.literals.map .atom), a.isOptional)
      else match a.ref with
        | some r => (.atom r.shortName, a.isOptional)
        | none => (.atom [], a.isOptional)

def containerE (o : Opts) (a : Attrs) (keyE : Option TExpr) (b : TExpr) : TExpr :=
  if a.isList then wrap1E (listName o) b
  else if a.isSet then wrap1E (setName o) b
  else if a.isDict then
    (if keyE.isSome ∨ print b ≠ [] then
      .app (dictName o) [keyE.getD (.atom sStr), if print b = [] then .atom sAny else b]
    else .atom (dictName o))
  else b

def finishE (unionOp : Bool) (ty : TExpr) (opt : Bool) : TExpr × Bool :=
  if opt ∧ print ty ≠ sAny then (getOptionalE unionOp ty, opt) else (ty, opt)

def hintNodeE (o : Opts) (a : Attrs) (keyE : Option TExpr) (kidEs : List TExpr) : TExpr × Bool :=
  let base := baseE o a kidEs
  finishE o.unionOp (containerE o a keyE base.1) (base.2 || refNullable a)

mutual
def hintE (o : Opts) : DT → TExpr × Bool
  | .mk a key kids => hintNodeE o a (hintEO o key) (hintEL o kids)
def hintEO (o : Opts) : Option DT → Option TExpr
  | none => none
  | some k => some (hintE o k).1
def hintEL (o : Opts) : List DT → List TExpr
  | [] => []
  | t :: ts => (hintE o t).1 :: hintEL o ts
end

/-! ### The decidable side condition of the `_partial` theorems -/

/-- characters the string surgery gives a meaning to -/
def special (c : Char) : Bool := c = '[' || c = ']' || c = ',' || c = '|'

/-- a type name / reference name: non-empty, no special character, no white space -/
def plainName (s : Str) : Bool := !s.isEmpty && s.all (fun c => !special c && !isSpace c)

/-- a `repr` token inside `Literal[…]`: no special character; blanks only inside -/
def plainToken (s : Str) : Bool :=
  !s.isEmpty && s.all (fun c => !special c) && s.head?.all (fun c => !isSpace c) &&
  s.getLast?.all (fun c => !isSpace c)

/-- what one node contributes: every name it writes is plain, and it writes something -/
def wfAttrs (a : Attrs) (nKids : Nat) : Bool :=
  (a.ty.isEmpty || plainName a.ty) &&
  (match a.ref with | some r => plainName r.shortName | none => true) &&
  a.literals.all plainToken &&
  (!a.ty.isEmpty || nKids > 0 || !a.literals.isEmpty || a.ref.isSome)

mutual
/-- `AtomsPlain`: no name or literal of the tree contains `[ ] , |` (or white space at its ends),
and no node is empty -/
def wfTree : DT → Bool
  | .mk a key kids => wfAttrs a kids.length && wfTreeO key && wfTreeL kids
def wfTreeO : Option DT → Bool
  | none => true
  | some k => wfTree k
def wfTreeL : List DT → Bool
  | [] => true
  | t :: ts => wfTree t && wfTreeL ts
end

/-- brackets are balanced: depth never negative, zero at the end -/
def balancedFrom : Nat → Str → Bool
  | d, [] => d == 0
  | d, c :: cs =>
    if c = '[' then balancedFrom (d + 1) cs
    else if c = ']' then (match d with | 0 => false | d' + 1 => balancedFrom d' cs)
    else balancedFrom d cs

def balanced (s : Str) : Bool := balancedFrom 0 s

end Dcg.Model.HintExpr
