import Dcg.Model.Modules
/-
Dcg.Model.ModulesNorm — the parts of the module → file map that only show on INPUT FILE TREES
(module paths that carry directory names and file stems), and the renaming of a class inside its module:

* `normHyphen`, `writtenKey`, `resultsRaw`, `rekey`, `resultsHyphen`, `flattenDots`, `resultsFinal` —
  the keys of the dict `Parser.parse()` returns: a plain module is written under a key whose parts
  already had `"-"` replaced by `"_"`, a package file (`__init__.py`) and the parent placeholders under
  the RAW module path, and one final pass normalises every part of every key; then the dots of every
  part but the last one become `"_"` (without `--treat-dot-as-module`), or
  `__postprocess_result_modules` runs (with it).
* `className`, `setClassName` — `DataModel.class_name` (getter / setter): the setter keeps the dotted
  prefix of the NAME (`name.rsplit(".", 1)[0]`), it does not rebuild it from the module name (which,
  for a model read from a file, also holds the directory and the file stem).

Agreement with the code is tested by the campaigns of `vlib/props/c12.py` (real `DataModel` objects with
`file_path` set; the real `Parser.__replace_duplicate_name_in_module`; the files `generate()` writes
for input file trees).
-/
namespace Dcg.Model.Modules
open Dcg.Py.Import

/-! ### `"-"` → `"_"` in the parts of a result key -/

/-- `part.replace("-", "_")` -/
def normHyphen (s : Name) : Name := s.map (fun c => if c = '-' then '_' else c)

def FileKey.normHyphen : FileKey → FileKey
  | .init d => .init (d.map Dcg.Model.Modules.normHyphen)
  | .py d s => .py (d.map Dcg.Model.Modules.normHyphen) (Dcg.Model.Modules.normHyphen s)

def hyphenFreeName (s : Name) : Bool := s.all (fun c => c != '-')

/-- no part of the key (directory names, file stem) contains `"-"` -/
def FileKey.hyphenFree : FileKey → Bool
  | .init d => d.all hyphenFreeName
  | .py d s => d.all hyphenFreeName && hyphenFreeName s

/-- The key under which the last loop of `parse()` stores the body of a processed module:
`(*module_, "__init__.py")` — raw — for a module that was decided to be a package,
`tuple(part.replace("-", "_") for part in (*module_[:-1], f"{module_[-1]}.py"))` for a plain module. -/
def writtenKey (a : Assigned) : FileKey :=
  match a.key with
  | .py d s => .py (d.map normHyphen) (normHyphen s)
  | .init d => .init d

/-- what is stored: the module's own models, or nothing (gap fillers, emptied modules) -/
def bodyOf (a : Assigned) : Option MPath := if a.hasModels then some a.mod else none

/-- `if not result and not init: continue` -/
def Assigned.written (a : Assigned) : Bool := a.hasModels || a.init

/-- the last loop of `parse()`, with the keys as they are at that point -/
def renderLoopW (fm : FileMap) : List Assigned → FileMap
  | [] => fm
  | a :: as => if a.written then renderLoopW (upsert fm (writtenKey a) (bodyOf a)) as else renderLoopW fm as

/-- the dict `results` before the final passes: raw parent placeholders, then the bodies -/
def resultsRaw (mods : List MPath) : FileMap :=
  renderLoopW ((parentsAfter [] (procOrder mods)).map (·, none)) (assign [] (procOrder mods))

/-- `{f(k): v for k, v in results.items()}`: a later entry overwrites the value of an earlier one that
falls on the same new key -/
def rekey (f : FileKey → FileKey) (fm : FileMap) : FileMap :=
  fm.foldl (fun acc e => upsert acc (f e.1) e.2) []

/-- `results = {tuple(i.replace("-", "_") for i in k): v for k, v in results.items()}` -/
def resultsHyphen (mods : List MPath) : FileMap := rekey FileKey.normHyphen (resultsRaw mods)


/-- decidable side condition: every processed module that stores something under the key of `a` stores
what `a` stores (no other module is written to the same file) -/
def soleWriter (mods : List MPath) (a : Assigned) : Bool :=
  (assign [] (procOrder mods)).all (fun b => !(b.written && writtenKey b == writtenKey a) || bodyOf b == bodyOf a)

/-- decidable side condition: no other key of the dict falls on the normalised key of `a`
(it fails for directory names that differ only in `"-"` / `"_"`, e.g. `my-api/` beside `my_api/`) -/
def solePath (mods : List MPath) (a : Assigned) : Bool :=
  (keys (resultsRaw mods)).all (fun k => !(k.normHyphen == (writtenKey a).normHyphen) || k == writtenKey a)

/-- `s.replace(".", "_")` -/
def dotsToUnderscore (s : Name) : Name := s.map (fun c => if c = '.' then '_' else c)

/-- `part[: part.rfind(".")].replace(".", "_") + part[part.rfind(".") :]` — every dot but the last one
(a part without a dot is left alone: `rfind` gives -1 and the two slices are `part[:-1]`, `part[-1:]`) -/
def dotsButLast (s : Name) : Name :=
  match (splitDot s).reverse with
  | [] => s
  | [_] => s
  | last :: before => dotsToUnderscore (joinDot before.reverse) ++ '.' :: last

/-- the pass applied without `--treat-dot-as-module`; the last part of a key is `stem.py` / `__init__.py`,
whose last dot is the one of the extension -/
def FileKey.flattenDots : FileKey → FileKey
  | .init d => .init (d.map dotsButLast)
  | .py d s => .py (d.map dotsButLast) (dotsToUnderscore s)

/-- the dict `parse()` returns for a multi-module output. With `--treat-dot-as-module` the model covers
parts without dots (`process` of `__postprocess_result_modules` splits dotted parts; the harness keeps
those cases out of the comparison). -/
def resultsFinal (treatDot : Bool) (mods : List MPath) : FileMap :=
  if treatDot then postTreatDot (resultsHyphen mods) else rekey FileKey.flattenDots (resultsHyphen mods)

/-! ### `DataModel.class_name` -/

/-- `_get_class_name(name)`: `name.rsplit(".", 1)[-1]` -/
def className (name : List Char) : List Char := (splitDot name).getLast?.getD []

/-- the setter: `f"{name.rsplit('.', 1)[0]}.{class_name}"` when the name has a dot, else `class_name` -/
def setClassName (name cls : List Char) : List Char :=
  if '.' ∈ name then joinDot (splitDot name).dropLast ++ '.' :: cls else cls

/-- `Parser.__replace_duplicate_name_in_module`, as far as C12 is concerned: every model of the module
keeps or changes its class name (`none` = kept; which ones change and to what is the scoped resolver's
business, property C06), always through the setter -/
def renameAll : List (List Char × Option (List Char)) → List (List Char)
  | [] => []
  | (name, none) :: rest => name :: renameAll rest
  | (name, some cls) :: rest => setClassName name cls :: renameAll rest

end Dcg.Model.Modules
