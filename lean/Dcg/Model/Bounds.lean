import Dcg.Gen.Formats
/-
Dcg.Model.Bounds — two small pieces of `parser/jsonschema.py` that decide whether equivalent
spellings of a schema reach the rest of the generator as the same thing.

* `normalise`      `JsonSchemaObject.validate_exclusive_maximum_and_exclusive_minimum` (a `before`
                   validator on the raw keyword dict): draft-4 boolean `exclusiveMaximum/Minimum`
                   are rewritten into the draft-6 numeric form
* `walkContainers` the loop over `SCHEMA_PATHS` in `_parse_file`: EVERY container of named schemas
                   that is present is walked, in `SCHEMA_PATHS` order, each entry under the path of
                   its own container
* `walkNamed` / `walkDoc`  what the walk does with the entries (every one is handed to `parse_raw_obj`)
-/
namespace Dcg.Model.Bounds

/-- value of an `exclusive*` keyword: a JSON boolean (draft 4) or a number (draft 6+) -/
inductive Excl (α : Type) where
  | flag (b : Bool)
  | num (x : α)
  deriving Repr, DecidableEq

/-- the four keywords of the raw dict; `none` = key absent -/
structure Rec (α : Type) where
  minimum : Option α := none
  maximum : Option α := none
  exclusiveMinimum : Option (Excl α) := none
  exclusiveMaximum : Option (Excl α) := none
  deriving Repr, DecidableEq

variable {α : Type}

/-- `if exclusive_maximum is True: values[E] = values[I]; del values[I]  elif … is False: del values[E]`;
`none` = the `KeyError` raised when the inclusive keyword is missing -/
def stepMax (r : Rec α) : Option (Rec α) :=
  match r.exclusiveMaximum with
  | some (.flag true) => match r.maximum with
    | some x => some { r with exclusiveMaximum := some (.num x), maximum := none }
    | none => none
  | some (.flag false) => some { r with exclusiveMaximum := none }
  | _ => some r

def stepMin (r : Rec α) : Option (Rec α) :=
  match r.exclusiveMinimum with
  | some (.flag true) => match r.minimum with
    | some x => some { r with exclusiveMinimum := some (.num x), minimum := none }
    | none => none
  | some (.flag false) => some { r with exclusiveMinimum := none }
  | _ => some r

/-- the validator: maximum side first, then minimum side -/
def normalise (r : Rec α) : Option (Rec α) := (stepMax r).bind stepMin

/-- one side of an interval: the bound and whether it is strict -/
abbrev Side (α : Type) := Option (α × Bool)

/-- draft-4 spelling: `minimum: x` plus `exclusiveMinimum: true` when strict; when not strict the
flag is left out or written `false` (`writeFalse`) -/
def draft4 (lo hi : Side α) (writeFalse : Bool) : Rec α :=
  { minimum := lo.map (·.1),
    maximum := hi.map (·.1),
    exclusiveMinimum := lo.bind (fun s => if s.2 then some (.flag true) else if writeFalse then some (.flag false) else none),
    exclusiveMaximum := hi.bind (fun s => if s.2 then some (.flag true) else if writeFalse then some (.flag false) else none) }

/-- draft-6 spelling: `exclusiveMinimum: x` when strict, `minimum: x` otherwise -/
def draft6 (lo hi : Side α) : Rec α :=
  { minimum := lo.bind (fun s => if s.2 then none else some s.1),
    maximum := hi.bind (fun s => if s.2 then none else some s.1),
    exclusiveMinimum := lo.bind (fun s => if s.2 then some (.num s.1) else none),
    exclusiveMaximum := hi.bind (fun s => if s.2 then some (.num s.1) else none) }

/-- `definitions = []; for schema_path, split in self.schema_paths: found = get_model_by_path(raw, split);
if found: definitions.extend((schema_path, key, model) for key, model in found.items())` — the list of
`(schema_path, entry)` that the two later loops (`parse_id`, then `parse_raw_obj` under the path
`[*path_parts, schema_path, key]`) run over. `containers` are the root keys of the document that hold named
schemas, with their entries in document order (a missing key and an empty container behave alike:
`schema.get(key, {})` is falsy and contributes nothing); `paths` is `schema_paths`: the pointer of a container
(`#/definitions`) and the root key it is looked up under (`definitions`). -/
def walkContainers {β : Type} (containers : List (String × List β)) : List (String × String) → List (String × β)
  | [] => []
  | (path, key) :: ps =>
    (match containers.lookup key with
      | some es => es.map (fun e => (path, e))
      | none => []) ++ walkContainers containers ps

/-- `JsonSchemaParser.schema_paths` from the generated tables: `(s, s.lstrip("#/").split("/"))` for every `s` of
`SCHEMA_PATHS`, in order; the containers of JSON Schema sit directly below the document root (one key) -/
def containerPaths : List (String × String) :=
  (Dcg.Gen.Formats.jsonSchemaPaths.zip Dcg.Gen.Formats.jsonSchemaPathsSplit).filterMap
    (fun p => match p.2 with | [k] => some (p.1, k) | _ => none)

/-- what the body of a named schema looks like to the walk (nothing else about it matters there) -/
inductive Body where
  | empty        -- `{}`: the "accept anything" schema
  | keywordsOnly -- a mapping without `type`/`properties` (`{description: …}`, `{title: …}`, `{nullable: true}`)
  | typed        -- anything with a type / properties / items
  | notAMapping  -- `true`, `false`, `null`: refused by `JsonSchemaObject.parse_obj`
  deriving Repr, DecidableEq

/-- the walk over the entries of the chosen container (`for obj_name, raw_obj in definitions.items():
self.parse_raw_obj(obj_name, raw_obj, …)`, and the same loop over `components.schemas` in `OpenAPIParser.parse_raw`):
every entry is handed to `parse_raw_obj`, WHATEVER its body is — in particular an empty mapping is a schema like any
other; a body that is not a mapping aborts the run. Result: the names that become top-level definitions, in order. -/
def walkNamed (entries : List (String × Body)) : Option (List String) :=
  if entries.any (fun e => e.2 == .notAMapping) then none else some (entries.map (·.1))

/-- the whole walk of a JSON-Schema document: the entries of all its containers (`walkContainers`), every one handed
to `parse_raw_obj` under `[schema_path, key]`. Result: the registry paths `(schema_path, key)` that become top-level
definitions, in order — the SAME key in two containers is two entries under two different paths, parsed separately
(two `Reference`s; `ModelResolver.add(…, unique=True)` gives the second class the suffixed name `X1`, see C06
`names_distinct_after_unique_adds`; only `Parser.__delete_duplicate_models` may merge them afterwards, and only when
their content is identical, C06 `dedupe_only_identical`). `none` = a body that is not a mapping, in whichever container:
the first loop (`SCHEMA_OBJECT_TYPE.parse_obj(model)` for every entry of every container) aborts the run. -/
def walkDoc (containers : List (String × List (String × Body))) (paths : List (String × String)) :
    Option (List (String × String)) :=
  let ws := walkContainers containers paths
  if ws.any (fun w => w.2.2 == .notAMapping) then none else some (ws.map (fun w => (w.1, w.2.1)))

end Dcg.Model.Bounds
