import Dcg.Gen.Formats
/-
Dcg.Model.Bounds — two small pieces of `parser/jsonschema.py` that decide whether equivalent
spellings of a schema reach the rest of the generator as the same thing.

* `normalise`      `JsonSchemaObject.validate_exclusive_maximum_and_exclusive_minimum` (a `before`
                   validator on the raw keyword dict): draft-4 boolean `exclusiveMaximum/Minimum`
                   are rewritten into the draft-6 numeric form
* `pickContainer`  the loop over `SCHEMA_PATHS` in `_parse_file`: the first container of named
                   schemas that is present and non-empty is the one that is walked
-/
namespace Dcg.Model.Bounds

/-- value of an `exclusive*` keyword: a JSON boolean (draft 4) or a number (draft 6+) -/
inductive Excl (α : Type) where
  | flag (b : Bool)
  | num (x : α)
  deriving Repr, DecidableEq

/-- the four keywords of the raw dict; `none` = key absent -/
structure Rec (α : Type) where
  minimum : Option α := none
  maximum : Option α := none
  exclusiveMinimum : Option (Excl α) := none
  exclusiveMaximum : Option (Excl α) := none
  deriving Repr, DecidableEq

variable {α : Type}

/-- `if exclusive_maximum is True: values[E] = values[I]; del values[I]  elif … is False: del values[E]`;
`none` = the `KeyError` raised when the inclusive keyword is missing -/
def stepMax (r : Rec α) : Option (Rec α) :=
  match r.exclusiveMaximum with
  | some (.flag true) => match r.maximum with
    | some x => some { r with exclusiveMaximum := some (.num x), maximum := none }
    | none => none
  | some (.flag false) => some { r with exclusiveMaximum := none }
  | _ => some r

def stepMin (r : Rec α) : Option (Rec α) :=
  match r.exclusiveMinimum with
  | some (.flag true) => match r.minimum with
    | some x => some { r with exclusiveMinimum := some (.num x), minimum := none }
    | none => none
  | some (.flag false) => some { r with exclusiveMinimum := none }
  | _ => some r

/-- the validator: maximum side first, then minimum side -/
def normalise (r : Rec α) : Option (Rec α) := (stepMax r).bind stepMin

/-- one side of an interval: the bound and whether it is strict -/
abbrev Side (α : Type) := Option (α × Bool)

/-- draft-4 spelling: `minimum: x` plus `exclusiveMinimum: true` when strict; when not strict the
flag is left out or written `false` (`writeFalse`) -/
def draft4 (lo hi : Side α) (writeFalse : Bool) : Rec α :=
  { minimum := lo.map (·.1),
    maximum := hi.map (·.1),
    exclusiveMinimum := lo.bind (fun s => if s.2 then some (.flag true) else if writeFalse then some (.flag false) else none),
    exclusiveMaximum := hi.bind (fun s => if s.2 then some (.flag true) else if writeFalse then some (.flag false) else none) }

/-- draft-6 spelling: `exclusiveMinimum: x` when strict, `minimum: x` otherwise -/
def draft6 (lo hi : Side α) : Rec α :=
  { minimum := lo.bind (fun s => if s.2 then none else some s.1),
    maximum := hi.bind (fun s => if s.2 then none else some s.1),
    exclusiveMinimum := lo.bind (fun s => if s.2 then some (.num s.1) else none),
    exclusiveMaximum := hi.bind (fun s => if s.2 then some (.num s.1) else none) }

/-- `for _schema_path, split in self.schema_paths: definitions = get_model_by_path(raw, split);
if definitions: break` — `containers` are the root keys that hold named schemas (a missing key and an
empty container behave alike: `schema.get(key, {})` is falsy). -/
def pickContainer {β : Type} (containers : List (String × List β)) : List String → List β
  | [] => []
  | p :: ps => match containers.lookup p with
    | some (e :: es) => e :: es
    | _ => pickContainer containers ps

/-- the root keys the JSON-Schema walk looks at, in order, from the generated `schema_paths` table -/
def containerKeys : List String :=
  Dcg.Gen.Formats.jsonSchemaPathsSplit.filterMap (fun p => match p with | [k] => some k | _ => none)

/-- what the body of a named schema looks like to the walk (nothing else about it matters there) -/
inductive Body where
  | empty        -- `{}`: the "accept anything" schema
  | keywordsOnly -- a mapping without `type`/`properties` (`{description: …}`, `{title: …}`, `{nullable: true}`)
  | typed        -- anything with a type / properties / items
  | notAMapping  -- `true`, `false`, `null`: refused by `JsonSchemaObject.parse_obj`
  deriving Repr, DecidableEq

/-- the walk over the entries of the chosen container (`for obj_name, raw_obj in definitions.items():
self.parse_raw_obj(obj_name, raw_obj, …)`, and the same loop over `components.schemas` in `OpenAPIParser.parse_raw`):
every entry is handed to `parse_raw_obj`, WHATEVER its body is — in particular an empty mapping is a schema like any
other; a body that is not a mapping aborts the run. Result: the names that become top-level definitions, in order. -/
def walkNamed (entries : List (String × Body)) : Option (List String) :=
  if entries.any (fun e => e.2 == .notAMapping) then none else some (entries.map (·.1))

end Dcg.Model.Bounds
