import Dcg.Model.Translate
/-
The COPY of an inherited member's data type (C03): `_copy_data_types` and the type part of
`Parser.__override_required_field` (parser/base.py).

An allOf child that names an INHERITED member only in its own `required` list gets a placeholder field
(`_parse_object_common_part`); the pass replaces it by `original_field.copy()` with `required = True` and a
copied data type:

    if original_field.data_type.reference:   data_type = self.data_type_manager.data_type(reference=…)
    elif original_field.data_type.data_types:
        data_type = original_field.data_type.copy()
        data_type.data_types = _copy_data_types(original_field.data_type.data_types)
    else:                                    data_type = original_field.data_type.copy()

    def _copy_data_types(data_types):
        for data_type_ in data_types:
            if data_type_.reference:    copied.append(data_type_.__class__(reference=data_type_.reference))
            elif data_type_.data_types: c = data_type_.copy(); c.data_types = _copy_data_types(…); copied.append(c)
            else:                       copied.append(data_type_.copy())

A `DataType` is a tree: a node carries its attributes (`type`, the flags `is_optional` / `is_list` / `is_set` /
`is_dict` / `is_func` / `is_custom_type` / `strict`, `kwargs`, `literals`, `dict_key`, and the remaining
spelling attributes) and its nested `data_types`. `copy()` is pydantic's shallow copy: every attribute is kept;
`parent` / `children` (back pointers) are not part of the model. A node built through the constructor with only
`reference=` carries the DEFAULTS of the data type class (`dflt` below: the `ContextDataType` of the data type
manager) for everything else.
-/
namespace Dcg.Model.CopyTypes
open Dcg.Sem Dcg.Model.Translate

/-- the attributes of one `DataType` node other than `reference` and `data_types`. Text-valued attributes are
carried as the canonical text the harness prints for them (`[]` = `None` / empty). -/
structure Attrs where
  type : Option (List Char) := none
  isOptional : Bool := false
  isList : Bool := false
  isSet : Bool := false
  isDict : Bool := false
  isFunc : Bool := false
  isCustom : Bool := false
  strict : Bool := false
  kwargs : List Char := []
  literals : List Char := []
  dictKey : List Char := []
  /-- `import_`, `alias`, `python_version`, `use_standard_collections`, `use_generic_container`,
  `use_union_operator`, `treat_dot_as_module` -/
  rest : List Char := []
  deriving DecidableEq, Repr, Inhabited

/-- a `DataType` tree -/
inductive DT where
  | node (ref : Option (List Char)) (a : Attrs) (kids : List DT)
  deriving Repr, Inhabited

mutual
/-- one iteration of the loop of `_copy_data_types` -/
def copyNode (dflt : Attrs) : DT → DT
  | .node (some r) _ _ => .node (some r) dflt []                       -- `__class__(reference=…)`
  | .node none a (k :: ks) => .node none a (copyList dflt (k :: ks))   -- `copy()` + copied `data_types`
  | .node none a [] => .node none a []                                 -- `copy()`
/-- `_copy_data_types` -/
def copyList (dflt : Attrs) : List DT → List DT
  | [] => []
  | t :: ts => copyNode dflt t :: copyList dflt ts
end

/-- the data type of the re-declared member (`__override_required_field`, the three branches) -/
def overrideType (dflt : Attrs) : DT → DT
  | .node (some r) _ _ => .node (some r) dflt []          -- `data_type_manager.data_type(reference=…)`
  | .node none a (k :: ks) => .node none a (copyList dflt (k :: ks))
  | .node none a [] => .node none a []

/-- a member as the pass holds it: the wire name, `required`, everything else of the field as one text
(constraints, default, alias, extras — `original_field.copy()` keeps them), and the data type -/
structure MField where
  name : List Char
  required : Bool
  other : List Char
  ty : DT

/-- `copied_original_field = original_field.copy(); …data_type = <copy>; …required = True` -/
def overrideField (dflt : Attrs) (f : MField) : MField :=
  { f with required := true, ty := overrideType dflt f.ty }

mutual
/-- every node that carries a reference carries nothing else: the attributes of the class defaults and no nested
types. (What the jsonschema parser builds: nullability / containers around a `$ref` are WRAPPER nodes.) -/
def plainRefs (dflt : Attrs) : DT → Bool
  | .node (some _) a ks => a == dflt && ks.isEmpty
  | .node none _ ks => plainRefsList dflt ks
def plainRefsList (dflt : Attrs) : List DT → Bool
  | [] => true
  | t :: ts => plainRefs dflt t && plainRefsList dflt ts
end

/-! ### the variant that REBUILDS a container node instead of copying it (not what the code does) -/

/-- what a constructor call handing over only the container attributes keeps -/
def Attrs.containerOnly (dflt a : Attrs) : Attrs :=
  { dflt with isList := a.isList, isSet := a.isSet, isDict := a.isDict, dictKey := a.dictKey }

mutual
def rebuildNode (dflt : Attrs) : DT → DT
  | .node (some r) _ _ => .node (some r) dflt []
  | .node none a (k :: ks) => .node none (Attrs.containerOnly dflt a) (rebuildList dflt (k :: ks))
  | .node none a [] => .node none a []
def rebuildList (dflt : Attrs) : List DT → List DT
  | [] => []
  | t :: ts => rebuildNode dflt t :: rebuildList dflt ts
end

def rebuildType (dflt : Attrs) : DT → DT
  | .node (some r) _ _ => .node (some r) dflt []
  | .node none a ks => .node none a (rebuildList dflt ks)

/-! ### what a data type tree means for validation (`DataType.type_hint` read as an IR type) -/

/-- the plain types the witnesses use; any other type name is `Any` (constraint `kwargs` are not interpreted:
the statements about `toTy` below follow from the EQUALITY of the trees and hold for every reading) -/
def leafTy (t : Option (List Char)) : Ty :=
  if t = some "str".toList then .scalar .string {}
  else if t = some "int".toList then .scalar .integer {}
  else if t = some "float".toList then .scalar .number {}
  else if t = some "bool".toList then .scalar .boolean {}
  else if t = some "None".toList then .null
  else .any

/-- `List[…]` / `Set[…]` / `Dict[str, …]` around the inner hint, then `Optional[…]` -/
def wrapTy (a : Attrs) (t : Ty) : Ty :=
  let c := if a.isList || a.isSet then Ty.list t else if a.isDict then Ty.dict t else t
  if a.isOptional then .opt c else c

def innerTy (a : Attrs) : List Ty → Ty
  | [] => leafTy a.type
  | [t] => t
  | ts => .union ts

mutual
def toTy : DT → Ty
  | .node (some r) a _ => wrapTy a (.ref r)
  | .node none a ks => wrapTy a (innerTy a (toTys ks))
def toTys : List DT → List Ty
  | [] => []
  | t :: ts => toTy t :: toTys ts
end

end Dcg.Model.CopyTypes
