import Dcg.Model.Resolver
/-!
Executable model of `Parser.__change_field_name` (parser/base.py), the pass that — for pydantic-v2 output —
renames a member whose Python name is the name of a class its OWN type refers to, keeping the old name as
alias (`Error: Optional[Error] = None` would make the default hide the class inside the class namespace:
the annotation is evaluated to `Optional[None]` and the member accepts nothing but null; C16: the sample the
classes were inferred from is then rejected).

For every member of every model the code builds a FRESH `ModelResolver(remove_suffix_number=True)`, puts
`reference.short_name` of every data type of the member (and every type string that names a class: GraphQL)
into its `exclude_names`, and takes `.add(["field"], member name).name`. That call is `Resolver.add` on the
initial registry (`remove_suffix_number` only makes `_get_unique_name` evaluate its loop condition once more on
the unchanged name: the candidates are `name, name, name_1, name_2, …` instead of `name, name_1, …`, the first
free one is the same). Nothing is carried from one member to the next: `pass` is a map.

`passShared` is the design the code does NOT have — one registry kept over the whole loop, only `exclude_names`
fresh per member (a resolver derived by a shallow copy). It is here to state what goes wrong with it
(`Props/C16.shared_registry_refuted`) and is never compared with the code.
-/
namespace Dcg.Model.MemberRename
open Dcg.Model.Resolver

/-- a member as the pass sees it -/
structure Member where
  /-- `field.name`, the Python name the earlier stages chose -/
  name : Str
  /-- the class names the member's own type refers to -/
  avoid : List Str
  deriving DecidableEq, Repr

/-- the scratch path every per-member resolver files the member under -/
def fieldPath : List Str := ["field".toList]

/-- name of the `Reference` an `add` returned -/
def outName : Out → Option Str
  | .ref e => some e.name
  | _ => none

/-- one member: `ModelResolver(…)` with `exclude_names = avoid`, then `.add(["field"], name).name`;
`none` = the unique-name loop ran out of fuel (never: `Props/C16.member_rename_total`) -/
def renameOne (cfg : Cfg) (m : Member) : Option Str :=
  outName (add cfg (State.init m.avoid) fieldPath m.name false false true none false).2

/-- the pass over the members of a module, in processing order -/
def pass (cfg : Cfg) (ms : List Member) : List (Option Str) := ms.map (renameOne cfg)

/-- the same loop with ONE registry for all members and only `exclude_names` reset per member -/
def passShared (cfg : Cfg) : State → List Member → List (Option Str)
  | _, [] => []
  | s, m :: ms =>
    let r := add cfg { s with excl := m.avoid } fieldPath m.name false false true none false
    outName r.2 :: passShared cfg r.1 ms

/-- what the templates then write: the member keeps its name, or gets the new one and the old one as alias -/
def aliasOf (old : Str) (new : Option Str) : Option Str :=
  match new with
  | some n => if n = old then none else some old
  | none => none

/-- the configuration of the per-member resolver in the ASCII region (no duplicate-name suffix; the singular-name
oracle is never asked) -/
def dflt : Cfg := defaultCfg [] [] []

end Dcg.Model.MemberRename
