/-
Model of `Parser.__collapse_root_models` (src/datamodel_code_generator/parser/base.py, as of /repo commit
a4c2957) over one module, at the level of C11: WHICH models stay in the list and WHAT every member refers to.

A data type that carries a reference is a `Leaf`:
  * `ref`    — the referenced model (number of its reference path);
  * `nested` — the data type sits inside a container data type (`List[...]`, a union, a dict): such an object is
               SHARED by `root_type_field.data_type.copy()` (pydantic's shallow copy keeps the `data_types` list),
               whereas a data type that IS the member's data type is duplicated by the copy;
  * `reg`    — this occurrence is what `reference.children` counts.  Every data type built by the parser is
               registered (`DataType.__init__`); the object made by `.copy()` is NOT (no `__init__` runs) and the
               second occurrence of a shared nested data type must not be counted twice.
A model has its reference (`name`), the root-model flag (`isinstance(m, data_model_root_type)`), its fields (each the
list of leaves of `field.data_type.all_data_types`) and the references of its base classes (`BaseClassDataType`,
registered with the base's reference, without a parent).

The pass (`for model in models: for field in model.fields: for data_type in field.data_type.all_data_types`):
a leaf whose reference's source is a root model is replaced by a copy of that root model's first field AS IT IS AT
THAT MOMENT (already collapsed when the root model stands earlier in the list, still pointing at other root models
when it stands later); the copy is not looked at again in this pass (the loop walks the old tree);
`data_type.remove_reference()` takes the replaced leaf out of `children`; the root model is appended to
`unused_models` when, after the filter that keeps children with a parent and base-class entries, nothing is left.
`Parser.parse` later removes every unused model from the list.

Outside the model (`none`): a copy that would share a REGISTERED nested leaf which itself points at a root model —
that leaf is rewritten in place later (`parent.data_types.remove/append` mutates the shared list), which a
name-level model cannot follow.  `--field-constraints` (the `continue` for constrained root types), imports and
other modules are not modelled; `ext` lists references that have users outside the list (they never change).
-/
namespace Dcg.Model.Collapse

structure Leaf where
  ref : Nat
  nested : Bool
  reg : Bool
deriving DecidableEq, Repr, Inhabited

structure Model where
  name : Nat
  root : Bool
  fields : List (List Leaf)
  bases : List Nat
deriving DecidableEq, Repr, Inhabited

/-- `reference.source`: the model of the list with that reference -/
def lookup (ms : List Model) (r : Nat) : Option Model := ms.find? (fun m => m.name == r)

/-- `isinstance(reference.source, self.data_model_root_type)` and then `root_type_model.fields[0]` -/
def rootField (ms : List Model) (r : Nat) : Option (List Leaf) :=
  match lookup ms r with
  | some m => if m.root then some (m.fields.headD []) else none
  | none => none

/-- does `m` hold a user that `reference.children` of `r` counts (after the filter): a registered data type of a
member, or a base-class entry -/
def usesIn (r : Nat) (m : Model) : Bool :=
  m.bases.contains r || m.fields.any (fun f => f.any (fun l => l.reg && l.ref == r))

/-- `bool(root_type_model.reference.children)` after the filter -/
def used (ext : List Nat) (ms : List Model) (r : Nat) : Bool :=
  ext.contains r || ms.any (usesIn r)

/-- `root_type_field.data_type.copy()` -/
def copyField (ms : List Model) (rf : List Leaf) : Option (List Leaf) :=
  if rf.any (fun k => k.nested && k.reg && (rootField ms k.ref).isSome) then none
  else some (rf.map fun k => { k with reg := false })

/-- the leaves of one member; returns the new leaves and the root models that were inlined -/
def visitLeaves (ms : List Model) : List Leaf → Option (List Leaf × List Nat)
  | [] => some ([], [])
  | l :: ls =>
    match visitLeaves ms ls with
    | none => none
    | some (out, cs) =>
      match rootField ms l.ref with
      | none => some (l :: out, cs)
      | some rf =>
        match copyField ms rf with
        | none => none
        | some c => some (c.map (fun k => { k with nested := k.nested || l.nested }) ++ out, l.ref :: cs)

def visitFields (ms : List Model) : List (List Leaf) → Option (List (List Leaf) × List Nat)
  | [] => some ([], [])
  | f :: fs =>
    match visitLeaves ms f, visitFields ms fs with
    | some (f', c1), some (fs', c2) => some (f' :: fs', c1 ++ c2)
    | _, _ => none

/-- the outer loop: `done` are the models already visited (rewritten), `un` is `unused_models` -/
def go (ext : List Nat) (done : List Model) : List Model → List Nat → Option (List Model × List Nat)
  | [], un => some (done, un)
  | m :: rest, un =>
    match visitFields (done ++ m :: rest) m.fields with
    | none => none
    | some (fs, cs) =>
      let m' : Model := { m with fields := fs }
      go ext (done ++ [m']) rest (un ++ cs.filter (fun r => !used ext (done ++ m' :: rest) r))

/-- the pass itself: the rewritten list (nothing removed yet) and `unused_models` -/
def pass (ext : List Nat) (ms : List Model) : Option (List Model × List Nat) := go ext [] ms []

/-- `for unused_model in unused_models: if unused_model in models: models.remove(unused_model)`; what is removed is
the object `reference.source`, a root model -/
def removeUnused (ms : List Model) (un : List Nat) : List Model :=
  ms.filter (fun m => !(m.root && un.contains m.name))

/-- pass + removal: the list that is written -/
def collapse (ext : List Nat) (ms : List Model) : Option (List Model) :=
  (pass ext ms).map (fun r => removeUnused r.1 r.2)

/-- every reference a model is written with: members and base classes -/
def refsOf (m : Model) : List Nat := m.bases ++ (m.fields.flatten.map (·.ref))

/-- a reference that points at nothing: the model was in the list handed to the pass and is gone from the result -/
def dangling (before after : List Model) : List (Nat × Nat) :=
  after.flatMap (fun m => (refsOf m).filterMap (fun r =>
    if (lookup before r).isSome && (lookup after r).isNone then some (m.name, r) else none))

/-- referents first, as far as root models are concerned: a member that points at a root model of the list points
at one that stands EARLIER (what `sort_data_models` establishes outside reference cycles) -/
def rootsFirst (seen : List Nat) (all : List Model) : List Model → Bool
  | [] => true
  | m :: rest =>
    m.fields.all (fun f => f.all (fun l => (rootField all l.ref).isNone || seen.contains l.ref))
      && rootsFirst (seen ++ [m.name]) all rest

/-- every data type is registered: the state the parser hands over -/
def allRegistered (ms : List Model) : Bool := ms.all (fun m => m.fields.all (fun f => f.all (·.reg)))

end Dcg.Model.Collapse
