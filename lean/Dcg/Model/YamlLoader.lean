/-
The constructor lookup of the YAML loader that reads BOTH JSON and YAML text (`util.SafeLoaderTemp`, used by
`load_yaml`): the class is the stock PyYAML safe loader whose `yaml_constructors` table was copied and then written
over by `add_constructor` calls. `BaseConstructor.construct_object` looks the tag of a node up in that table and falls
back to the entry under `None` (the stock multi-constructor table is empty). The overrides are the regenerated table
`Dcg.Gen.YamlLoader.loaderOverrides` (rows `(kind, tag, constructor)`); rows of another kind (resolvers, methods, MRO) are
not constructor registrations and are excluded by the theorem `yaml_loader_overrides_reviewed`.
-/
namespace Dcg.Model.YamlLoader

/-- the `add_constructor` registrations among the override rows: tag ↦ constructor -/
def ctorOverrides (ovr : List (String × String × String)) : List (String × String) :=
  (ovr.filter (fun r => r.1 == "constructor")).map (·.2)

/-- the constructor the loader uses for a node of tag `tag`: the override registered for the tag if there is one,
else the stock entry, else the stock entry for unknown tags -/
def ctorOf (stock : List (String × String)) (fallback : String) (ovr : List (String × String × String))
    (tag : String) : String :=
  match (ctorOverrides ovr).lookup tag with
  | some c => c
  | none => (stock.lookup tag).getD fallback

end Dcg.Model.YamlLoader
