import Dcg.Model.Infer
import Dcg.Sem.Schema
/-
Dcg.Model.InferBridge — the seam between the two stages of `generate()` on raw data (C16):

    document --genson--> inferred schema --json.dumps--> text --JsonSchemaParser--> classes

`Model.Infer` (C16) models the left arrow over its own node type; `Sem.Schema` / `Model.Translate`
/ `Sem.Pyd` (C03) model the right part. This file is the middle:

* `toLite`      a JSON value of C03 (`Sem.Json`, numbers are decimals) as inference sees it
                (`JsonLite`: Python `int` for a literal without fraction digits, else `float`, of
                which only "is the value integral" matters);
* `toJson`      a section of `toLite` (one representative per `JsonLite` value);
* `toSchema`    `SchemaNode.to_schema()` (genson/schema/node.py) followed by the reading of that text
                by the JSON-Schema front end, as a `Sem.Schema`:
                  no active strategy                       `{}`                          ↦ any
                  one `{"type": t}` strategy                                             ↦ that type
                  several                                  `{"type": [..]}` / `{"anyOf"}` ↦ anyOf, flattened
                `{"type": [a, b]}` and `{"anyOf": [{"type": a}, {"type": b}]}` are the same JSON-Schema
                constraint and the same `Union[...]` for the parser (`get_data_type` on a type list,
                `parse_any_of` on alternatives); `"null"` in a type list is the alternative `null`.
                An object strategy without properties is `{"type": "object"}` = `Dict[str, Any]` for
                the parser (`dict any`), except for a whole document (`toSchemaRoot`: an empty class).
                The order of the alternatives is fixed here (boolean, number, string, array, object,
                null); genson writes them in the order the strategies were created. Neither validity
                nor acceptance depends on it.
* `fuel`        enough `validJ` fuel for `toSchema n`: 3 per nesting level.
* `wf`          the invariant of inference that makes the schema lie inside C03's `InSubset`:
                distinct property names, `required` ⊆ property names, hereditarily.
* `v1Safe`      the decidable region of the pydantic-v1 statement (see Props/C16).

Agreement of `toSchema (infer v)` with the text `generate()` really hands to `JsonSchemaParser`, and
of `tr (toSchemaRoot (infer v))` with the IR the real parser builds from that text, is tested on every
run (vlib/props/c16_bridge.py).
-/
namespace Dcg.Model.InferBridge
open Dcg.Sem Dcg.Model.Infer Dcg.Model.Constraints

abbrev SJson := Dcg.Sem.Json
abbrev LJson := Dcg.Sem.JsonLite.Json
abbrev Key := Dcg.Sem.JsonLite.Key

/-! ### values -/

mutual
/-- what inference looks at: `json.loads` gives a Python `int` for a literal without fraction digits
(`d.e = 0`), a `float` otherwise -/
def toLite : SJson → LJson
  | .null => .null
  | .bool b => .bool b
  | .num d => if d.e = 0 then .int d.m else .flt d.isInt
  | .str s => .str s
  | .arr xs => .arr (toLiteL xs)
  | .obj kvs => .obj (toLiteP kvs)
def toLiteL : List SJson → List LJson
  | [] => []
  | x :: xs => toLite x :: toLiteL xs
def toLiteP : List (List Char × SJson) → List (Key × LJson)
  | [] => []
  | (k, v) :: r => (k, toLite v) :: toLiteP r
end

mutual
/-- one representative: an integral float is `1.0`, another float `1.5` -/
def toJson : LJson → SJson
  | .null => .null
  | .bool b => .bool b
  | .int i => .num ⟨i, 0⟩
  | .flt integral => .num (if integral then ⟨10, 1⟩ else ⟨15, 1⟩)
  | .str s => .str s
  | .arr xs => .arr (toJsonL xs)
  | .obj kvs => .obj (toJsonP kvs)
def toJsonL : List LJson → List SJson
  | [] => []
  | x :: xs => toJson x :: toJsonL xs
def toJsonP : List (Key × LJson) → List (List Char × SJson)
  | [] => []
  | (k, v) :: r => (k, toJson v) :: toJsonP r
end

/-! ### schemas -/

/-- `{"type": t}` for a scalar type -/
def plain (ty : STy) : Schema := .scalar ty false {}

/-- `to_schema()`'s last step: no schema → `{}`, one → itself, several → alternatives -/
def ofAlts : List Schema → Schema
  | [] => .any
  | [s] => s
  | as => .anyOf as

def scalarAlts (bo : Bool) (nm : Option NumT) (st : Bool) : List Schema :=
  (if bo then [plain .boolean] else []) ++
  (match nm with
    | none => []
    | some .integer => [plain .integer]
    | some .number => [plain .number]) ++
  (if st then [plain .string] else [])

/-- the object strategy: `{"type": "object"}` alone is a free-form mapping for the parser -/
def objAlt (ps : List (List Char × Schema)) (rq : List Key) : Schema :=
  if ps.isEmpty && rq.isEmpty then .dict .any else .object ps rq .absent

mutual
def toSchema : Node → Schema
  | .mk nu bo st nm ar ho ps rq =>
    ofAlts (scalarAlts bo nm st ++ arrAlt ar ++ (if ho then [objAlt (toProps ps) rq] else []) ++
      (if nu then [.null] else []))
/-- the list strategy; an `items` node without strategies writes no `items` keyword -/
def arrAlt : Option Node → List Schema
  | none => []
  | some items => [.array (toSchema items) none none]
def toProps : List (Key × Node) → List (List Char × Schema)
  | [] => []
  | (k, n) :: r => (k, toSchema n) :: toProps r
end

/-- the alternatives `toSchema` joins -/
def altsOf (n : Node) : List Schema :=
  scalarAlts n.bool n.num n.str ++ arrAlt n.arr ++
    (if n.hasObj then [objAlt (toProps n.props) n.req] else []) ++ (if n.null then [.null] else [])

/-- only the object strategy is active and it has seen nothing but `{}` -/
def onlyEmptyObject (n : Node) : Bool :=
  n.hasObj && !n.null && !n.bool && !n.str && n.num.isNone && n.arr.isNone && n.props.isEmpty &&
    n.req.isEmpty

/-- a whole document: `parse_obj` makes `{"type": "object"}` an empty class, not a mapping -/
def toSchemaRoot (n : Node) : Schema :=
  if onlyEmptyObject n then .object [] [] .absent else toSchema n

/-! ### fuel -/

mutual
/-- `validJ` fuel that suffices for `toSchema n`: one level for the alternatives, one for the
container, one for the leaves below it -/
def fuel : Node → Nat
  | .mk _ _ _ _ ar _ ps _ => 3 + max (fuelO ar) (fuelP ps)
def fuelO : Option Node → Nat
  | none => 0
  | some n => fuel n
def fuelP : List (Key × Node) → Nat
  | [] => 0
  | (_, n) :: r => max (fuel n) (fuelP r)
end

/-! ### the invariant of inference -/

def names (ps : List (Key × Node)) : List Key := ps.map (·.1)

mutual
/-- distinct property names and `required` ⊆ property names, at every level -/
def wf : Node → Bool
  | .mk _ _ _ _ ar _ ps rq =>
    wfO ar && wfP ps && namesNodup (ps.map (·.1)) && rq.all (fun k => (ps.map (·.1)).contains k)
def wfO : Option Node → Bool
  | none => true
  | some n => wf n
def wfP : List (Key × Node) → Bool
  | [] => true
  | (_, n) :: r => wf n && wfP r
end

/-! ### the region of the pydantic-v1 statement -/

/-- the node is `{"type": "null"}` and nothing else -/
def onlyNull (n : Node) : Bool :=
  n.null && !n.bool && !n.str && n.num.isNone && n.arr.isNone && !n.hasObj

/-- the node is rendered `Optional[List[None]]`: exactly the strategies null and list, the items being
null only. pydantic v1 refuses `None` for such a member (known finding C16-v1-list-of-none). -/
def optListOfNone (n : Node) : Bool :=
  n.null && !n.bool && !n.str && n.num.isNone && !n.hasObj &&
    (match n.arr with
     | some items => onlyNull items
     | none => false)

mutual
/-- no node of the tree is `Optional[List[None]]` -/
def v1Safe : Node → Bool
  | .mk nu bo st nm ar ho ps rq =>
    !optListOfNone (.mk nu bo st nm ar ho ps rq) && v1SafeO ar && v1SafeP ps
def v1SafeO : Option Node → Bool
  | none => true
  | some n => v1Safe n
def v1SafeP : List (Key × Node) → Bool
  | [] => true
  | (_, n) :: r => v1Safe n && v1SafeP r
end

end Dcg.Model.InferBridge
