/-
Dcg.Model.Graphql — the GraphQL front end (`parser/graphql.py`).

* `GType`                GraphQL type expressions  `Name`, `[t]`, `t!`
* `parseField`           transliteration of the wrapper-unrolling loop of `GraphQLParser.parse_field`
                         (which `DataType` nodes are created, where `is_list` / `is_optional` are
                         assigned, what `required` becomes)
* `rebuild`              reads the IR back as a type expression, the way `DataType.type_hint` and
                         `DataModelFieldBase.type_hint` read it: a level is nullable iff its node is
                         optional; the outermost level is nullable iff the node is optional or the
                         field is not required
* `parseObjectLike`      `parse_object_like`: one member per field, then the `__typename` member,
                         interfaces as base classes
* `resolveMember`        which declaration of a member a class ends up with: its own, else the first
                         one along the linearised bases (Python attribute / annotation lookup)
* `PyVal`, `getDefault`, `parseFieldD`
                         the default value of an input field: `_get_default` and what `parse_field`
                         hands to the member (`default=`, `has_default=`)
-/
namespace Dcg.Model.Graphql

inductive GType where
  | named (n : List Char)
  | list (t : GType)
  | nonNull (t : GType)
  deriving Repr, DecidableEq, Inhabited

/-- graphql-core refuses `GraphQLNonNull(GraphQLNonNull(..))` and the SDL grammar cannot write `t!!` -/
def GType.wf : GType → Bool
  | .named _ => true
  | .list t => t.wf
  | .nonNull (.nonNull _) => false
  | .nonNull t => t.wf

def GType.isNonNull : GType → Bool
  | .nonNull _ => true
  | _ => false

def GType.listDepth : GType → Nat
  | .named _ => 0
  | .list t => t.listDepth + 1
  | .nonNull t => t.listDepth

def GType.baseName : GType → List Char
  | .named n => n
  | .list t => t.baseName
  | .nonNull t => t.baseName

/-- strip one outermost `!` -/
def GType.nullableTop : GType → GType
  | .nonNull t => t
  | t => t

/-- The chain of `DataType` objects `parse_field` builds: every node has `is_optional`; a list node
has `is_list = True` and `data_types = [inner]`; the innermost node carries `type = obj.name`. -/
inductive DT where
  | leaf (optional : Bool) (type : List Char)
  | listOf (optional : Bool) (inner : DT)
  deriving Repr, DecidableEq, Inhabited

def DT.optional : DT → Bool
  | .leaf o _ => o
  | .listOf o _ => o

def DT.depth : DT → Nat
  | .leaf _ _ => 0
  | .listOf _ d => d.depth + 1

def DT.typeName : DT → List Char
  | .leaf _ n => n
  | .listOf _ d => d.typeName

structure FieldIR where
  dt : DT
  required : Bool
  deriving Repr, DecidableEq, Inhabited

/-- The `while is_list_type(obj) or is_non_null_type(obj)` loop. `opt` is the current value of
`data_type.is_optional` of the node being filled (every node is created with `is_optional=True`).
  * list:     `data_type.is_list = True; data_type.data_types = [new(is_optional=True)]; data_type = new`
  * non-null: `data_type.is_optional = False`
  * named:    loop ends, `data_type.type = obj.name` -/
def unroll : GType → Bool → DT
  | .named n, opt => .leaf opt n
  | .list t, opt => .listOf opt (unroll t true)
  | .nonNull t, _ => unroll t false

/-- `required = (not force_optional_for_required_fields) and (not final_data_type.is_optional)` -/
def parseField (forceOptional : Bool) (t : GType) : FieldIR :=
  let dt := unroll t true
  { dt := dt, required := !forceOptional && !dt.optional }

def wrap (nullable : Bool) (g : GType) : GType := if nullable then g else .nonNull g

/-- the type expression a node chain denotes when the outermost nullability is given from outside -/
def rebuildCore : DT → GType
  | .leaf _ n => .named n
  | .listOf _ d => .list (wrap d.optional (rebuildCore d))

def rebuildDT (d : DT) : GType := wrap d.optional (rebuildCore d)

/-- `DataModelFieldBase.type_hint`: the hint of the node, wrapped in `Optional` when the node is not
already optional and the field is not required. -/
def FieldIR.topNullable (ir : FieldIR) : Bool := ir.dt.optional || !ir.required

def rebuild (ir : FieldIR) : GType := wrap ir.topNullable (rebuildCore ir.dt)

/-! ### object-like types -/

/-- a member of a generated class, as far as C17 looks at it -/
inductive Member where
  | field (name : List Char) (ir : FieldIR)
  /-- `_typename_field`: name `typename__`, alias `__typename`, `Literal[name]`, default `name`, not required -/
  | typename (literal : List Char)
  deriving Repr, DecidableEq

structure ClassIR where
  name : List Char
  members : List Member
  bases : List (List Char)
  deriving Repr, DecidableEq

/-- `parse_object_like(obj)` for fields given in `obj.fields` order and interfaces in `obj.interfaces` order -/
def parseObjectLike (forceOptional : Bool) (name : List Char) (fields : List (List Char × GType))
    (interfaces : List (List Char)) : ClassIR :=
  { name := name,
    members := fields.map (fun f => .field f.1 (parseField forceOptional f.2)) ++ [.typename name],
    bases := interfaces }

/-! ### which declaration of a member a class has

`class T(A, B)`: Python (and pydantic, dataclasses, TypedDict, which all collect annotations base by
base so that a later class in the MRO is overridden by an earlier one) takes the declaration of a
member from `T` itself when `T` declares it, otherwise from the FIRST class along the linearised
bases that declares it. -/

def Member.name : Member → List Char
  | .field n _ => n
  | .typename _ => "typename__".toList

/-- the first declaration of a member called `n` in a class body -/
def lookupMember : List Member → List Char → Option Member
  | [], _ => none
  | m :: ms, n => if m.name = n then some m else lookupMember ms n

/-- `own`: the members the class statement of `T` declares; `mro`: the member lists of the classes
after `T` in its method resolution order -/
def resolveMember (own : List Member) (mro : List (List Member)) (n : List Char) : Option Member :=
  match lookupMember own n with
  | some m => some m
  | none => mro.findSome? (fun ms => lookupMember ms n)

/-! ### default values of input fields

graphql-core hands the default of an input field over as a Python value (`value_from_ast`): `None`
for `null`, `bool` / `int` / `float` / `str` for the scalars (an enum value is the `str` of its name),
a `list`, a `dict` for an input-object literal — or the sentinel `Undefined` when the SDL writes no
default. A float travels as its `repr` and is never compared numerically. -/

inductive PyVal where
  | none
  | bool (b : Bool)
  | int (i : Int)
  | float (repr : List Char)
  | str (s : List Char)
  | list (xs : List PyVal)
  | dict (kvs : List (List Char × PyVal))
  deriving Repr, Inhabited

def PyVal.isNone : PyVal → Bool
  | .none => true
  | _ => false

/-- `bool(v)` of Python for these values (the floats whose `repr` is a zero are the falsy ones) -/
def PyVal.truthy : PyVal → Bool
  | .none => false
  | .bool b => b
  | .int i => i != 0
  | .float r => !(r == "0.0".toList || r == "-0.0".toList)
  | .str s => !s.isEmpty
  | .list xs => !xs.isEmpty
  | .dict kvs => !kvs.isEmpty

/-- `GraphQLInputField.default_value` -/
inductive DefaultValue where
  | undefined
  | value (v : PyVal)
  deriving Repr, Inhabited

/-- `_get_default(field, final_data_type, required)`:
```
if isinstance(field, graphql.GraphQLInputField):
    if field.default_value == graphql.pyutils.Undefined: return None
    return field.default_value
… return None
```
`isInputField`: the field is a `GraphQLInputField` (a field of an input object); the fields of object
and interface types have no default. -/
def getDefault (isInputField : Bool) (d : DefaultValue) : PyVal :=
  if isInputField then
    match d with
    | .undefined => .none
    | .value v => v
  else .none

/-- what `parse_field` gives the member besides its type: `default=default`,
`has_default=default is not None` -/
structure FieldD where
  ir : FieldIR
  default : PyVal
  hasDefault : Bool
  deriving Repr, Inhabited

def parseFieldD (forceOptional isInputField : Bool) (t : GType) (d : DefaultValue) : FieldD :=
  let v := getDefault isInputField d
  { ir := parseField forceOptional t, default := v, hasDefault := !v.isNone }

/-- the default the generated member is expected to show: a required member has none; a member that
is not required shows `default` (which is `None` when the SDL gives no default or `null`) -/
def FieldD.memberDefault (f : FieldD) : Option PyVal :=
  if f.ir.required then none else some f.default

end Dcg.Model.Graphql
