/-
Dcg.Model.Graphql — the GraphQL front end (`parser/graphql.py`).

* `GType`                GraphQL type expressions  `Name`, `[t]`, `t!`
* `parseField`           transliteration of the wrapper-unrolling loop of `GraphQLParser.parse_field`
                         (which `DataType` nodes are created, where `is_list` / `is_optional` are
                         assigned, what `required` becomes)
* `rebuild`              reads the IR back as a type expression, the way `DataType.type_hint` and
                         `DataModelFieldBase.type_hint` read it: a level is nullable iff its node is
                         optional; the outermost level is nullable iff the node is optional or the
                         field is not required
* `parseObjectLike`      `parse_object_like`: one member per field, then the `__typename` member,
                         interfaces as base classes
-/
namespace Dcg.Model.Graphql

inductive GType where
  | named (n : List Char)
  | list (t : GType)
  | nonNull (t : GType)
  deriving Repr, DecidableEq, Inhabited

/-- graphql-core refuses `GraphQLNonNull(GraphQLNonNull(..))` and the SDL grammar cannot write `t!!` -/
def GType.wf : GType → Bool
  | .named _ => true
  | .list t => t.wf
  | .nonNull (.nonNull _) => false
  | .nonNull t => t.wf

def GType.isNonNull : GType → Bool
  | .nonNull _ => true
  | _ => false

def GType.listDepth : GType → Nat
  | .named _ => 0
  | .list t => t.listDepth + 1
  | .nonNull t => t.listDepth

def GType.baseName : GType → List Char
  | .named n => n
  | .list t => t.baseName
  | .nonNull t => t.baseName

/-- strip one outermost `!` -/
def GType.nullableTop : GType → GType
  | .nonNull t => t
  | t => t

/-- The chain of `DataType` objects `parse_field` builds: every node has `is_optional`; a list node
has `is_list = True` and `data_types = [inner]`; the innermost node carries `type = obj.name`. -/
inductive DT where
  | leaf (optional : Bool) (type : List Char)
  | listOf (optional : Bool) (inner : DT)
  deriving Repr, DecidableEq, Inhabited

def DT.optional : DT → Bool
  | .leaf o _ => o
  | .listOf o _ => o

def DT.depth : DT → Nat
  | .leaf _ _ => 0
  | .listOf _ d => d.depth + 1

def DT.typeName : DT → List Char
  | .leaf _ n => n
  | .listOf _ d => d.typeName

structure FieldIR where
  dt : DT
  required : Bool
  deriving Repr, DecidableEq, Inhabited

/-- The `while is_list_type(obj) or is_non_null_type(obj)` loop. `opt` is the current value of
`data_type.is_optional` of the node being filled (every node is created with `is_optional=True`).
  * list:     `data_type.is_list = True; data_type.data_types = [new(is_optional=True)]; data_type = new`
  * non-null: `data_type.is_optional = False`
  * named:    loop ends, `data_type.type = obj.name` -/
def unroll : GType → Bool → DT
  | .named n, opt => .leaf opt n
  | .list t, opt => .listOf opt (unroll t true)
  | .nonNull t, _ => unroll t false

/-- `required = (not force_optional_for_required_fields) and (not final_data_type.is_optional)` -/
def parseField (forceOptional : Bool) (t : GType) : FieldIR :=
  let dt := unroll t true
  { dt := dt, required := !forceOptional && !dt.optional }

def wrap (nullable : Bool) (g : GType) : GType := if nullable then g else .nonNull g

/-- the type expression a node chain denotes when the outermost nullability is given from outside -/
def rebuildCore : DT → GType
  | .leaf _ n => .named n
  | .listOf _ d => .list (wrap d.optional (rebuildCore d))

def rebuildDT (d : DT) : GType := wrap d.optional (rebuildCore d)

/-- `DataModelFieldBase.type_hint`: the hint of the node, wrapped in `Optional` when the node is not
already optional and the field is not required. -/
def FieldIR.topNullable (ir : FieldIR) : Bool := ir.dt.optional || !ir.required

def rebuild (ir : FieldIR) : GType := wrap ir.topNullable (rebuildCore ir.dt)

/-! ### object-like types -/

/-- a member of a generated class, as far as C17 looks at it -/
inductive Member where
  | field (name : List Char) (ir : FieldIR)
  /-- `_typename_field`: name `typename__`, alias `__typename`, `Literal[name]`, default `name`, not required -/
  | typename (literal : List Char)
  deriving Repr, DecidableEq

structure ClassIR where
  name : List Char
  members : List Member
  bases : List (List Char)
  deriving Repr, DecidableEq

/-- `parse_object_like(obj)` for fields given in `obj.fields` order and interfaces in `obj.interfaces` order -/
def parseObjectLike (forceOptional : Bool) (name : List Char) (fields : List (List Char × GType))
    (interfaces : List (List Char)) : ClassIR :=
  { name := name,
    members := fields.map (fun f => .field f.1 (parseField forceOptional f.2)) ++ [.typename name],
    bases := interfaces }

end Dcg.Model.Graphql
