import Dcg.Model.Field
/-
Dcg.Model.FieldReads — which bare names the DEFAULT EXPRESSION of a rendered member reads while the
class body runs (C05, name capture). A class body is executed statement by statement in its own
namespace, which is looked up first: `m: T = v` evaluates `v`, then binds `m`. A literal reads
nothing, the body of a lambda is not evaluated where it is written (and sees module globals later);
what remains is the helper the member template calls: `Field(…)` (pydantic) / `field(…)`
(dataclasses, msgspec). An earlier member that BEARS such a name and has a class-level value hides it.
Tied to the real generator by the campaign "default expression reads" of vlib/props/c05_capture.py
(the names `ast` finds in the real member line, lambda bodies excluded).
-/
namespace Dcg.Model.FieldReads
open Dcg.Model.Field

/-- the helper the member template of the kind calls -/
def helper : Kind → String
  | .v1 | .v2 => "Field"
  | _ => "field"

/-- names read when the default expression is evaluated, in evaluation order -/
def reads (k : Kind) : Asg → List String
  | .none => []
  | .lit _ => []
  | .fieldReq => [helper k]
  | .fieldDflt _ => [helper k]
  | .fieldNoDefault => [helper k]
  | .factory _ => [helper k]
  | .msField _ => [helper k]

/-- class-body lookup: does a name bound by an earlier member (`bound`) stand for one of the reads? -/
def captured (bound : List String) (rs : List String) : Bool := rs.any (fun n => bound.contains n)

/-- namespace after the statements of a class body: a member binds its name iff it has a value -/
def boundBy : List (String × Bool) → List String
  | [] => []
  | (n, hasValue) :: r => (if hasValue then [n] else []) ++ boundBy r

end Dcg.Model.FieldReads
