import Dcg.Model.Types
/-
Dcg.Model.Imports — transliteration of `src/datamodel_code_generator/imports.py` (`Imports`: the
reference-counted multimap from `from_` to imported names, with aliases) as a state machine, of
`DataType.imports` / `DataType.all_imports` (`types.py`) and of the import part of
`DataModelFieldBase.imports` (`model/base.py`), and of the pruning step of `Parser.parse`
(`parser/base.py`: imports whose name does not occur in the rendered code are removed).

Python `dict`s are association lists in insertion order (`dump()` writes the `from` lines in that
order); Python `set`s are lists without repetition whose order is immaterial (`dump()` sorts).
`none` as a result = the Python method raises (`KeyError` from `del self.alias[from_][name]`).
-/
namespace Dcg.Model.Imports
open Dcg.Model.Types

abbrev Key := Option Str × Str

structure State where
  /-- `self` (the defaultdict): `from_` ↦ set of names, keys in insertion order -/
  imports : List (Option Str × List Str) := []
  /-- `self.alias`: (`from_`, name) ↦ alias -/
  alias : List (Key × Str) := []
  /-- `self.counter`; absent = 0 -/
  counter : List (Key × Int) := []
  /-- `self.reference_paths` -/
  refPaths : List (Str × Imp) := []
  deriving Inhabited

/-! association-list helpers -/

def setKV {α β} [DecidableEq α] (k : α) (v : β) : List (α × β) → List (α × β)
  | [] => [(k, v)]
  | (k', v') :: r => if k' = k then (k, v) :: r else (k', v') :: setKV k v r

def delK {α β} [DecidableEq α] (k : α) (l : List (α × β)) : List (α × β) := l.filter (fun p => p.1 ≠ k)

def count (s : State) (k : Key) : Int := (s.counter.lookup k).getD 0
def names (s : State) (f : Option Str) : List Str := (s.imports.lookup f).getD []
def present (s : State) (k : Key) : Bool := (names s k.1).contains k.2
def aliasOf (s : State) (k : Key) : Option Str := s.alias.lookup k

/-- where an import is filed: a dotted name is an `import a.b` line (`from_` ignored) -/
def keyOf (i : Imp) : Key := if i.name.contains '.' then (none, i.name) else (i.from_, i.name)

def addName (s : State) (k : Key) : State :=
  let ns := names s k.1
  { s with imports := setKV k.1 (if ns.contains k.2 then ns else ns ++ [k.2]) s.imports
           counter := setKV k (count s k + 1) s.counter }

/-- `self.reference_paths[import_.reference_path] = import_` -/
def recordRef (s : State) (i : Imp) : State :=
  match i.refPath with
  | some p => if p = [] then s else { s with refPaths := setKV p i s.refPaths }
  | none => s

/-- `if import_.alias: self.alias[from_][name] = alias` (not for dotted names) -/
def setAlias (s : State) (i : Imp) : State :=
  if i.name.contains '.' then s
  else match i.alias with
    | some a => if a = [] then s else { s with alias := setKV (keyOf i) a s.alias }
    | none => s

/-- `Imports.append` for one `Import` -/
def append1 (s : State) (i : Imp) : State := setAlias (addName (recordRef s i) (keyOf i)) i

def setCount (s : State) (k : Key) (c : Int) : State := { s with counter := setKV k c s.counter }

/-- `self[from_].remove(name)`; `if not self[from_]: del self[from_]` -/
def dropName (s : State) (k : Key) : State :=
  let ns := (names s k.1).filter (· ≠ k.2)
  { s with imports := if ns = [] then delK k.1 s.imports else setKV k.1 ns s.imports }

/-- `if import_.alias: del self.alias[from_][name]` (not for dotted names); `none` = KeyError -/
def dropAlias (s : State) (i : Imp) : Option State :=
  if i.name.contains '.' then some s
  else match i.alias with
    | some a =>
      if a = [] then some s
      else if (aliasOf s (keyOf i)).isNone then none
      else some { s with alias := delK (keyOf i) s.alias }
    | none => some s

/-- `Imports.remove` for one `Import`; `none` = raises -/
def remove1 (s : State) (i : Imp) : Option State :=
  let k := keyOf i
  let c := count s k - 1
  let s := setCount s k c
  if c = 0 then
    -- `self[from_].remove(name)` raises KeyError when the name is absent
    if present s k then dropAlias (dropName s k) i else none
  else some s

inductive Op where
  | append (is : List Imp)
  | remove (is : List Imp)
  | removeRef (path : Str)
  deriving Inhabited

def removeAll : State → List Imp → Option State
  | s, [] => some s
  | s, i :: is => match remove1 s i with
    | some s' => removeAll s' is
    | none => none

def step (s : State) : Op → Option State
  | .append is => some (is.foldl append1 s)
  | .remove is => removeAll s is
  | .removeRef p => match s.refPaths.lookup p with
    | some i => remove1 s i
    | none => some s

def run : State → List Op → Option State
  | s, [] => some s
  | s, op :: ops => match step s op with
    | some s' => run s' ops
    | none => none

/-! ### `dump()` -/

def strLt : Str → Str → Bool
  | [], [] => false
  | [], _ :: _ => true
  | _ :: _, [] => false
  | a :: as, b :: bs => a.toNat < b.toNat || (a == b && strLt as bs)

def insertSorted (x : Str) : List Str → List Str
  | [] => [x]
  | y :: ys => if strLt y x then y :: insertSorted x ys else x :: y :: ys

/-- `sorted(set_of_names)` -/
def sortStrs (xs : List Str) : List Str := xs.foldr insertSorted []

def sAs : Str := [' ', 'a', 's', ' ']
def sFrom : Str := ['f', 'r', 'o', 'm', ' ']
def sImportSp : Str := [' ', 'i', 'm', 'p', 'o', 'r', 't', ' ']
def sImport : Str := ['i', 'm', 'p', 'o', 'r', 't', ' ']

/-- `_set_alias` -/
def withAlias (s : State) (f : Option Str) (ns : List Str) : List Str :=
  (sortStrs ns).map (fun n => match aliasOf s (f, n) with
    | some a => if a ≠ n then n ++ sAs ++ a else n
    | none => n)

/-- `create_line` -/
def createLine (s : State) (f : Option Str) (ns : List Str) : Str :=
  match f with
  | some f' => if f' ≠ [] then sFrom ++ f' ++ sImportSp ++ joinSep sComma (withAlias s f ns)
               else joinSep ['\n'] ((withAlias s f ns).map (sImport ++ ·))
  | none => joinSep ['\n'] ((withAlias s f ns).map (sImport ++ ·))

def dump (s : State) : Str := joinSep ['\n'] (s.imports.map (fun p => createLine s p.1 p.2))

/-! ### `DataType.imports`, `DataType.all_imports` -/

def typingStr : Str := ['t', 'y', 'p', 'i', 'n', 'g']
def abcStr : Str := ['c', 'o', 'l', 'l', 'e', 'c', 't', 'i', 'o', 'n', 's', '.', 'a', 'b', 'c']
def typingImp (n : Str) : Imp := { from_ := some typingStr, name := n }
def abcImp (n : Str) : Imp := { from_ := some abcStr, name := n }

def IMPORT_OPTIONAL : Imp := typingImp ['O', 'p', 't', 'i', 'o', 'n', 'a', 'l']
def IMPORT_UNION : Imp := typingImp ['U', 'n', 'i', 'o', 'n']
def IMPORT_LITERAL : Imp := typingImp ['L', 'i', 't', 'e', 'r', 'a', 'l']
def IMPORT_LIST : Imp := typingImp sList
def IMPORT_SET : Imp := typingImp sSet
def IMPORT_DICT : Imp := typingImp sDict
def IMPORT_SEQUENCE : Imp := typingImp sSequence
def IMPORT_FROZEN_SET : Imp := typingImp sFrozenSet
def IMPORT_MAPPING : Imp := typingImp sMapping
def IMPORT_ABC_SEQUENCE : Imp := abcImp sSequence
def IMPORT_ABC_SET : Imp := abcImp sSet
def IMPORT_ABC_MAPPING : Imp := abcImp sMapping

/-- the `(condition, Import)` table of `DataType.imports`; `opt` is `self.is_optional` as it is when
the property is read (after `type_hint`, if that was evaluated on this node) -/
def condTable (o : Opts) (a : Attrs) (opt : Bool) (nKids : Nat) : List (Bool × Imp) :=
  [(opt && !o.unionOp, IMPORT_OPTIONAL),
   (decide (nKids > 1) && !o.unionOp, IMPORT_UNION),
   (!a.literals.isEmpty, IMPORT_LITERAL)] ++
  (if o.genericCont then
    (if o.stdColl then
      [(a.isList, IMPORT_ABC_SEQUENCE), (a.isSet, IMPORT_FROZEN_SET), (a.isDict, IMPORT_ABC_MAPPING)]
     else [(a.isList, IMPORT_SEQUENCE), (a.isSet, IMPORT_FROZEN_SET), (a.isDict, IMPORT_MAPPING)])
   else if !o.stdColl then [(a.isList, IMPORT_LIST), (a.isSet, IMPORT_SET), (a.isDict, IMPORT_DICT)]
   else [])

def nodeImports (o : Opts) (a : Attrs) (opt : Bool) (nKids : Nat) (keyImports : List Imp) : List Imp :=
  a.imp.toList ++
  ((condTable o a opt nKids).filter (fun p => p.1 && some p.2 != a.imp)).map (·.2) ++
  keyImports

/-- was `dict_key.type_hint` evaluated by the parent's `type_hint` -/
def keyReached (a : Attrs) : Bool := !a.isList && !a.isSet && a.isDict

mutual
/-- `DataType.imports` (own table, then `dict_key.imports`). `fl t` = the value of `t.is_optional`
once `type_hint` has been evaluated on `t`; `reached` = it has been evaluated on this node. -/
def ownImportsWith (fl : DT → Bool) (o : Opts) (reached : Bool) : DT → List Imp
  | .mk a key kids =>
    nodeImports o a (if reached then fl (.mk a key kids) else a.isOptional) kids.length
      (ownImportsWithO fl o (reached && keyReached a) key)
def ownImportsWithO (fl : DT → Bool) (o : Opts) (reached : Bool) : Option DT → List Imp
  | none => []
  | some k => ownImportsWith fl o reached k
end

mutual
/-- `DataType.all_imports`: children first, then the node's own -/
def allImportsWith (fl : DT → Bool) (o : Opts) (reached : Bool) : DT → List Imp
  | .mk a key kids =>
    allImportsWithL fl o (reached && a.ty.isEmpty) kids ++ ownImportsWith fl o reached (.mk a key kids)
def allImportsWithL (fl : DT → Bool) (o : Opts) (reached : Bool) : List DT → List Imp
  | [] => []
  | t :: ts => allImportsWith fl o reached t ++ allImportsWithL fl o reached ts
end

/-- the flag `type_hint` leaves behind -/
def flagAfter (o : Opts) (t : DT) : Bool := (typeHint o t).2

def ownImports (o : Opts) (reached : Bool) (t : DT) : List Imp := ownImportsWith (flagAfter o) o reached t
def allImports (o : Opts) (reached : Bool) (t : DT) : List Imp := allImportsWith (flagAfter o) o reached t

/-- the import part of `DataModelFieldBase.imports` (`use_annotated`/`Field` imports belong to the
field classes and are outside this model) -/
def fieldImports (o : Opts) (fb : FieldBits) (t : DT) : List Imp :=
  let hint := fieldTypeHint o fb t
  let hasUnion := !o.unionOp && containsSub sUnionPrefix hint
  let base := (allImports o true t).filter (fun i => !(!hasUnion && i == IMPORT_UNION))
  let needOpt :=
    if fb.fallBack then
      (fb.nullable == some true || (fb.nullable == none && (!fb.required || fb.typeHasNull))) && !o.unionOp
    else fb.nullable == some true && !o.unionOp
  base ++ (if needOpt then [IMPORT_OPTIONAL] else [])

/-! ### pruning (`parser/base.py`, "postprocess imports to remove unused imports") -/

/-- the list comprehension: every present `(from_, name)` whose name is not a substring of the code -/
def unusedImports (code : Str) (s : State) : List Key :=
  s.imports.flatMap (fun p => (p.2.filter (fun n => !containsSub n code)).map (fun n => (p.1, n)))

def prune (code : Str) (s : State) : Option State :=
  removeAll s ((unusedImports code s).map (fun k => { from_ := k.1, name := k.2 }))

/-! ### the append/remove discipline `Parser.parse` relies on (the ledger)

`Parser.parse` files the imports of every model as one batch (`imports.append(model.imports)`: in
`__change_from_import`, again when a pass changed them, and once more for every model in the final
collection loop) and takes batches back as a whole (`imports.remove(unused_model.imports)` for the root
models `--collapse-root-models` made superfluous).  The counters are only right if every batch that is
taken back was filed before: the ledger holds the batches filed and not yet taken back.  Removals of
a single import (`remove(Import(..))`: the pruning loop; `remove_referenced_imports`) are not batches:
they are booked as debits. -/

def keysOf (is : List Imp) : List Key := is.map keyOf

/-- equal as multisets -/
def sameBatch (a b : List Key) : Bool := (a ++ b).all (fun k => a.count k == b.count k)

/-- take one filed batch equal (as a multiset) to `b` out of the ledger; `none` = there is none -/
def takeBatch (b : List Key) : List (List Key) → Option (List (List Key))
  | [] => none
  | c :: r => if sameBatch c b then some r else (takeBatch b r).map (c :: ·)

/-- what the harness records of the real calls: `append(x)`, `remove(<iterable>)`,
`remove(<one Import>)`, `remove_referenced_imports(path)` -/
inductive LOp where
  | app (is : List Imp)
  | rem (is : List Imp)
  | rem1 (i : Imp)
  | rr (path : Str)
  deriving Inhabited

def LOp.op : LOp → Op
  | .app is => .append is
  | .rem is => .remove is
  | .rem1 i => .remove [i]
  | .rr p => .removeRef p

structure Ledger where
  /-- batches filed and not taken back -/
  filed : List (List Key) := []
  /-- single removals -/
  debits : List Key := []
  deriving Inhabited, DecidableEq

/-- `none` = the operation takes back a batch that was never filed (or was taken back already) -/
def ledgerStep (s : State) (L : Ledger) : LOp → Option Ledger
  | .app is => some { L with filed := keysOf is :: L.filed }
  | .rem is => if is.isEmpty then some L else (takeBatch (keysOf is) L.filed).map (fun f => { L with filed := f })
  | .rem1 i => some { L with debits := keyOf i :: L.debits }
  | .rr p => match s.refPaths.lookup p with
    | some i => some { L with debits := keyOf i :: L.debits }
    | none => some L

/-- the ledger after a history; `none` = the history is undisciplined. A history that raises is
followed up to the operation that raises. -/
def ledgerRun : State → Ledger → List LOp → Option Ledger
  | _, L, [] => some L
  | s, L, o :: os => match ledgerStep s L o with
    | none => none
    | some L' => match step s o.op with
      | some s' => ledgerRun s' L' os
      | none => some L'

/-- index of the first undisciplined operation (what the driver reports) -/
def ledgerBreak : State → Ledger → List LOp → Nat → Option Nat
  | _, _, [], _ => none
  | s, L, o :: os, n => match ledgerStep s L o with
    | none => some n
    | some L' => match step s o.op with
      | some s' => ledgerBreak s' L' os (n + 1)
      | none => none

/-- how often the filed batches credit `k` -/
def credit (filed : List (List Key)) (k : Key) : Nat := (filed.map (fun b => b.count k)).sum

end Dcg.Model.Imports
