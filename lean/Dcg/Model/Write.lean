/-
Dcg.Model.Write — what `generate()` does to the file system and to the working directory.

The effect sequence itself is DATA: `Dcg/Gen/GenerateSteps.lean` is regenerated from the `ast`
of `generate()` and `chdir()` on every run.  This file gives that sequence a meaning:

* the file system is an association list path ↦ contents, plus the working directory;
* a run executes `pre`, then the write loop's body once per module, then `post`;
* any may-raise step may fail (the fault oracle says which), a `write` fails when the text is
  not encodable in the requested encoding; nothing else fails (hypothesis OsOk: `mkdir`, `open`,
  `close` succeed — disk full / permissions are outside the model);
* a failure inside `with chdir(…)` unwinds through the context manager as its own step table
  (`try … finally`) prescribes.
-/
namespace Dcg.Model.Write

abbrev Path := List String
abbrev Content := List Char

/-! ### step tables -/

inductive Kind where
  | mayRaise | raise | benign
  | encodeCheck      -- `<text>.encode(encoding)`: raises when the text cannot be encoded
  | mkdir | openW | write | close | fsOther
  | osChdir | chdirEnter | chdirExit
  | loopBegin | loopEnd | tryBegin | finallyBegin | tryEnd | ret | unknown
  deriving DecidableEq, Repr

/-- the path a file-system effect acts on -/
inductive Target where
  | none
  | loopPath          -- `path`, the key of the module being written
  | loopPathParent    -- `path.parent`
  | perModule         -- (encodeCheck) evaluated for every module, in a loop over the same dict as the write loop
  | other (expr : String)
  deriving DecidableEq, Repr

structure Step where
  kind : Kind
  what : String
  target : Target
  deriving DecidableEq, Repr

def Kind.isFsEffect : Kind → Bool
  | .mkdir | .openW | .write | .close | .fsOther => true
  | _ => false

/-- steps at which the run may stop with an exception that is not an OS / encoding failure -/
def Kind.canRaise : Kind → Bool
  | .mayRaise | .raise | .unknown | .encodeCheck => true
  | _ => false

inductive CKind where
  | saveCwd | tryBegin | finallyBegin | tryEnd | chdirTarget | chdirSaved | yield | other | unknown
  | mkdir        -- the context manager itself creates a directory
  | fsEffect     -- … or touches the file system in another way (open for writing, write_text, unlink, rename, …)
  deriving DecidableEq, Repr

structure CStep where
  kind : CKind
  what : String
  deriving DecidableEq, Repr

/-- steps of `chdir()` that can raise: reading the current directory, switching to the target
(it may not exist), the body of the `with` statement (at the `yield`), anything unrecognised.
Switching *back* to the saved directory is assumed to succeed (hypothesis OsOk). -/
def CKind.canRaise : CKind → Bool
  | .saveCwd | .chdirTarget | .yield | .other | .unknown => true
  | _ => false

/-- steps of the context manager that change the file system -/
def CKind.isFsEffect : CKind → Bool
  | .mkdir | .fsEffect => true
  | _ => false

/-! ### the context manager `chdir` -/

/-- a working directory is either the one the process had before the call or the one `chdir`
switched to; nothing else is ever assigned -/
inductive Cwd where
  | orig | target
  deriving DecidableEq, Repr

def Cwd.denote (orig target : Path) : Cwd → Path
  | .orig => orig
  | .target => target

inductive CMode where
  | run            -- normal execution
  | toFinally      -- an exception propagates inside a `try` that has a `finally`
  | inFinally      -- executing that `finally` block while the exception is pending
  | gone           -- the exception left the function
  deriving DecidableEq, Repr

structure CState where
  cwd : Cwd
  saved : Option Cwd
  inTry : Bool
  mode : CMode
  deriving DecidableEq, Repr

/-- One step of the generator-based context manager. `fault = some i`: step number `i` raises
(for the `yield` step: the body of the `with` statement raised) instead of taking effect. -/
def cstep (fault : Option Nat) (i : Nat) (s : CState) (c : CStep) : CState :=
  match s.mode with
  | .gone => s
  | .toFinally =>
    if c.kind = .finallyBegin then { s with mode := .inFinally } else s
  | .inFinally =>
    match c.kind with
    | .tryEnd => { s with mode := .gone, inTry := false }
    | .chdirSaved => { s with cwd := s.saved.getD s.cwd }
    | .chdirTarget => { s with cwd := .target }
    | _ => s
  | .run =>
    if fault = some i && c.kind.canRaise then
      { s with mode := if s.inTry then .toFinally else .gone }
    else match c.kind with
    | .saveCwd => { s with saved := some s.cwd }
    | .tryBegin => { s with inTry := true }
    | .tryEnd => { s with inTry := false }
    | .chdirTarget => { s with cwd := .target }
    | .chdirSaved => { s with cwd := s.saved.getD s.cwd }
    | _ => s

def crun (fault : Option Nat) : Nat → CState → List CStep → CState
  | _, s, [] => s
  | i, s, c :: cs => crun fault (i + 1) (cstep fault i s c) cs

def cinit : CState := ⟨.orig, none, false, .run⟩

/-- working directory after `with chdir(…): body` for a given fault -/
def cwdAfter (steps : List CStep) (fault : Option Nat) : Cwd := (crun fault 0 cinit steps).cwd

/-- working directory while the body runs: after the steps before the `yield` -/
def cwdInside (steps : List CStep) : Cwd :=
  (crun none 0 cinit (steps.takeWhile (·.kind ≠ .yield))).cwd

/-- index of the `yield` step: "the body raised" is a fault there -/
def yieldIndex (steps : List CStep) : Nat := (steps.takeWhile (·.kind ≠ .yield)).length

/-- decidable: whatever step raises (or none), the working directory is the original one afterwards -/
def restoresCwd (steps : List CStep) : Bool :=
  cwdAfter steps none == .orig && (List.range (steps.length + 1)).all (fun i => cwdAfter steps (some i) == .orig)

/-! ### a run of `generate()` -/

structure Env where
  out : Path                          -- the requested output file or directory
  mods : List (Path × Content)        -- path below `out` and text of every module, in writing order
  encodable : Content → Bool          -- the text can be encoded in the requested encoding
  chdirSteps : List CStep             -- the table of `chdir()` that applies (`path is None` or not)

structure St where
  files : List (Path × Content)
  cwd : Cwd
  deriving DecidableEq, Repr

inductive Outcome where
  | done (st : St)
  | failed (st : St)
  deriving DecidableEq, Repr

def Outcome.st : Outcome → St
  | .done s => s
  | .failed s => s

def setFile (files : List (Path × Content)) (p : Path) (c : Content) : List (Path × Content) :=
  match files with
  | [] => [(p, c)]
  | (q, d) :: rest => if q = p then (p, c) :: rest else (q, d) :: setFile rest p c

def getFile (files : List (Path × Content)) (p : Path) : Option Content := files.lookup p

/-- the path an effect step acts on. Outside the write loop there is no module being written
(`cur = none`); `other` targets are outside the model — the side condition `effectsOnLoopPath`
rules them out. -/
def targetPath (env : Env) (cur : Option (Path × Content)) : Target → Option Path
  | .loopPath => cur.map (fun c => env.out ++ c.1)
  | .loopPathParent => cur.map (fun c => (env.out ++ c.1).dropLast)
  | _ => none

def textOf (cur : Option (Path × Content)) : Content := (cur.map (·.2)).getD []

inductive StepRes where
  | next (inChdir : Bool) (st : St)
  | fail (st : St)
  deriving DecidableEq, Repr

/-- the state an exception leaves behind: inside `with chdir(…)` the context manager unwinds -/
def failState (env : Env) (inChdir : Bool) (st : St) : St :=
  if inChdir then { st with cwd := cwdAfter env.chdirSteps (some (yieldIndex env.chdirSteps)) } else st

/-- One step. `faultHere`: the fault oracle makes this step fail if it is a may-raise step. -/
def step1 (env : Env) (faultHere : Bool) (cur : Option (Path × Content)) (inChdir : Bool) (st : St)
    (s : Step) : StepRes :=
  match s.kind with
  | .mayRaise | .raise | .unknown =>
    if faultHere then .fail (failState env inChdir st) else .next inChdir st
  | .encodeCheck =>
    -- fails for another reason (unknown codec, …) when the oracle says so, and — when it is
    -- evaluated for every module — as soon as one module's text is not encodable
    if faultHere || (s.target == .perModule && !(env.mods.all (fun m => env.encodable m.2))) then
      .fail (failState env inChdir st)
    else .next inChdir st
  | .openW =>
    match targetPath env cur s.target with
    | some p => .next inChdir { st with files := setFile st.files p [] }     -- created / truncated
    | none => .next inChdir st
  | .write =>
    match targetPath env cur s.target with
    | some p =>
      -- the text goes through the codec when it is written: an unencodable text fails HERE,
      -- after `open` has created / truncated the file
      if env.encodable (textOf cur) then
        .next inChdir { st with files := setFile st.files p ((getFile st.files p).getD [] ++ textOf cur) }
      else .fail (failState env inChdir st)
    | none => .next inChdir st
  | .chdirEnter => .next true { st with cwd := cwdInside env.chdirSteps }
  | .chdirExit => .next false { st with cwd := cwdAfter env.chdirSteps none }
  | .osChdir => .next inChdir { st with cwd := .target }
  | _ => .next inChdir st

/-- Execute the steps of one segment. `fault i`: the may-raise step at static position `i` of this
segment (in this iteration) fails. `cur`: the module being written (loop body only).
`inChdir`: inside `with chdir(…)`. -/
def exec (env : Env) (fault : Nat → Bool) (cur : Option (Path × Content)) :
    Nat → Bool → St → List Step → Outcome
  | _, _, st, [] => .done st
  | i, inChdir, st, s :: rest =>
    match step1 env (fault i) cur inChdir st s with
    | .next c st' => exec env fault cur (i + 1) c st' rest
    | .fail st' => .failed st'

/-- the write loop: the body once per module, stopping at the first failure -/
def execLoop (env : Env) (fault : Nat → Nat → Bool) (body : List Step) :
    Nat → St → List (Path × Content) → Outcome
  | _, st, [] => .done st
  | k, st, m :: rest =>
    match exec env (fault k) (some m) 0 false st body with
    | .done st' => execLoop env fault body (k + 1) st' rest
    | .failed st' => .failed st'

structure Faults where
  pre : Nat → Bool
  loop : Nat → Nat → Bool      -- iteration, position
  post : Nat → Bool

def run (env : Env) (f : Faults) (pre body post : List Step) (st : St) : Outcome :=
  match exec env f.pre none 0 false st pre with
  | .failed st' => .failed st'
  | .done st1 =>
    match execLoop env f.loop body 0 st1 env.mods with
    | .failed st' => .failed st'
    | .done st2 => exec env f.post none 0 false st2 post

/-! ### decidable side conditions on the tables -/

/-- every step that may raise precedes the first file-system effect: `pre` has no effect, the
write loop and what follows have nothing that may raise (and nothing the model does not know) -/
def raisesBeforeWrites (pre body post : List Step) : Bool :=
  pre.all (fun s => !s.kind.isFsEffect) && (body ++ post).all (fun s => !s.kind.canRaise)

/-- `with chdir` regions are opened and closed inside the segment, not nested -/
def chdirBalanced : Bool → List Step → Bool
  | inside, [] => !inside
  | inside, s :: rest =>
    match s.kind with
    | .chdirEnter => !inside && chdirBalanced true rest
    | .chdirExit => inside && chdirBalanced false rest
    | _ => chdirBalanced inside rest

def noDirectChdir (steps : List Step) : Bool := steps.all (fun s => s.kind != .osChdir)

/-- every file-system effect acts on the path of the module being written or its directory -/
def effectsOnLoopPath (steps : List Step) : Bool :=
  steps.all (fun s => !s.kind.isFsEffect || s.target == .loopPath || (s.kind == .mkdir && s.target == .loopPathParent))

/-- file-system effects occur only in the write loop, and only on the module's own path -/
def writesOnlyInLoop (pre body post : List Step) : Bool :=
  pre.all (fun s => !s.kind.isFsEffect) && post.all (fun s => !s.kind.isFsEffect) && effectsOnLoopPath body

/-- `pre` encodes the text of every module before the write loop starts -/
def hasEncodeCheck (pre : List Step) : Bool :=
  pre.any (fun s => s.kind == .encodeCheck && s.target == .perModule)

/-- the expressions the write loop prints (normalised by the translator: `x.rstrip()` ↦ `x`) are
exactly among those `pre` encodes for every module (`x or ''` ↦ `x`) -/
def encodeGuardsWrites (pre body : List Step) : Bool :=
  let checked := (pre.filter (fun s => s.kind == .encodeCheck && s.target == .perModule)).map (·.what)
  let printed := ((body.filter (fun s => s.kind == .write)).map (·.what)).filter (· != "")
  !checked.isEmpty && printed.all (fun e => checked.contains e)

/-- the steps that run while the working directory is switched (`with chdir(output): …`) -/
def insideChdir : List Step → Bool → List Step
  | [], _ => []
  | s :: r, inside =>
    if s.kind == .chdirEnter then insideChdir r true
    else if s.kind == .chdirExit then insideChdir r false
    else if inside then s :: insideChdir r inside
    else insideChdir r inside

/-- Only the parse runs with the working directory switched: everything that builds a path from `output` (the
module → file map, `mkdir`, `open`) is evaluated in the caller's working directory, so a RELATIVE output path
means what the caller meant. -/
def onlyParseInsideChdir (pre loopBody post : List Step) : Bool :=
  (insideChdir pre false).all (fun s => s.what == "parser.parse") && !(insideChdir pre false).isEmpty &&
  (loopBody ++ post).all (fun s => s.kind != .chdirEnter && s.kind != .osChdir)

/-! ### every path through `generate()`, the context managers it enters included -/

/-- what matters about a step for the order of effects and failures: does it change the file system, may it raise -/
structure FlatStep where
  effect : Bool
  raises : Bool
  what : String
  deriving DecidableEq, Repr

def flatOfStep (s : Step) : FlatStep := ⟨s.kind.isFsEffect, s.kind.canRaise, s.what⟩

/-- a step of the context manager; the `yield` is where the body of the `with` runs — the body's own steps follow in the
flattened list, so the `yield` itself is neither an effect nor a failure -/
def flatOfC (c : CStep) : FlatStep :=
  ⟨c.kind.isFsEffect, c.kind.canRaise && c.kind != .yield, "chdir(): " ++ c.what⟩

/-- what the context manager does on `__enter__` (up to the `yield`) … -/
def ctxEnter (cs : List CStep) : List CStep := cs.takeWhile (·.kind ≠ .yield)
/-- … and on `__exit__` (after the `yield`) -/
def ctxExit (cs : List CStep) : List CStep := (cs.dropWhile (·.kind ≠ .yield)).drop 1

/-- the steps of a segment of `generate()` with the steps of the context manager in place of `with chdir(…):` / the end of
its block -/
def inlineCtx (cs : List CStep) : List Step → List FlatStep
  | [] => []
  | s :: r =>
    match s.kind with
    | .chdirEnter => (ctxEnter cs).map flatOfC ++ inlineCtx cs r
    | .chdirExit => (ctxExit cs).map flatOfC ++ inlineCtx cs r
    | _ => flatOfStep s :: inlineCtx cs r

/-- ONE PATH through `generate()`: everything up to the write loop (context managers inlined), `n` iterations of the write
loop, what follows -/
def fullPath (cs : List CStep) (pre body post : List Step) (n : Nat) : List FlatStep :=
  inlineCtx cs pre ++ (List.replicate n (body.map flatOfStep)).flatten ++ post.map flatOfStep

/-- no step that changes the file system is followed — anywhere later on the path — by a step that may raise -/
def noEffectBeforeRaise : List FlatStep → Bool
  | [] => true
  | s :: r => (!s.effect || r.all (fun t => !t.raises)) && noEffectBeforeRaise r

/-- decidable side condition on the extracted tables: nothing up to the write loop — the steps of the context manager
included — changes the file system, nothing in or after the write loop may raise -/
def effectsAfterRaises (cs : List CStep) (pre body post : List Step) : Bool :=
  (inlineCtx cs pre).all (fun t => !t.effect) && (body ++ post).all (fun s => !s.kind.canRaise)

/-- the step that breaks it: the first effect before the write loop (context manager included), else the first may-raise
step in or after the loop -/
def effectRefuter (cs : List CStep) (pre body post : List Step) : Option String :=
  match (inlineCtx cs pre).find? (·.effect) with
  | some t => some ("effect-before-raise " ++ t.what)
  | none => ((body ++ post).find? (·.kind.canRaise)).map (fun s => "raise-after-effect " ++ s.what)

/-- the effect steps the context manager executes on entering when step `fault` (if any) raises: what a failed run finds
on disk although `generate()` itself has not reached its write loop -/
def ctxEffectsBefore (cs : List CStep) (fault : Option Nat) : List CStep :=
  (((ctxEnter cs).zipIdx.filter (fun p => match fault with | some i => decide (p.2 < i) | none => true)).map (·.1)).filter
    (·.kind.isFsEffect)

/-! ### where the parse (and with it the formatting stage) runs -/

/-- the working directory after the given steps when none of them fails: the bookkeeping of `step1`, nothing else -/
def cwdTrack (chdirSteps : List CStep) : Cwd → List Step → Cwd
  | cwd, [] => cwd
  | cwd, s :: rest =>
    match s.kind with
    | .chdirEnter => cwdTrack chdirSteps (cwdInside chdirSteps) rest
    | .chdirExit => cwdTrack chdirSteps (cwdAfter chdirSteps none) rest
    | .osChdir => cwdTrack chdirSteps .target rest
    | _ => cwdTrack chdirSteps cwd rest

/-- the steps of a segment that come before the first step named `w` -/
def stepsBefore (w : String) (steps : List Step) : List Step := steps.takeWhile (fun s => s.what != w)

def noEncodeCheck (steps : List Step) : Bool := steps.all (fun s => s.kind != .encodeCheck)

/-- Reviewed shape of the part of `generate()` that decides WHERE the formatters look for their configuration
(`CodeFormatter.__init__`: `settings_path = Path.cwd()` when none is given; isort's first-party detection and the `ruff`
child processes use the process's working directory): there is exactly one `with chdir(…)` region, it is entered with the
source text `chdir(output)`, the one step inside it is `parser.parse()`, `parse()` is not handed a settings path (or an
opaque `**` splat / positional argument), and the context manager switches to `path if path.is_dir() else path.parent`. -/
def parseInsideChdirOutput (pre : List Step) (chdirSome : List CStep) (parseArgs : List String) : Bool :=
  (pre.filter (fun s => s.kind == .chdirEnter)).map (·.what) == ["chdir(output)"] &&
  (insideChdir pre false).map (fun s => (s.kind, s.what)) == [(.mayRaise, "parser.parse")] &&
  !parseArgs.contains "settings_path" && !parseArgs.contains "**" && !parseArgs.contains "<positional>" &&
  (chdirSome.filter (fun c => c.kind == .chdirTarget)).map (·.what) == ["path if path.is_dir() else path.parent"]

def keyUnderOutput (e : String) : Bool := e == "output" || e == "output.joinpath(*name)"

def EncodableAll (env : Env) : Prop := ∀ m ∈ env.mods, env.encodable m.2 = true

/-! ### refusals: the `raise` statements of `generate()` with the conditions that guard them -/

/-- one `raise` statement reachable from `generate()` (its own, or one of a module-level helper it calls — then the
conditions of the call site come first): where it is, what is raised, with which message, under which conditions
(normalised source of the enclosing `if` tests in order; `not (…)` for an `else` branch; `except …` for a handler), and
where it stands relative to `parser.parse()` and to the first file-system effect. -/
structure Refusal where
  fn : String
  exc : String
  msg : String
  conds : List String
  afterParse : Bool
  beforeFirstWrite : Bool
  deriving DecidableEq, Repr

/-- what `parser.parse()` returned: nothing, one text (single module), a dict of modules -/
inductive ResultKind where
  | nothing | single | modular
  deriving DecidableEq, Repr

/-- the `output=` argument as the refusal conditions see it -/
structure OutputArg where
  isNone : Bool
  hasSuffix : Bool   -- `output.suffix` is non-empty: the path is file-like (`models.py`)
  deriving DecidableEq, Repr

inductive Decision where
  | proceeds
  | refused (msg : String)
  | unreviewed (cond : String)   -- a condition the model does not know how to evaluate
  deriving DecidableEq, Repr

/-- THE CONTRACT (property text: "modular result requested into a single file" is a failure; README/docs: "Modular references
require an output directory"): after a successful parse the run is refused iff there are no models, or the result is modular
and the output is stdout or a file-like path. Everything else proceeds to the write loop. -/
def contractDecision (r : ResultKind) (o : OutputArg) : Decision :=
  match r with
  | .nothing => .refused "Models not found in the input data"
  | .single => .proceeds
  | .modular =>
    if o.isNone then .refused "Modular references require an output directory"
    else if o.hasSuffix then .refused "Modular references require an output directory, not a file"
    else .proceeds

/-- the reviewed atoms of the after-parse conditions; `none` = not an atom the model knows.
`output.suffix` is only evaluated on a path (the code tests `output is None` first). -/
def evalCond (r : ResultKind) (o : OutputArg) (c : String) : Option Bool :=
  if c == "not results" then some (r == .nothing)
  else if c == "isinstance(results, str)" then some (r == .single)
  else if c == "not (isinstance(results, str))" then some (r != .single)
  else if c == "output is None" then some o.isNone
  else if c == "not (output is None)" then some (!o.isNone)
  else if c == "output.suffix" then (if o.isNone then none else some o.hasSuffix)
  else none

/-- all conditions of one refusal, left to right with short-circuit (as nested `if`s evaluate) -/
def condsHold (r : ResultKind) (o : OutputArg) : List String → Decision
  | [] => .refused ""
  | c :: cs => match evalCond r o c with
    | none => .unreviewed c
    | some false => .proceeds
    | some true => condsHold r o cs

/-- what the EXTRACTED table decides after a successful parse: the first refusal (source order) that stands after
`parser.parse()` and whose conditions hold. -/
def tableDecision (r : ResultKind) (o : OutputArg) : List Refusal → Decision
  | [] => .proceeds
  | x :: xs =>
    if x.afterParse then
      match condsHold r o x.conds with
      | .refused _ => .refused x.msg
      | .unreviewed c => .unreviewed c
      | .proceeds => tableDecision r o xs
    else tableDecision r o xs

def allResultKinds : List ResultKind := [.nothing, .single, .modular]
def allOutputArgs : List OutputArg := [⟨true, false⟩, ⟨true, true⟩, ⟨false, false⟩, ⟨false, true⟩]

/-- the extracted refusals decide exactly what the contract says, for every kind of result and of output argument -/
def tableMeetsContract (t : List Refusal) : Bool :=
  allResultKinds.all fun r => allOutputArgs.all fun o => tableDecision r o t == contractDecision r o

/-- first (result, output) on which table and contract differ -/
def contractRefuter (t : List Refusal) : Option (ResultKind × OutputArg) :=
  (allResultKinds.flatMap fun r => allOutputArgs.map fun o => (r, o)).find? fun p => tableDecision p.1 p.2 t != contractDecision p.1 p.2

/-- every reviewed refusal is in the extracted table exactly as reviewed -/
def reviewedPresent (reviewed t : List Refusal) : Bool := reviewed.all fun r => t.contains r

end Dcg.Model.Write
