import Dcg.Model.Key
/-
Dcg.Model.Config — how the effective option values of a CLI run are computed
(`__main__.py`: `_get_pyproject_toml_config`, `Config.parse_obj`, `Config.merge_args`).

Option names and values are `k!` keys (Dcg/Model/Key.lean) of canonical texts (the harness
canonicalises the real values the same way: `True`/`False`/`None`, enum members by value, lists as
`[a,b]`), so that the table theorems are cheap for the kernel. Option maps are association lists; a CLI namespace carries `none` for every option that was not given (argparse default `None`).

  parse E m        = Config.parse_obj(m): defaults overridden by `m`, then the coupling
                     `use_annotated ⇒ field_constraints` (validator `validate_root`), then the
                     cross-field validators (`E.valid`; `none` = `Error` raised)
  setArgs cli      = the dict `set_args` built by `merge_args`: the CLI values that are not None,
                     then `output_model_type == "msgspec.Struct" ⇒ use_annotated := True`,
                     then `use_annotated ⇒ field_constraints := True`
  merge E py cli   = `Config.parse_obj(py)` followed by `.merge_args(cli)`: the keys of `set_args`
                     are overwritten by `Config.parse_obj(set_args)`, every other key keeps the
                     pyproject/default value.
Reviewed exception lists for the table theorems of C18 live at the end of this file.
-/
namespace Dcg.Model.Config

abbrev Key := Nat
abbrev Val := Nat
abbrev OptMap := List (Key × Val)
abbrev Cfg := Key → Val

/-- Python truthiness of a canonical value -/
def truthy (v : Val) : Bool := !(v == k! "False" || v == k! "None" || v == k! "" || v == k! "[]" || v == k! "{}")

structure Env where
  /-- `Config` field defaults -/
  defaults : Key → Val
  /-- the cross-field validators of `Config` (`false` = `Error` is raised) -/
  valid : Cfg → Bool

def kUA : Key := k! "use_annotated"
def kFC : Key := k! "field_constraints"
def kOMT : Key := k! "output_model_type"
def msgspec : Val := k! "msgspec.Struct"

/-- last binding wins, as in a Python dict built by successive assignments -/
def upsert (m : OptMap) (k : Key) (v : Val) : OptMap := (k, v) :: m.filter (fun kv => kv.1 != k)

def over (d : Key → Val) (m : OptMap) : Cfg := fun k => (m.lookup k).getD (d k)

/-- `validate_root`: `if self.use_annotated: self.field_constraints = True` -/
def validateRoot (c : Cfg) : Cfg := fun k => if k = kFC ∧ truthy (c kUA) = true then k! "True" else c k

def parse (E : Env) (m : OptMap) : Option Cfg :=
  let c := validateRoot (over E.defaults m)
  if E.valid c then some c else none

/-- the CLI values that were given -/
def given (cli : List (Key × Option Val)) : OptMap :=
  cli.filterMap (fun kv => kv.2.map (fun v => (kv.1, v)))

def coupleMsgspec (s : OptMap) : OptMap :=
  if s.lookup kOMT = some msgspec then upsert s kUA (k! "True") else s

def coupleAnnotated (s : OptMap) : OptMap :=
  if ((s.lookup kUA).map truthy).getD false = true then upsert s kFC (k! "True") else s

def setArgs (cli : List (Key × Option Val)) : OptMap := coupleAnnotated (coupleMsgspec (given cli))

def hasKey (s : OptMap) (k : Key) : Bool := (s.lookup k).isSome

def merge (E : Env) (py : OptMap) (cli : List (Key × Option Val)) : Option Cfg :=
  match parse E py, parse E (setArgs cli) with
  | some c, some p => some (fun k => if hasKey (setArgs cli) k then p k else c k)
  | _, _ => none

/-- a set of options given on the command line only -/
def viaCli (E : Env) (opts : OptMap) : Option Cfg := merge E [] (opts.map (fun kv => (kv.1, some kv.2)))
/-- the same options given in pyproject.toml only -/
def viaPyproject (E : Env) (opts : OptMap) : Option Cfg := merge E opts []

/-! ### `_get_pyproject_toml_config`: key normalisation -/

def snake (k : String) : String := String.ofList (k.toList.map (fun c => if c = '-' then '_' else c))

/-- dict comprehension `{k.replace("-", "_"): v …}` (a later duplicate overwrites), then the
US spelling `capitalize_enum_members` is renamed unless the British one is present -/
def normaliseKeys (raw : List (String × String)) : List (String × String) :=
  let m := raw.foldl (fun acc kv => acc.filter (fun e => e.1 != snake kv.1) ++ [(snake kv.1, kv.2)]) []
  match m.lookup "capitalize_enum_members", m.lookup "capitalise_enum_members" with
  | some v, none => m.filter (fun e => e.1 != "capitalize_enum_members") ++ [("capitalise_enum_members", v)]
  | _, _ => m

/-! ### `_get_pyproject_toml_config`: discovery of the nearest pyproject.toml -/

/-- what the walk sees in one directory: a pyproject.toml that has a `[tool.datamodel-codegen]`
section (a pyproject.toml without the section is skipped), a `.git` entry -/
structure Dir where
  hasSection : Bool
  hasGit : Bool
  deriving Repr, DecidableEq

/-- `dirs` is the chain cwd, parent, grand-parent, … (the file-system root itself is never looked at);
result: index of the directory whose section is used, `none` = no configuration -/
def discover : List Dir → Option Nat
  | [] => none
  | d :: ds => if d.hasSection then some 0 else if d.hasGit then none else (discover ds).map (· + 1)

/-! ### The concrete validators of `Config` (used by the driver; the lemmas hold for any `valid`) -/

def isSet (v : Val) : Bool := v != k! "None"

def validConcrete (kwOnlyTargets : List Nat) (c : Cfg) : Bool :=
  -- validate_original_field_name_delimiter
  !(isSet (c (k! "original_field_name_delimiter")) && !truthy (c (k! "snake_case_field"))) &&
  -- validate_custom_file_header
  !(truthy (c (k! "custom_file_header")) && truthy (c (k! "custom_file_header_path"))) &&
  -- validate_keyword_only
  !(truthy (c (k! "keyword_only")) && c kOMT == k! "dataclasses.dataclass" &&
      !kwOnlyTargets.contains (c (k! "target_python_version"))) &&
  -- validate_output_datetime_class
  !(truthy (c (k! "output_datetime_class")) && c (k! "output_datetime_class") != k! "datetime" &&
      c kOMT == k! "dataclasses.dataclass")

/-! ### Reviewed exception lists (C18 table theorems) -/

/-- the reviewed test by which `merge_args` decides that an option was given on the command line: identity with
`None`, NOT truthiness — an empty string (`--special-field-name-prefix ""`), like any other falsy value, is a
given value (`given` keeps `some v` for every `v`) -/
def reviewedMergeFilters : List Nat := [k! "getattr(args, f) is not None"]

/-- argparse actions that are not generator options -/
def metaDests : List Nat := [k! "help", k! "no_color", k! "version"]

/-- `Config` fields consumed by `main()` itself (logging / warnings), not generator options -/
def consumedInMain : List Nat := [k! "debug", k! "disable_warnings"]

/-- reviewed renames `Config` field → `generate()` keyword -/
def renames : List (Nat × Nat) :=
  [(k! "use_default", k! "apply_default_values_for_required_fields"),
   (k! "force_optional", k! "force_optional_for_required_fields")]

def rename (f : Nat) : Nat := (renames.lookup f).getD f

/-- `Config` fields that reach `generate()` through a reviewed expression other than `config.<field>`:
file-valued options are opened by the `Config` validator, loaded with `json.load` in `main()` into a local
of the same name; `input`/`url` are combined into `input_`. (field, keyword, expression text) -/
def specialForward : List (Nat × Nat × Nat) :=
  [(k! "extra_template_data", k! "extra_template_data", k! "extra_template_data"),
   (k! "aliases", k! "aliases", k! "aliases"),
   (k! "custom_formatters_kwargs", k! "custom_formatters_kwargs", k! "custom_formatters_kwargs"),
   (k! "input", k! "input_", k! "config.url or config.input or sys.stdin.read()"),
   (k! "url", k! "input_", k! "config.url or config.input or sys.stdin.read()")]

/-- parameters of `generate()` that are consumed by `generate()` itself (input handling, output writing,
model-class selection) instead of being passed to the parser under their own name; with where they go -/
def consumedInGenerate : List (Nat × Nat) :=
  [(k! "input_", k! "source=, base_path="),
   (k! "input_filename", k! "file header"),
   (k! "input_file_type", k! "selects parser_class"),
   (k! "output", k! "chdir + file map"),
   (k! "output_model_type", k! "get_data_model_types"),
   (k! "disable_timestamp", k! "file header"),
   (k! "enable_version_header", k! "file header"),
   (k! "custom_file_header", k! "file header"),
   (k! "custom_file_header_path", k! "file header"),
   (k! "graphql_scopes", k! "unused (noqa: ARG001), not a CLI option"),
   (k! "union_mode", k! "default_field_extras="),
   (k! "output_datetime_class", k! "target_datetime_class= and get_data_model_types"),
   (k! "openapi_scopes", k! "kwargs[\"openapi_scopes\"] for OpenAPIParser only")]

/-- reviewed non-identity expressions in the `parser_class(...)` call (keyword, expression text) -/
def parserCallSpecial : List (Nat × Nat) :=
  [(k! "enum_field_as_literal",
    k! "LiteralType.All if output_model_type == DataModelType.TypingTypedDict else enum_field_as_literal"),
   (k! "set_default_enum_member",
    k! "True if output_model_type == DataModelType.DataclassesDataclass else set_default_enum_member")]

/-- (Config field) whose default differs from the default of the `generate()` parameter, reviewed:
`strict_types` `[]` vs `None` (both falsy, `strict_types or ()`), `openapi_scopes` `[schemas]` vs `None`
(OpenAPIParser: `openapi_scopes or [OpenAPIScope.Schemas]`), `encoding` (locale default vs "utf-8") -/
def defaultDiffers : List Nat := [k! "strict_types", k! "openapi_scopes", k! "encoding"]

/-- subclass constructor parameters not forwarded by name to `Parser.__init__` (consumed by the subclass) -/
def subclassOwnParams : List (Nat × Nat) :=
  [(k! "OpenAPIParser", k! "openapi_scopes"),
   (k! "GraphQLParser", k! "data_model_scalar_type"), (k! "GraphQLParser", k! "data_model_union_type")]

/-! ### Path-valued options (C18: the same normalisation on every route) -/

/-- reviewed: the `Config` fields whose value is a location — a `Path` (`path`) or a text file that the validator opens
(`file`); a new path-valued option has to be added here (and gets a fixture in vlib/props/c18_paths.py) -/
def reviewedPathFields : List (Nat × Nat) :=
  [(k! "input", k! "path"), (k! "output", k! "path"), (k! "custom_template_dir", k! "path"),
   (k! "extra_template_data", k! "file"), (k! "aliases", k! "file"), (k! "custom_file_header_path", k! "path"),
   (k! "custom_formatters_kwargs", k! "file")]

/-- the validator that normalises a field of each kind -/
def pathValidator (kind : Nat) : Nat := if kind = k! "path" then k! "validate_path" else k! "validate_file"

/-- reviewed source form of the two validators: `None` and an already built object pass through untouched, a STRING is
`Path(value).expanduser().resolve()` (what Dcg/Model/PathNorm models) -/
def reviewedValidatorBranches : List (Nat × List (Nat × Nat)) :=
  [(k! "validate_file",
    [(k! "value is None or isinstance(value, TextIOBase)", k! "value"),
     (k! "else", k! "cast('TextIOBase', Path(value).expanduser().resolve().open('rt'))")]),
   (k! "validate_path",
    [(k! "value is None or isinstance(value, Path)", k! "value"),
     (k! "else", k! "Path(value).expanduser().resolve()")])]

/-- argparse `type=` values that leave the command-line text a `str`, so that the validator is handed the same thing on
the command-line route and on the pyproject.toml route -/
def strTypes : List Nat := [k! "None", k! "str"]

/-- KNOWN FINDING C18-filetype: options whose command-line text argparse itself opens (`type=FileType("rt")`: `open(text)`,
no `expanduser`, relative to the working directory) before the validator sees it -/
def cliOpensRawString : List Nat := [k! "extra_template_data", k! "aliases", k! "custom_formatters_kwargs"]

end Dcg.Model.Config
