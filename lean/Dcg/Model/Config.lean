/-
Dcg.Model.Config — how the effective option values of a CLI run are computed
(`__main__.py`: `_get_pyproject_toml_config`, `Config.parse_obj`, `Config.merge_args`).

Values are canonical texts (the harness canonicalises the real values the same way:
`True`/`False`/`None`, enum members by value, lists as `[a,b]`). Option maps are association
lists; a CLI namespace carries `none` for every option that was not given (argparse default `None`).

  parse E m        = Config.parse_obj(m): defaults overridden by `m`, then the coupling
                     `use_annotated ⇒ field_constraints` (validator `validate_root`), then the
                     cross-field validators (`E.valid`; `none` = `Error` raised)
  setArgs cli      = the dict `set_args` built by `merge_args`: the CLI values that are not None,
                     then `output_model_type == "msgspec.Struct" ⇒ use_annotated := True`,
                     then `use_annotated ⇒ field_constraints := True`
  merge E py cli   = `Config.parse_obj(py)` followed by `.merge_args(cli)`: the keys of `set_args`
                     are overwritten by `Config.parse_obj(set_args)`, every other key keeps the
                     pyproject/default value.
Reviewed exception lists for the table theorems of C18 live at the end of this file.
-/
namespace Dcg.Model.Config

abbrev Key := String
abbrev Val := String
abbrev OptMap := List (Key × Val)
abbrev Cfg := Key → Val

/-- Python truthiness of a canonical value -/
def truthy (v : Val) : Bool := !(v == "False" || v == "None" || v == "" || v == "[]" || v == "{}")

structure Env where
  /-- `Config` field defaults -/
  defaults : Key → Val
  /-- the cross-field validators of `Config` (`false` = `Error` is raised) -/
  valid : Cfg → Bool

def kUA : Key := "use_annotated"
def kFC : Key := "field_constraints"
def kOMT : Key := "output_model_type"
def msgspec : Val := "msgspec.Struct"

/-- last binding wins, as in a Python dict built by successive assignments -/
def upsert (m : OptMap) (k : Key) (v : Val) : OptMap := (k, v) :: m.filter (fun kv => kv.1 != k)

def over (d : Key → Val) (m : OptMap) : Cfg := fun k => (m.lookup k).getD (d k)

/-- `validate_root`: `if self.use_annotated: self.field_constraints = True` -/
def validateRoot (c : Cfg) : Cfg := fun k => if k = kFC ∧ truthy (c kUA) = true then "True" else c k

def parse (E : Env) (m : OptMap) : Option Cfg :=
  let c := validateRoot (over E.defaults m)
  if E.valid c then some c else none

/-- the CLI values that were given -/
def given (cli : List (Key × Option Val)) : OptMap :=
  cli.filterMap (fun kv => kv.2.map (fun v => (kv.1, v)))

def coupleMsgspec (s : OptMap) : OptMap :=
  if s.lookup kOMT = some msgspec then upsert s kUA "True" else s

def coupleAnnotated (s : OptMap) : OptMap :=
  if ((s.lookup kUA).map truthy).getD false = true then upsert s kFC "True" else s

def setArgs (cli : List (Key × Option Val)) : OptMap := coupleAnnotated (coupleMsgspec (given cli))

def hasKey (s : OptMap) (k : Key) : Bool := (s.lookup k).isSome

def merge (E : Env) (py : OptMap) (cli : List (Key × Option Val)) : Option Cfg :=
  match parse E py, parse E (setArgs cli) with
  | some c, some p => some (fun k => if hasKey (setArgs cli) k then p k else c k)
  | _, _ => none

/-- a set of options given on the command line only -/
def viaCli (E : Env) (opts : OptMap) : Option Cfg := merge E [] (opts.map (fun kv => (kv.1, some kv.2)))
/-- the same options given in pyproject.toml only -/
def viaPyproject (E : Env) (opts : OptMap) : Option Cfg := merge E opts []

/-! ### `_get_pyproject_toml_config`: key normalisation -/

def snake (k : String) : String := String.ofList (k.toList.map (fun c => if c = '-' then '_' else c))

/-- dict comprehension `{k.replace("-", "_"): v …}` (a later duplicate overwrites), then the
US spelling `capitalize_enum_members` is renamed unless the British one is present -/
def normaliseKeys (raw : OptMap) : OptMap :=
  let m := raw.foldl (fun acc kv => acc.filter (fun e => e.1 != snake kv.1) ++ [(snake kv.1, kv.2)]) []
  match m.lookup "capitalize_enum_members", m.lookup "capitalise_enum_members" with
  | some v, none => m.filter (fun e => e.1 != "capitalize_enum_members") ++ [("capitalise_enum_members", v)]
  | _, _ => m

/-! ### `_get_pyproject_toml_config`: discovery of the nearest pyproject.toml -/

/-- what the walk sees in one directory: a pyproject.toml that has a `[tool.datamodel-codegen]`
section (a pyproject.toml without the section is skipped), a `.git` entry -/
structure Dir where
  hasSection : Bool
  hasGit : Bool
  deriving Repr, DecidableEq

/-- `dirs` is the chain cwd, parent, grand-parent, … (the file-system root itself is never looked at);
result: index of the directory whose section is used, `none` = no configuration -/
def discover : List Dir → Option Nat
  | [] => none
  | d :: ds => if d.hasSection then some 0 else if d.hasGit then none else (discover ds).map (· + 1)

/-! ### The concrete validators of `Config` (used by the driver; the lemmas hold for any `valid`) -/

def isSet (v : Val) : Bool := v != "None"

def validConcrete (kwOnlyTargets : List String) (c : Cfg) : Bool :=
  -- validate_original_field_name_delimiter
  !(isSet (c "original_field_name_delimiter") && !truthy (c "snake_case_field")) &&
  -- validate_custom_file_header
  !(truthy (c "custom_file_header") && truthy (c "custom_file_header_path")) &&
  -- validate_keyword_only
  !(truthy (c "keyword_only") && c kOMT == "dataclasses.dataclass" &&
      !kwOnlyTargets.contains (c "target_python_version")) &&
  -- validate_output_datetime_class
  !(truthy (c "output_datetime_class") && c "output_datetime_class" != "datetime" &&
      c kOMT == "dataclasses.dataclass")

/-! ### Reviewed exception lists (C18 table theorems) -/

/-- argparse actions that are not generator options -/
def metaDests : List String := ["help", "no_color", "version"]

/-- `Config` fields consumed by `main()` itself (logging / warnings), not generator options -/
def consumedInMain : List String := ["debug", "disable_warnings"]

/-- reviewed renames `Config` field → `generate()` keyword -/
def renames : List (String × String) :=
  [("use_default", "apply_default_values_for_required_fields"),
   ("force_optional", "force_optional_for_required_fields")]

def rename (f : String) : String := (renames.lookup f).getD f

/-- `Config` fields that reach `generate()` through a reviewed expression other than `config.<field>`:
file-valued options are opened by the `Config` validator, loaded with `json.load` in `main()` into a local
of the same name; `input`/`url` are combined into `input_`. (field, keyword, expression text) -/
def specialForward : List (String × String × String) :=
  [("extra_template_data", "extra_template_data", "extra_template_data"),
   ("aliases", "aliases", "aliases"),
   ("custom_formatters_kwargs", "custom_formatters_kwargs", "custom_formatters_kwargs"),
   ("input", "input_", "config.url or config.input or sys.stdin.read()"),
   ("url", "input_", "config.url or config.input or sys.stdin.read()")]

/-- parameters of `generate()` that are consumed by `generate()` itself (input handling, output writing,
model-class selection) instead of being passed to the parser under their own name; with where they go -/
def consumedInGenerate : List (String × String) :=
  [("input_", "source=, base_path="),
   ("input_filename", "file header"),
   ("input_file_type", "selects parser_class"),
   ("output", "chdir + file map"),
   ("output_model_type", "get_data_model_types"),
   ("disable_timestamp", "file header"),
   ("enable_version_header", "file header"),
   ("custom_file_header", "file header"),
   ("custom_file_header_path", "file header"),
   ("graphql_scopes", "unused (noqa: ARG001), not a CLI option"),
   ("union_mode", "default_field_extras="),
   ("output_datetime_class", "target_datetime_class= and get_data_model_types"),
   ("openapi_scopes", "kwargs[\"openapi_scopes\"] for OpenAPIParser only")]

/-- reviewed non-identity expressions in the `parser_class(...)` call (keyword, expression text) -/
def parserCallSpecial : List (String × String) :=
  [("enum_field_as_literal",
    "LiteralType.All if output_model_type == DataModelType.TypingTypedDict else enum_field_as_literal"),
   ("set_default_enum_member",
    "True if output_model_type == DataModelType.DataclassesDataclass else set_default_enum_member")]

/-- (Config field) whose default differs from the default of the `generate()` parameter, reviewed:
`strict_types` `[]` vs `None` (both falsy, `strict_types or ()`), `openapi_scopes` `[schemas]` vs `None`
(OpenAPIParser: `openapi_scopes or [OpenAPIScope.Schemas]`), `encoding` (locale default vs "utf-8") -/
def defaultDiffers : List String := ["strict_types", "openapi_scopes", "encoding"]

/-- subclass constructor parameters not forwarded by name to `Parser.__init__` (consumed by the subclass) -/
def subclassOwnParams : List (String × String) :=
  [("OpenAPIParser", "openapi_scopes"),
   ("GraphQLParser", "data_model_scalar_type"), ("GraphQLParser", "data_model_union_type")]

end Dcg.Model.Config
