import Dcg.Model.TemplateAbs
import Dcg.Model.Sites
/-
Dcg.Model.TemplateBlock — the *block shape* of a rendered class: a small automaton over the
characters of the output that recognises a top-level class header (a line that starts with
`class ` in column 0), checks that the header line ends in `:` (before an optional `#` comment),
that the next non-blank line exists and is indented by at least 4 spaces (the class has a body),
and that every later line is blank or indented by at least 4 spaces (the class is one block).
`good`/`goodClass` on the final state is the SPECIFICATION of "the text is one well-formed class
block"; `blockAuto` adds what interpolation sites of each reviewed class (`Model/Sites`) may do to
the automaton, under the value invariants stated in `BlockHyp` (`Dcg/Proofs/TemplateBlock.lean`).
-/
namespace Dcg.Model.TemplateBlock
open Dcg.Model.TemplateSyntax Dcg.Model.Template Dcg.Model.TemplateAbs Dcg.Model.Sites

inductive Pos where
  | lead            -- only spaces so far on this line
  | kw (k : Nat)    -- column 0: the first k characters of "class" have been read (1 ≤ k ≤ 5)
  | body            -- anything else
  deriving DecidableEq, Repr

inductive Phase where
  | pre      -- no class header seen yet
  | first    -- the header line is complete; no line of the body seen yet
  | inBody   -- at least one body line seen
  deriving DecidableEq, Repr

structure BSt where
  ind : Nat        -- leading spaces of the current line, capped at 4 (meaningful while `pos = lead`)
  pos : Pos
  hdr : Bool       -- the current line starts with `class ` in column 0
  colon : Bool     -- header line: the last non-blank character before any `#` is `:`
  cmt : Bool       -- header line: a `#` has been read
  phase : Phase
  bad : Bool       -- sticky: the shape is violated
  deriving DecidableEq, Repr

def BSt.init : BSt := ⟨0, .lead, false, false, false, .pre, false⟩

def classKw : List Char := ['c', 'l', 'a', 's', 's']

/-- first non-blank character of a line: the indentation rules are applied here -/
def BSt.startContent (b : BSt) (c : Char) : BSt :=
  { b with
    bad := b.bad || (b.phase != .pre && b.ind < 4),
    phase := if b.phase == .first && b.ind ≥ 4 then .inBody else b.phase,
    pos := if b.ind == 0 && c == 'c' then .kw 1 else .body }

def bstep (b : BSt) (c : Char) : BSt :=
  if c = '\n' then
    { ind := 0, pos := .lead, hdr := false, colon := false, cmt := false,
      phase := if b.hdr && b.colon then .first else b.phase,
      bad := b.bad || (b.hdr && !b.colon) }
  else if c = ' ' then
    match b.pos with
    | .lead => { b with ind := min 4 (b.ind + 1) }
    | .kw k => if k == 5 then { b with hdr := true, pos := .body } else { b with pos := .body }
    | .body => b
  else
    match b.pos with
    | .lead => b.startContent c
    | .kw k => if classKw[k]? == some c then { b with pos := .kw (k + 1) } else { b with pos := .body }
    | .body =>
      if b.hdr && !b.cmt then
        (if c = '#' then { b with cmt := true } else { b with colon := c == ':' })
      else b

/-- no violation, the text does not end on the header line, and a header (if any) has a body -/
def good (b : BSt) : Bool := !b.bad && !b.hdr && b.phase != .first
/-- … and there IS a class -/
def goodClass (b : BSt) : Bool := good b && b.phase == .inBody

/-! ### interpolation sites -/

inductive SlotKind where
  | word (header : Bool)   -- one line, does not start with a blank, is not the keyword `class`;
                           -- `header`: may stand in the class header line (contains no `#`)
  | line                   -- one line, otherwise arbitrary (comment text)
  | doc                    -- `… | escape_docstring | indent(4)`
  | none
  deriving DecidableEq, Repr

/-- sites that occur in class header lines -/
def headerSites : List String := ["class_name", "base_class", "key", "value", "_fields[0].type_hint"]

def slotKind (e : Expr) : SlotKind :=
  let bf := e.unfilter
  match classify bf.1.src (bf.2.map Filter.name) with
  | .identifier | .typeExpr | .reprValue | .baseExpr | .codeSlot =>
    if bf.2.isEmpty then .word (headerSites.contains bf.1.src) else .none
  -- an escaped TypedDict key stands between the template's quotes, never at the start of a line: it
  -- is one line and otherwise arbitrary (the wire name `class` is a legitimate key)
  | .escapedKey => if bf.2.isEmpty then .line else .none
  | .templateData => if bf.2.isEmpty then .line else .none
  | .commentLine => .line
  | .docText => if bf.2 == [.escapeDocstring, .indent 4] then .doc else .none
  | _ => .none

/-- after a `word` value written at the start of a line -/
def wordAtLead (b : BSt) : List BSt :=
  let b1 := b.startContent 'x'     -- first character is not `c`
  if b.ind == 0 then
    [b, b1, { b1 with pos := .kw 1 }, { b1 with pos := .kw 2 }, { b1 with pos := .kw 3 }, { b1 with pos := .kw 4 }]
  else [b, b1]

def bslot (e : Expr) (b : BSt) : Option (List BSt) :=
  match slotKind e, b.pos with
  | .none, _ => none
  | _, .kw _ => none
  | .word _, .lead => if b.hdr then none else some (wordAtLead b)
  | .word h, .body =>
    if !b.hdr || b.cmt then some [b]
    else if h then some [b, { b with colon := true }, { b with colon := false }]
    else some [b, { b with colon := true }, { b with colon := false },
               { b with cmt := true }, { b with cmt := true, colon := true }, { b with cmt := true, colon := false }]
  | .line, .lead => none
  | .line, .body =>
    if !b.hdr || b.cmt then some [b]
    else some [b, { b with colon := true }, { b with colon := false },
               { b with cmt := true }, { b with cmt := true, colon := true }, { b with cmt := true, colon := false }]
  | .doc, .lead =>
    -- the text starts behind the 4 blanks the template writes; every further line is blank or
    -- indented by 4 (`indent(4)`), so it can neither be a header nor leave the block
    if b.ind == 4 && !b.hdr && !b.colon && !b.cmt then
      let adv : Phase := if b.phase == .first then .inBody else b.phase
      some [b, { b with pos := .body, phase := adv }, { b with ind := 0 }, { b with ind := 0, phase := adv },
            { b with phase := adv }]
    else none
  | .doc, .body => none

def boneLine (e : Expr) : Bool :=
  (match slotKind e with
   | .word _ => true
   | .line => true
   | _ => false) && filterBlockSites.contains e.unfilter.1.src

def blockAuto : Auto := { Q := BSt, step := bstep, slot := bslot, oneLine := boneLine }

end Dcg.Model.TemplateBlock
