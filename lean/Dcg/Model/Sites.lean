/-
Dcg.Model.Sites — reviewed classification of what each template expression can carry,
and in which Python lexical state a value of that class may be interpolated.
The list of sites itself is generated from the templates (Dcg/Gen/Templates).
-/
namespace Dcg.Model.Sites

inductive VClass where
  | identifier    -- a sanitised Python identifier (C07) or a dotted class name
  | typeExpr      -- a rendered type hint / annotation (C13)
  | reprValue     -- text produced by `repr()`, by an escape table, or a Field(...) call built from them
  | baseExpr      -- comma separated base-class expressions (identifiers, dotted names)
  | escapedKey    -- TypedDict key escaped by `typed_dict.escape_characters`
  | codeSlot      -- intended code slot (decorators, methods: user-supplied code, out of scope)
  | templateData  -- value of --extra-template-data (user-supplied, out of scope)
  | rawInput      -- schema text copied without any escaping
  | docText       -- schema text passed through the `escape_docstring` filter
  | includeT      -- `{% include %}` of another template
  | loopHeader    -- `{% for … %}` header: produces no output
  | commentLine   -- one element of `field.docstring.splitlines()`: raw input without line terminators
  | unknown
  deriving DecidableEq, Repr

def classifyExpr (expr : String) : VClass :=
  if expr ∈ ["class_name", "field.name", "field_name", "key", "fields[0].name"] then .identifier
  else if expr ∈ ["field.type_hint", "field.annotated", "py_type", "get_type_hint(fields)",
                   "_fields[0].type_hint"] then .typeExpr
  else if expr ∈ ["field.field", "field.default", "field.represented_default", "value"] then .reprValue
  else if expr = "base_class" then .baseExpr
  else if expr = "field.key" then .escapedKey
  else if expr ∈ ["decorator", "method"] then .codeSlot
  else if expr = "comment" then .templateData
  else if expr ∈ ["description", "field.docstring"] then .rawInput
  else if expr.startsWith "include:" then .includeT
  else if expr.startsWith "for:" then .loopHeader
  else if expr = "line" then .commentLine
  else .unknown

/-- classification of a site: expression plus the filters applied to it -/
def classify (expr : String) (filters : List String := []) : VClass :=
  match classifyExpr expr with
  | .rawInput => if filters.contains "escape_docstring" then .docText else .rawInput
  | c => c

/-- where a value of each class may stand. `rawInput` is allowed nowhere: every such site is
a finding and must be on the reviewed list. -/
def allowed : VClass → String → Bool
  | .identifier, st => st == "code" || st == "sq"
  | .typeExpr, st => st == "code"
  | .reprValue, st => st == "code"
  | .baseExpr, st => st == "code"
  | .escapedKey, st => st == "sq"
  | .codeSlot, st => st == "code"
  | .templateData, st => st == "comment" || st == "code"
  | .includeT, st => st == "code"
  | .loopHeader, _ => true
  | .commentLine, st => st == "comment"
  | .docText, st => st == "tdq"
  | .rawInput, _ => false
  | .unknown, _ => false

/-- the sites that stand inside a `{% filter indent(4) %}` block — those of the included Config
templates (`{{ field_name }} = {{ value }}`).  Only there does it matter whether a value contains one
of the line boundaries of `str.splitlines` other than `\n` (the filter re-indents after each of them);
everywhere else only `\n` ends a line of the rendered text.  The check of a template fails
(`absSlot1`) when any other site occurs inside a filter block. -/
def filterBlockSites : List String := ["field_name", "value"]

/-- loop headers that may feed a `{{ line }}` comment site: the lines of a description, taken with
`str.splitlines()` (which removes every line terminator) -/
def reviewedLineLoops : List String :=
  ["for:lineinfield.docstring.splitlines()", "for:lineindescription.splitlines()"]

/-- the `escape_docstring` function as modelled by `Model.Escape.escDoc` -/
def docstringReplacesModelled : List (List Char × List Char) :=
  [(['\\'], ['\\', '\\']),
   (['"', '"', '"'], ['"', '"', '\\', '"']),
   ([Char.ofNat 0], ['\\', 'x', '0', '0'])]

end Dcg.Model.Sites
