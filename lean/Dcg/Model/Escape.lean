/-
Dcg.Model.Escape — `str.translate(table)` as the generator uses it for enum values
(`parser/base.py escape_characters`), TypedDict keys (`model/typed_dict.py`) and regex
patterns (`model/pydantic/types.py`).  The tables themselves are generated (Dcg/Gen/EscTables).
-/
namespace Dcg.Model.Escape

abbrev Table := List (Char × List Char)

def tr (t : Table) (c : Char) : List Char := (t.lookup c).getD [c]

def translate (t : Table) (s : List Char) : List Char := s.flatMap (tr t)

/-- the literal the generator writes: quote ++ escaped ++ quote -/
def quoted (q : Char) (t : Table) (s : List Char) : List Char := q :: translate t s ++ [q]

end Dcg.Model.Escape

namespace Dcg.Model.Escape

/-- `model/base.py escape_docstring`: `text.replace("\\", "\\\\").replace('"""', '""\\"').replace("\0", "\\x00")`
as a single left-to-right pass; `run` = number of plain double quotes just written (0, 1, 2).
(Agreement with the real function is tested by the `esc.doc` correspondence campaign; the three
replacement pairs themselves are regenerated into `Gen/EscTables.docstringReplaces`.) -/
def escDoc : Nat → List Char → List Char
  | _, [] => []
  | run, c :: r =>
    if c = '\\' then '\\' :: '\\' :: escDoc 0 r
    else if c = Char.ofNat 0 then '\\' :: 'x' :: '0' :: '0' :: escDoc 0 r
    else if c = '"' then
      (if run = 2 then '\\' :: '"' :: escDoc 0 r else '"' :: escDoc (run + 1) r)
    else c :: escDoc 0 r

/-- what the lexer does to raw newlines inside a triple-quoted literal: `\r\n`, `\r` ↦ `\n` -/
def normNL : List Char → List Char
  | [] => []
  | '\r' :: '\n' :: r => '\n' :: normNL r
  | '\r' :: r => '\n' :: normNL r
  | c :: r => c :: normNL r

end Dcg.Model.Escape
