/-
Dcg.Model.Escape — `str.translate(table)` as the generator uses it for enum values
(`parser/base.py escape_characters`), TypedDict keys (`model/typed_dict.py`) and regex
patterns (`model/pydantic/types.py`).  The tables themselves are generated (Dcg/Gen/EscTables).
-/
namespace Dcg.Model.Escape

abbrev Table := List (Char × List Char)

def tr (t : Table) (c : Char) : List Char := (t.lookup c).getD [c]

def translate (t : Table) (s : List Char) : List Char := s.flatMap (tr t)

/-- the literal the generator writes: quote ++ escaped ++ quote -/
def quoted (q : Char) (t : Table) (s : List Char) : List Char := q :: translate t s ++ [q]

end Dcg.Model.Escape
