import Dcg.Sem.Schema
import Dcg.Model.Constraints
/-
Stage 1 of the generator for the supported subset: schema ↦ intermediate representation (IR).

Transliteration of `parse_obj` / `parse_item` / `parse_object_fields` / `get_object_field` /
`parse_array_fields` / `parse_root_type` / `parse_combined_schema` / `get_data_type` +
`DataTypeManager.get_data_type` of parser/jsonschema.py and model/pydantic/types.py, for the
pydantic output styles. Class *names* are not modelled (C06/C07): a nested object is an inline
`Ty.model`, a generated root class an inline `Ty.root`, an enum class an inline `Ty.enumCls`; only
`$ref` stays a reference by definition name. Constraint keywords go through the generated tables
of `Dcg/Gen/Constraints.lean` (`conTypeKw`, `fieldKw`), values through `castValue`.
Agreement with the real parser is tested on every run (vlib/props/c03.py, IR dumps).
-/
namespace Dcg.Model.Translate
open Dcg.Sem Dcg.Model.Constraints

/-- what `Field(…)` / `con*(…)` can carry -/
structure Cons where
  ge : Option Dec := none
  gt : Option Dec := none
  le : Option Dec := none
  lt : Option Dec := none
  multipleOf : Option Dec := none
  minLength : Option Nat := none
  maxLength : Option Nat := none
  minItems : Option Nat := none
  maxItems : Option Nat := none
  regex : Option (List Char) := none
  pattern : Option (List Char) := none
  deriving DecidableEq, Repr, Inhabited

inductive KV where
  | num (d : Dec)
  | nat (n : Nat)
  | pat (p : List Char)

/-- store a value under the pydantic keyword `pk` (unknown keyword: nothing is stored) -/
def Cons.set (c : Cons) (pk : String) (v : KV) : Cons :=
  match v with
  | .num d =>
    if pk = "ge" then { c with ge := some d }
    else if pk = "gt" then { c with gt := some d }
    else if pk = "le" then { c with le := some d }
    else if pk = "lt" then { c with lt := some d }
    else if pk = "multiple_of" then { c with multipleOf := some d }
    else c
  | .nat n =>
    if pk = "min_length" then { c with minLength := some n }
    else if pk = "max_length" then { c with maxLength := some n }
    else if pk = "min_items" then { c with minItems := some n }
    else if pk = "max_items" then { c with maxItems := some n }
    else c
  | .pat p =>
    if pk = "regex" then { c with regex := some p }
    else if pk = "pattern" then { c with pattern := some p }
    else c

/-- one schema keyword: route it through the table, cast the value, store it -/
def put (route : String → Option String) (cast : String → Dec → Dec) (kw : String)
    (v : Option KV) (c : Cons) : Cons :=
  match v, route kw with
  | some (.num d), some pk => c.set pk (.num (cast pk d))
  | some x, some pk => c.set pk x
  | _, _ => c

def consOfBounds (route : String → Option String) (cast : String → Dec → Dec) (b : Bounds) : Cons :=
  put route cast "pattern" (b.pattern.map .pat) <|
  put route cast "maxLength" (b.maxLength.map .nat) <|
  put route cast "minLength" (b.minLength.map .nat) <|
  put route cast "multipleOf" (b.multipleOf.map .num) <|
  put route cast "exclusiveMaximum" (b.exclMax.map .num) <|
  put route cast "exclusiveMinimum" (b.exclMin.map .num) <|
  put route cast "maximum" (b.maximum.map .num) <|
  put route cast "minimum" (b.minimum.map .num) {}

def consOfItems (route : String → Option String) (mn mx : Option Nat) : Cons :=
  put route (fun _ d => d) "maxItems" (mx.map .nat) <|
  put route (fun _ d => d) "minItems" (mn.map .nat) {}

/-- class-level `extra` -/
inductive Extra where
  | unset | allow | forbid
  deriving DecidableEq, Repr, Inhabited

/-- the IR: data types with inline classes -/
inductive Ty where
  | any
  | null
  | scalar (p : STy) (kw : Cons)
  | const (a : Atom)
  | enumCls (vals : List Atom)
  | list (item : Ty)
  | dict (val : Ty)
  | model (fields : List (List Char × Bool × Cons × Ty)) (extra : Extra)
  | root (cons : Cons) (ty : Ty)
  /-- a class inheriting from the classes of the named definitions, with its own fields -/
  | derived (bases : List (List Char)) (fields : List (List Char × Bool × Cons × Ty)) (extra : Extra)
  | ref (name : List Char)
  | opt (t : Ty)
  | union (ts : List Ty)
  /-- `Union[…] = Field(…, discriminator=prop)`: the alternatives are classes of named definitions; each
  carries the tag literals that `Parser.__apply_discriminator_type` writes into its class -/
  | tagged (prop : List Char) (branches : List (List Atom × List Char))
  deriving Inhabited

abbrev IRDefs := List (List Char × Ty)

/-- The options that reach stage 1. `useStandardCollections … useDoubleQuotes` are the
spelling-only options: they are fields here so that their irrelevance can be *stated* (C14). -/
structure Opts where
  fieldConstraints : Bool := false
  useAnnotated : Bool := false
  useStandardCollections : Bool := false
  useGenericContainerTypes : Bool := false
  useUnionOperator : Bool := false
  useDoubleQuotes : Bool := false
  /-- options of later passes / of the writer; fields here so that "stage 1 does not read them" is a statement -/
  keepModelOrder : Bool := false
  reuseModel : Bool := false
  collapseRootModels : Bool := false
  /-- `target_python_version` as minor version (3.x) and whether the default formatters run -/
  targetMinor : Nat := 9
  formatters : Bool := false
  deriving DecidableEq, Repr, Inhabited

/-- `Parser.__init__` raises for `use_annotated` without `field_constraints` -/
def Opts.wf (o : Opts) : Bool := !o.useAnnotated || o.fieldConstraints

/-- where a schema stands: a whole document / definition (`parse_obj`), a place reached by
`parse_item` without a parent (member, `additionalProperties` value), or one reached with a
parent (array item, union alternative) whose `has_constraint` is recorded -/
inductive Ctx where
  | top
  | plain
  | item (parentHasConstraint : Bool)
  deriving DecidableEq, Repr

def famOf : STy → Option Fam
  | .integer => some .int
  | .number => some .num
  | .string => some .str
  | .boolean => none

def boundsHasConstraint (b : Bounds) : Bool :=
  b.minimum.isSome || b.maximum.isSome || b.exclMin.isSome || b.exclMax.isSome ||
  b.multipleOf.isSome || b.minLength.isSome || b.maxLength.isSome || b.pattern.isSome

/-- `get_data_type`: keyword arguments of the constrained type (none under `field_constraints`) -/
def typeCons (st : Style) (o : Opts) (ty : STy) (b : Bounds) : Cons :=
  if o.fieldConstraints then {}
  else match famOf ty with
    | some fam => consOfBounds (conTypeKw st fam) (castValue .conType fam) b
    | none => {}

/-- `Constraints.parse_obj(field.dict())` as written by `DataModelField.__str__` -/
def fieldConsOfBounds (st : Style) (ty : STy) (b : Bounds) : Cons :=
  consOfBounds (fieldKw st) (castValue .field ((famOf ty).getD .str)) b

def scalarCore (st : Style) (o : Opts) (ty : STy) (nullable : Bool) (b : Bounds) : Ty :=
  let t := Ty.scalar ty (typeCons st o ty b)
  if nullable then .opt t else t

/-- `parse_root_type` passes `constraints=obj.dict() if self.field_constraints else {}` -/
def rootCons (o : Opts) (c : Cons) : Cons := if o.fieldConstraints then c else {}

/-- how `additionalProperties` is written, as the key of the generated table `extraMap` -/
def addlLabel : Addl → String
  | .absent => "absent"
  | .allow => "true"
  | .forbid => "false"

/-- `set_additional_properties` + the `Config`/`ConfigDict` of the model class, read from the
generated table (a real parser run per case, see vlib/translate/constraints.py) -/
def extraOf (st : Style) (a : Addl) : Extra :=
  match (extraMap st).lookup (addlLabel a) with
  | some "forbid" => .forbid
  | some "allow" => .allow
  | _ => .unset

/-- `get_object_field`: `constraints=field.dict() if self.is_constraints_field(field) else None`;
`is_constraints_field` = array, or (`field_constraints` and a plain scalar) -/
def fieldCons (st : Style) (o : Opts) : Schema → Cons
  | .scalar ty _ b => if o.fieldConstraints then fieldConsOfBounds st ty b else {}
  | .array _ mn mx => consOfItems (fieldKw st) mn mx
  | _ => {}

/-- `DataModelFieldBase.process_const` (model/base.py, used by the v1-style field class): a `const`
member gets the constant as default and `required = False`; the v2 field class overrides it and
keeps `required` (known finding D30 is the v1 behaviour). -/
def constDefaulted (st : Style) : Schema → Bool
  | .const _ => st == .v1
  | _ => false

/-! ### discriminators (`Parser.__apply_discriminator_type`, parser/base.py) -/

/-- `Literal[…]` of the tag values -/
def litTy : List Atom → Ty
  | [a] => .const a
  | as => .enumCls as

/-- the tag literals of the class of definition `r`: EVERY mapping key that points at it -/
def tagAtoms (refs : List (List Char)) (mapping : List (List Char × List Char)) (r : List Char) : List Atom :=
  (tagsOf (effMapping refs mapping) r).map Atom.str

def branchesOf (refs : List (List Char)) (mapping : List (List Char × List Char)) :
    List (List Atom × List Char) :=
  refs.map (fun r => (tagAtoms refs mapping r, r))

/-- the loop over `discriminator_model.fields`: the member named like the discriminator property gets
the type `Literal[tags]` and becomes required; when there is no such member one is appended.
(The early exit `len(literals) == 1 and literals[0] == type_names[0]` needs a member that already has
a `Literal` data type: that only arises under `--enum-field-as-literal`, outside this model — a
`const` member keeps its plain type at this stage and carries the constant as a field extra.) -/
def patchFields (prop : List Char) (tags : List Atom) :
    List (List Char × Bool × Cons × Ty) → List (List Char × Bool × Cons × Ty)
  | [] => [(prop, true, {}, litTy tags)]
  | f :: fs =>
    if f.1 == prop then (prop, true, f.2.2.1, litTy tags) :: fs
    else f :: patchFields prop tags fs

/-- what the pass does to the class of one alternative (classes only) -/
def patchTag (prop : List Char) (tags : List Atom) : Ty → Ty
  | .model fields extra => .model (patchFields prop tags fields) extra
  | .derived bases fields extra => .derived bases (patchFields prop tags fields) extra
  | t => t

/-- `_parse_object_common_part`, `if required:` — the names collected from the property-less members of
`allOf` (`{"required": […]}`) mark the class's OWN fields, AFTER they were built: `field.required = True`
(also for a `const` member of v1-style output, whose constructor had made it optional). Fields are
keyed by their JSON name here; `markRequired` below is the same step on fields that also carry their
Python name. -/
def markReq (xreq : List (List Char)) (fs : List (List Char × Bool × Cons × Ty)) :
    List (List Char × Bool × Cons × Ty) :=
  fs.map (fun f => if xreq.contains f.1 then (f.1, true, f.2.2.1, f.2.2.2) else f)

mutual
/-- `parse_obj` (ctx = top) / `parse_item` (otherwise) -/
def tr (st : Style) (o : Opts) : Ctx → Schema → Ty
  | _, .any => .any
  | _, .null => .null
  | ctx, .scalar ty nullable b =>
    let core := scalarCore st o ty nullable b
    match ctx with
    | .top => .root (rootCons o (fieldConsOfBounds st ty b)) core
    | .plain => core
    | .item phc =>
      -- `if parent and not item.enum and item.has_constraint and (parent.has_constraint or self.field_constraints)`
      if boundsHasConstraint b && (phc || o.fieldConstraints) then
        .root (rootCons o (fieldConsOfBounds st ty b)) core
      else core
  | _, .enum vals => .enumCls vals
  | _, .const a => .const a
  | ctx, .array items mn mx =>
    let hc := mn.isSome || mx.isSome
    let lst := Ty.list (tr st o (.item hc) items)
    match ctx with
    | .top => .root (consOfItems (fieldKw st) mn mx) lst      -- parse_array: constraints=obj.dict()
    | .plain => lst                                             -- the member's Field() carries them
    | .item phc =>
      if hc && (phc || o.fieldConstraints) then .root (rootCons o (consOfItems (fieldKw st) mn mx)) lst
      else lst
  | _, .object props req addl => .model (trProps st o req props) (extraOf st addl)
  | _, .dict value =>
    -- a discriminator on the value schema of `additionalProperties` is not a field extra: plain Union
    .dict (if value.isDisc then .union (value.discRefs.map .ref) else tr st o .plain value)
  | ctx, .ndict _ =>
    -- `type` is a list: `is_object` is false (it compares `type == "object"`), no branch of `parse_obj` /
    -- `parse_item` looks at `additionalProperties`; `get_data_type` maps every non-null entry of the list through
    -- the type table (`object` ↦ `Dict[str, Any]`) and sets `is_optional` for the `null` entry. The value schema
    -- is NOT translated. A document / definition goes through `parse_root_type` (no constraint keyword is set).
    match ctx with
    | .top => .root {} (.opt (.dict .any))
    | _ => .opt (.dict .any)
  | _, .ref n => .ref n
  | _, .anyOf alts => .union (trAlts st o alts)
  | _, .oneOf alts => .union (trAlts st o alts)
  | ctx, .allOf refs props req xreq =>
    -- `parse_all_of` → `_parse_all_of_item` → `_parse_object_common_part`: the `$ref` parts become base
    -- classes, the inline object gives the own fields, an allOf-level `required` marks OWN fields only
    -- (known finding D32); `parse_item` passes `ignore_duplicate_model=True`: a single base without own
    -- fields is used directly
    match ctx, refs, props with
    | .top, _, _ => .derived refs (markReq xreq (trProps st o req props)) .unset
    | _, [r], [] => .ref r
    | _, _, _ => .derived refs (markReq xreq (trProps st o req props)) .unset
  | ctx, .disc _ prop refs mapping =>
    -- a member keeps the union and gets `Field(discriminator=…)`; a document / definition (`parse_obj`) and
    -- an array item (`if item.discriminator and parent and parent.is_array`) go through `parse_root_type`
    let t := Ty.tagged prop (branchesOf refs mapping)
    match ctx with
    | .plain => t
    | _ => .root {} t
/-- `parse_object_fields` -/
def trProps (st : Style) (o : Opts) (req : List (List Char)) :
    List (List Char × Schema) → List (List Char × Bool × Cons × Ty)
  | [] => []
  | p :: ps =>
    (p.1, req.contains p.1 && !constDefaulted st p.2, fieldCons st o p.2, tr st o .plain p.2) ::
      trProps st o req ps
/-- `parse_combined_schema` → `parse_list_item(…, parent = the union schema)` -/
def trAlts (st : Style) (o : Opts) : List Schema → List Ty
  | [] => []
  | s :: ss =>
    -- a discriminated union nested in a union is parsed as a plain nested Union (its parent is no array)
    (if s.isDisc then .union (s.discRefs.map .ref) else tr st o (.item false) s) :: trAlts st o ss
end

/-! ### original name vs Python name (`required` at the allOf level)

The IR above keys a member by its JSON name. The parser's field objects carry two names: `name` (what
the field-name resolver made of the JSON name: `first-name` ↦ `first_name`, `class` ↦ `class_`, …; C06)
and `original_name` (the JSON name). The step that applies an allOf-level `required` must look the
collected names up by the ORIGINAL name. -/

/-- a member as `_parse_object_common_part` holds it -/
structure PField where
  name : List Char
  originalName : Option (List Char)
  required : Bool
  cons : Cons
  ty : Ty

/-- `parse_object_fields`; `nm` is the field-name resolver (any function: the statements below hold for
every renaming). Every member gets `original_name` = its JSON name. -/
def parseFields (st : Style) (o : Opts) (nm : List Char → List Char) (req : List (List Char))
    (props : List (List Char × Schema)) : List PField :=
  props.map (fun p => ⟨nm p.1, some p.1, req.contains p.1 && !constDefaulted st p.2,
    fieldCons st o p.2, tr st o .plain p.2⟩)

/-- `field.original_name or field.name` -/
def PField.key (f : PField) : List Char := f.originalName.getD f.name

/-- `if (field.original_name or field.name) in required: field.required = True` -/
def markRequired (required : List (List Char)) (fs : List PField) : List PField :=
  fs.map (fun f => if required.contains f.key then { f with required := true } else f)

/-- the variant that looks the names up by the Python name (NOT what the code does; see C04) -/
def markRequiredByName (required : List (List Char)) (fs : List PField) : List PField :=
  fs.map (fun f => if required.contains f.name then { f with required := true } else f)

/-- forget the Python name -/
def PField.toIR (f : PField) : List Char × Bool × Cons × Ty := (f.key, f.required, f.cons, f.ty)

/-- definitions are parsed by `parse_obj` -/
def trDefs (st : Style) (o : Opts) : Defs → IRDefs
  | [] => []
  | p :: ps => (p.1, tr st o .top p.2) :: trDefs st o ps

/-! ### the discriminator pass over a whole document

`acceptsTy` applies `patchTag` where a tagged union looks an alternative up (the classes of the
alternatives are rewritten for that union). The real pass rewrites the classes themselves, once per
field that carries `discriminator`; `patchDefs` is that pass, used for the stage-1 comparison of the
definitions with the IR of the real parser. -/

mutual
/-- the fields that carry a `discriminator` extra: members, root types of documents / definitions and of
array items — not the value schema of `additionalProperties`, not a union nested in a union -/
def sites : Schema → List (List Char × List (List Atom × List Char))
  | .disc _ prop refs mapping => [(prop, branchesOf refs mapping)]
  | .array items _ _ => sites items
  | .object props _ _ => sitesProps props
  | .dict value => if value.isDisc then [] else sites value
  | .anyOf alts => sitesAlts alts
  | .oneOf alts => sitesAlts alts
  | .allOf _ props _ _ => sitesProps props
  | _ => []
def sitesProps : List (List Char × Schema) → List (List Char × List (List Atom × List Char))
  | [] => []
  | p :: ps => sites p.2 ++ sitesProps ps
def sitesAlts : List Schema → List (List Char × List (List Atom × List Char))
  | [] => []
  | s :: ss => (if s.isDisc then [] else sites s) ++ sitesAlts ss
end

/-- all discriminator sites of a document: its body, then its definitions -/
def docSites (defs : Defs) (body : Schema) : List (List Char × List (List Atom × List Char)) :=
  sites body ++ sitesProps defs

/-- one site applied to the class of definition `n` -/
def applySite (n : List Char) (d : Ty) (s : List Char × List (List Atom × List Char)) : Ty :=
  match s.2.find? (fun b => b.2 == n) with
  | some b => patchTag s.1 b.1 d
  | none => d

def patchDefs (ss : List (List Char × List (List Atom × List Char))) (D : IRDefs) : IRDefs :=
  D.map (fun nd => (nd.1, ss.foldl (applySite nd.1) nd.2))

end Dcg.Model.Translate
