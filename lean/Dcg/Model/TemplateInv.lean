import Dcg.Model.TemplateBlock
import Dcg.Py.Ident
/-
Dcg.Model.TemplateInv — class invariants of the values interpolated at NAME sites, as decidable
predicates that are evaluated at the render boundary on every real render context
(`vlib/props/render_probe.py`): the value written at `{{ field.name }}`, `{{ class_name }}`, … is what
the resolvers of C07 return — a Python identifier that is not a keyword.  A member that reaches
rendering without a name (Jinja prints `None`) violates it.
-/
namespace Dcg.Model.TemplateInv
open Dcg.Model.TemplateSyntax Dcg.Model.Template Dcg.Model.Sites Dcg.Py.Ident

/-- what C07 guarantees of a sanitised name -/
def identValueB (v : List Char) : Bool := isIdentifier v && !isKeyword v

/-- sites that carry a member name or a class name as the resolver returned it (a subset of the
sites of class `identifier`: `key` of `{{ key }}={{ value }}` is a generator-authored keyword) -/
def nameSites : List String := ["class_name", "field.name", "fields[0].name"]

def isNameSite (e : Expr) : Bool :=
  let bf := e.unfilter
  bf.2.isEmpty && nameSites.contains bf.1.src

/-- invariant of one interpolated value by the reviewed class of its site: a name at a name site;
a type hint is not empty -/
def siteInvB (e : Expr) (v : List Char) : Bool :=
  if isNameSite e then identValueB v
  else
    let bf := e.unfilter
    match classify bf.1.src (bf.2.map Filter.name) with
    | .typeExpr => !v.isEmpty
    | _ => true

def firstBadSlot (o : Out) : Option (Expr × List Char) := o.slots.find? (fun p => !siteInvB p.1 p.2)

end Dcg.Model.TemplateInv
