import Dcg.Model.FieldText
/-
Dcg.Model.FieldStr — `DataModelField.__str__`, `.field`, `.annotated`, `.imports` of the field
classes of the five output kinds (model/pydantic/base_model.py, model/pydantic_v2/base_model.py,
model/dataclass.py, model/msgspec.py, model/typed_dict.py) and the member branch of their class
templates, at the level of C02: the SHAPE of the text (empty / a bare `repr` / a call and its first
argument) and WHICH NAMES it reads, as functions of an abstract field state.

What the state abstracts: the keyword arguments are `key=repr(value)` of data (no names), so only
their presence matters (`otherArgs`, `otherKeys`, `hasMeta`: computed by the harness from the real
field's inputs — extras, alias, constraints, const, options — with the key tables of the real
class); a `default_factory` is the one argument written verbatim: the text out of
`extras["default_factory"]` (a name: `list`, `dict`), or the lambda the class builds from the
default when the member's type is a model class (`lambda :Cls.parse_obj(...)`,
`lambda: convert(..., type=Cls)`), which names that class. The type hint's own names are
`Model.Types` / `Model.Imports` (`imports_cover_hint_*`).
-/
namespace Dcg.Model.FieldStr
open Dcg.Model.FieldText (Name nField nAnnotated)

def nfield : Name := ['f', 'i', 'e', 'l', 'd']
def nMeta : Name := ['M', 'e', 't', 'a']
def nConvert : Name := ['c', 'o', 'n', 'v', 'e', 'r', 't']
def nOptional : Name := ['O', 'p', 't', 'i', 'o', 'n', 'a', 'l']
def nClassVar : Name := ['C', 'l', 'a', 's', 's', 'V', 'a', 'r']
def nNotRequired : Name := ['N', 'o', 't', 'R', 'e', 'q', 'u', 'i', 'r', 'e', 'd']
def nList : Name := ['l', 'i', 's', 't']

/-- the first argument of the call -/
inductive Head where
  /-- `...` -/
  | ellipsis
  /-- `default_factory=` -/
  | factory
  /-- `repr(default)` -/
  | default
  /-- a keyword argument (or none at all: `Field()`) -/
  | args
  deriving DecidableEq, Repr, Inhabited

inductive Shape where
  /-- `""` -/
  | empty
  /-- `repr(default)`, no call -/
  | bare
  /-- exactly `Field(...)` -/
  | ellipsisOnly
  | call (h : Head)
  deriving DecidableEq, Repr, Inhabited

/-- what `default_factory` is -/
inductive Factory where
  | none
  /-- the text of `extras["default_factory"]`, written verbatim -/
  | extras (n : Name)
  /-- the lambda built from the default; it names the class `cls` -/
  | model (cls : Name)
  deriving DecidableEq, Repr, Inhabited

structure Out where
  shape : Shape
  /-- the names the text reads, the called function first -/
  names : List Name
  deriving DecidableEq, Repr, Inhabited

def Shape.isCall : Shape → Bool
  | .call _ => true
  | .ellipsisOnly => true
  | _ => false

/-! ### pydantic v1-style and v2 (`__str__` is inherited; they differ in the key tables only) -/

structure Pyd where
  required : Bool
  /-- truthiness of `self.nullable` -/
  nullable : Bool
  useAnnotated : Bool
  useDefaultKwarg : Bool
  /-- some `key=repr(value)` argument other than `default_factory` is written -/
  otherArgs : Bool
  /-- one of them sorts before `default_factory` (`alias=`, `const=`, …: `sorted(field_arguments)`) -/
  keyBeforeFactory : Bool
  /-- `self.default is not None` -/
  defaultNotNone : Bool
  /-- `data["default_factory"]` (from `extras`) -/
  extrasFactory : Option Name
  /-- the class named by the lambda `_get_default_as_pydantic_model()` returns, if it returns one -/
  modelFactory : Option Name
  deriving DecidableEq, Repr, Inhabited

/-- the `if self.required: … elif self.default is not None and "default_factory" not in data: … else: …` -/
def Pyd.factory (s : Pyd) : Factory :=
  if s.required then .none
  else if s.defaultNotNone && s.extrasFactory.isNone then
    (match s.modelFactory with | some c => .model c | none => .none)
  else match s.extrasFactory with | some n => .extras n | none => .none

/-- `field_arguments` is not empty: for a required member `extras["default_factory"]` is not popped
and is written as `default_factory='list'` (the `repr` of its text) -/
def Pyd.hasArgs (s : Pyd) : Bool := s.otherArgs || (s.required && s.extrasFactory.isSome)

def Factory.names : Factory → List Name
  | .none => []
  | .extras n => [n]
  | .model c => [c]

/-- `DataModelField.__str__` (pydantic). With `use_annotated` the default and the default factory
are NOT written (`_process_annotated_field_arguments` returns the keyword arguments). -/
def Pyd.str (s : Pyd) : Out :=
  if !s.hasArgs && s.factory == .none then
    (if s.nullable && s.required then ⟨.ellipsisOnly, [nField]⟩ else ⟨.empty, []⟩)
  else if s.useAnnotated then
    -- a required member keeps `default_factory='list'` (a `repr`: no name) among the sorted keyword arguments
    ⟨.call (if s.required && s.extrasFactory.isSome && !s.keyBeforeFactory then .factory else .args), [nField]⟩
  else if s.required then ⟨.call .ellipsis, [nField]⟩
  else if s.factory != .none then ⟨.call .factory, nField :: s.factory.names⟩
  else ⟨.call .default, [nField]⟩

/-- the three facts `Model.FieldText` reads off the text, now computed -/
def Pyd.toV (s : Pyd) : Dcg.Model.FieldText.V :=
  let sh := (Pyd.str s).shape
  { strEmpty := sh == .empty,
    startsEllipsis := sh == .ellipsisOnly || sh == .call .ellipsis,
    startsFactory := sh == .call .factory,
    useAnnotated := s.useAnnotated, useDefaultKwarg := s.useDefaultKwarg }

/-- the library part of `.imports` -/
def Pyd.imports (s : Pyd) : List Name := Dcg.Model.FieldText.imports (Pyd.toV s)

/-- the names the class template writes for the member besides its type hint: `= <field>` or
`Annotated[<hint>, <str(self)>]` -/
def Pyd.memberNames (s : Pyd) : List Name :=
  let lib := Dcg.Model.FieldText.memberUses (Pyd.toV s)
  if lib.isEmpty then [] else lib ++ (Pyd.str s).names.drop 1

/-! ### dataclasses -/

structure Dc where
  required : Bool
  /-- `self.default != UNDEFINED and self.default is not None` -/
  defaultSet : Bool
  /-- `isinstance(default, (list, dict))` -/
  defaultListOrDict : Bool
  extrasFactory : Option Name
  /-- one of `init repr hash compare metadata kw_only` is in `extras` -/
  otherKeys : Bool
  deriving DecidableEq, Repr, Inhabited

def Dc.factory (s : Dc) : Option Name := if s.required then none else s.extrasFactory

def Dc.str (s : Dc) : Out :=
  let hasDefault := s.defaultSet && !s.required
  if !s.otherKeys && (Dc.factory s).isNone then
    (if !hasDefault then ⟨.empty, []⟩
     else if s.defaultListOrDict then ⟨.call .factory, [nfield]⟩   -- `field(default_factory=lambda :[...])`
     else ⟨.bare, []⟩)
  else ⟨.call .args, nfield :: (Dc.factory s).toList⟩

/-- `IMPORT_FIELD` (dataclasses.field) when `.field` starts with `field(` -/
def Dc.imports (s : Dc) : List Name := if (Dc.str s).shape.isCall then [nfield] else []

/-- dataclass.jinja2: `{%- if field.field %} … = {{ field.field }}` -/
def Dc.memberNames (s : Dc) : List Name := (Dc.str s).names

/-! ### msgspec -/

structure Ms where
  required : Bool
  hasAlias : Bool
  defaultSet : Bool
  /-- truthiness of `self.default` -/
  defaultTruthy : Bool
  extrasFactory : Option Name
  /-- the class named by the lambda `_get_default_as_struct_model()` returns, if it returns one -/
  structFactory : Option Name
  /-- the lambda is the list form `convert([...], type=list[Cls])` -/
  structList : Bool
  useAnnotated : Bool
  /-- `meta_arguments` is not empty -/
  hasMeta : Bool
  /-- `extras.get("is_classvar")` -/
  classVar : Bool
  /-- `self.nullable` -/
  nullable : Option Bool
  typeHasNull : Bool
  unionOp : Bool
  deriving DecidableEq, Repr, Inhabited

def Ms.factory (s : Ms) : Factory :=
  if s.required then .none
  else match s.extrasFactory with
    | some n => .extras n
    | none => if s.defaultTruthy then (match s.structFactory with | some c => .model c | none => .none) else .none

/-- is `default` still a key of `data` at the end: set (or `None` for a member that is not
required), dropped for a required member and when the struct lambda replaces it -/
def Ms.hasDefaultKey (s : Ms) : Bool :=
  !s.required && !(match Ms.factory s with | .model _ => true | _ => false)

def Ms.str (s : Ms) : Out :=
  let fac := Ms.factory s
  if !s.hasAlias && fac == .none then
    (if Ms.hasDefaultKey s then ⟨.bare, []⟩ else ⟨.empty, []⟩)
  else ⟨.call .args, nfield :: (match fac with
    | .none => []
    | .extras n => [n]
    | .model c => nConvert :: (if s.structList then [nList, c] else [c]))⟩

/-- `.annotated is not None` -/
def Ms.annotated (s : Ms) : Bool := s.useAnnotated && s.hasMeta

/-- the names `.annotated` writes around the hint: `Annotated[…, Meta(…)]`, wrapped by
`get_optional_type` for a member that is not required, by `ClassVar[…]` for a class variable -/
def Ms.annotatedNames (s : Ms) : List Name :=
  if !Ms.annotated s then []
  else [nAnnotated, nMeta] ++
    (if !s.required && !s.classVar then (if s.unionOp then [] else [nOptional])
     else if s.classVar then [nClassVar] else [])

/-- `import_extender` on top of `DataModelFieldBase.imports` (its `Optional` / `Annotated` part) -/
def Ms.imports (s : Ms) : List Name :=
  (if (s.nullable == some true || (s.nullable == none && (!s.required || s.typeHasNull))) && !s.unionOp
    then [nOptional] else []) ++
  (if s.useAnnotated && Ms.annotated s then [nAnnotated] else []) ++
  (if (Ms.str s).shape.isCall then [nfield] else []) ++
  (if (match Ms.factory s with | .model _ => true | _ => false) then [nConvert] else []) ++
  (if Ms.annotated s then [nMeta] else []) ++
  (if s.classVar then [nClassVar] else [])

/-- msgspec.jinja2: `<name>: <annotated or hint>[ = <field>]` -/
def Ms.memberNames (s : Ms) : List Name := Ms.annotatedNames s ++ (Ms.str s).names

/-! ### TypedDict -/

structure Td where
  required : Bool
  /-- `isinstance(self.parent, TypedDict)` -/
  parentTyped : Bool
  deriving DecidableEq, Repr, Inhabited

def Td.notRequired (s : Td) : Bool := !s.required && s.parentTyped
/-- `type_hint` = `NotRequired[<hint>]` -/
def Td.memberNames (s : Td) : List Name := if Td.notRequired s then [nNotRequired] else []
def Td.imports (s : Td) : List Name := if Td.notRequired s then [nNotRequired] else []

end Dcg.Model.FieldStr
