/-
The ORDER of the post-passes that `Parser.parse` applies to the models of one module
(`for module_, models in module_models:` in parser/base.py), and an abstract semantics of the passes that
restructure what a default refers to.

Part 1 — the reviewed order constraints as a decidable predicate over the call list that the translator
extracts (`Dcg/Gen/ParsePasses.lean`, vlib/translate/parse_passes.py).

Part 2 — abstract states (live Enum classes, root models around an enum, fields with a type and a default)
and the meaning of `__reuse_model`, `__collapse_root_models`, `__set_reference_default_value_to_field`,
`__set_default_enum_member` on them (compared with the real passes, run in all orders, by the campaign
`passes.run` of vlib/props/c09_order.py). The theorems are in Dcg/Props/C09.lean, the lemmas in
Dcg/Proofs/ParsePasses.lean.
-/
namespace Dcg.Model.ParsePasses

/-! ### Part 1: the passes and their order -/

/-- the private passes `self.__xxx(models, …)` of the per-module loop, by the name written in `parse()` -/
inductive Pass where
  | aliasShadowedImports
  | overrideRequiredField
  | replaceUniqueListToSet
  | changeFromImport
  | extractInheritedEnum
  | setReferenceDefaultValueToField
  | reuseModel
  | collapseRootModels
  | setDefaultEnumMember
  | sortModels
  | changeFieldName
  | applyDiscriminatorType
  | setOneLiteralOnDefault
  /-- a call the review does not know -/
  | other (name : String)
  deriving DecidableEq, Repr

/-- one call of the loop body: the pass, and whether the call is nested in another statement (`if`, `for`, `try`, …) -/
structure Call where
  pass : Pass
  guarded : Bool
  deriving DecidableEq, Repr

def Pass.reviewed : Pass → Bool
  | .other _ => false
  | _ => true

/-- number of calls of `p` -/
def count (p : Pass) : List Pass → Nat
  | [] => 0
  | q :: qs => (if q = p then 1 else 0) + count p qs

/-- `a` is not called at, or after, the first call of `b` -/
def noneFrom (a b : Pass) : List Pass → Bool
  | [] => true
  | q :: qs => if q = b then !(decide (a = b)) && !(qs.contains a) else noneFrom a b qs

/-- `a` runs exactly once, `b` runs exactly once, and `a` runs first -/
def before (a b : Pass) (l : List Pass) : Bool :=
  count a l == 1 && count b l == 1 && noneFrom a b l

open Pass in
/-- THE REVIEWED CONSTRAINTS `(a, b)`: pass `a` must have run before pass `b`. Each was read off the code and reproduced
by running the real passes in the other order (vlib/props/c09_order.py `permuted_passes`; what goes wrong is noted).

* `changeFromImport → setDefaultEnumMember`: `Member.alias` is copied from `data_type.alias`, which `__change_from_import`
  sets; before it the default of a field of an importing module is written `Colour.q` where only `shared` is bound.
* `setReferenceDefaultValueToField → setDefaultEnumMember`: a default taken over from the referenced model
  (`Shade: {$ref: Colour, default: q}`) must exist before it can be converted; otherwise it stays the raw `'q'`.
* `reuseModel → setDefaultEnumMember`: `__reuse_model` drops an Enum model that renders like an earlier one and re-points the
  data types, not the `Member` objects: a default converted earlier names the dropped class (NameError at import).
* `collapseRootModels → setDefaultEnumMember`: only a data type that refers DIRECTLY to an Enum model is converted; a
  field behind a root model (nullable enum, alias definition) refers to the Enum only after the root has been folded in.
* `extractInheritedEnum → setDefaultEnumMember`: a model that merely inherits from an enum (`allOf: [{$ref: E}, {…}]`) is an
  Enum model only after `__extract_inherited_enum`; before, `isinstance(source, Enum)` fails and the default stays raw.
* `reuseModel → collapseRootModels`: the data type `__collapse_root_models` puts into the field is a `DataType.copy()` of the root's
  type, which is not registered with the reference it points to; `__reuse_model` re-points registered users only
  (`reference.children`), so a duplicate dropped AFTER the fold stays in the field (`s: Optional[Tint] = Tint.q`, no class `Tint`).
* `setReferenceDefaultValueToField → collapseRootModels`: the default lives on the root model; once the reference to the root
  has been replaced by the root's type there is nothing to take it from (the field gets `= None`).
* `reuseModel → changeFieldName`, `collapseRootModels → changeFieldName`: (pydantic v2) a field is renamed when its name is the
  class name of one of ITS types; both passes change which classes those are (`Colour: Optional[Colour]` otherwise).
* `applyDiscriminatorType → setOneLiteralOnDefault`: the discriminator members become required one-literal fields in
  `__apply_discriminator_type`; `--use-one-literal-as-default` gives a default only to fields that are one-literal by then.
* `overrideRequiredField → changeFromImport`: the field copied from the base class gets its import alias with all the others;
  copied afterwards it is written `c: Colour` in a module that binds `shared`.

No dependency was found for `sortModels`, `replaceUniqueListToSet`, `aliasShadowedImports` (other positions give the same or an
equally valid module), nor between `changeFieldName` and `setDefaultEnumMember` (`Member.__repr__` reads `field.name` when the
module is rendered, not when the member is created). -/
def constraints : List (Pass × Pass) :=
  [(changeFromImport, setDefaultEnumMember),
   (setReferenceDefaultValueToField, setDefaultEnumMember),
   (reuseModel, setDefaultEnumMember),
   (collapseRootModels, setDefaultEnumMember),
   (extractInheritedEnum, setDefaultEnumMember),
   (reuseModel, collapseRootModels),
   (setReferenceDefaultValueToField, collapseRootModels),
   (reuseModel, changeFieldName),
   (collapseRootModels, changeFieldName),
   (applyDiscriminatorType, setOneLiteralOnDefault),
   (overrideRequiredField, changeFromImport)]

/-- the order predicate: every call of the loop is a reviewed pass, none is guarded by another statement, every pass named
in a constraint runs exactly once and the constraints hold -/
def orderOk (cs : List Call) : Bool :=
  cs.all (fun c => c.pass.reviewed && !c.guarded) &&
  constraints.all (fun ab => before ab.1 ab.2 (cs.map (·.pass)))

/-- the first violated constraint (for the report of a broken obligation) -/
def firstViolated (cs : List Call) : Option (Pass × Pass) :=
  constraints.find? (fun ab => !(before ab.1 ab.2 (cs.map (·.pass))))

/-- the part of `orderOk` the abstract semantics below needs: the three restructuring passes run before the one conversion,
and duplicates are merged before roots are folded -/
def coreOk (ps : List Pass) : Bool :=
  before .setReferenceDefaultValueToField .setDefaultEnumMember ps &&
  before .reuseModel .setDefaultEnumMember ps &&
  before .collapseRootModels .setDefaultEnumMember ps &&
  before .reuseModel .collapseRootModels ps

/-! ### Part 2: abstract semantics of the four passes -/

/-- what a field's data type refers to: an Enum model; a root model (the `Optional[XEnum]` wrapper of a string enum with
a null entry, an alias definition `{$ref: enum}`); or an Enum model through the data type that `__collapse_root_models`
COPIED out of a root model — `DataType.copy()` does not register the copy with the reference, so `replace_reference`
(`__reuse_model`) never reaches it -/
inductive Ty where
  | enum (c : Nat)
  | root (r : Nat)
  | copy (c : Nat)
  deriving DecidableEq, Repr

/-- a field's default: none, the raw JSON value `v`, or the `Member` of class `c` for value `v` -/
inductive Dflt where
  | none
  | raw (v : Nat)
  | member (c v : Nat)
  deriving DecidableEq, Repr

structure Field where
  ty : Ty
  dflt : Dflt
  deriving DecidableEq, Repr

/-- an Enum model of the module; two models with one `key` render alike (`model.render(class_name="M")`, imports) -/
structure Cls where
  id : Nat
  key : Nat
  deriving DecidableEq, Repr

/-- a root model around Enum model `target`, with the default its definition carries -/
structure Root where
  id : Nat
  target : Nat
  dflt : Option Nat
  deriving DecidableEq, Repr

structure St where
  classes : List Cls
  roots : List Root
  fields : List Field
  deriving DecidableEq, Repr

structure Opts where
  reuse : Bool
  collapse : Bool
  sdem : Bool
  deriving DecidableEq, Repr

/-- class `c` is (still) a class of the module -/
def live (cls : List Cls) (c : Nat) : Bool := cls.any (·.id == c)

/-- the class that serves for `c` after `__reuse_model`: the first model with the same rendering -/
def surv (cls : List Cls) (c : Nat) : Nat :=
  match cls.find? (·.id == c) with
  | none => c
  | some k =>
    match cls.find? (·.key == k.key) with
    | some k' => k'.id
    | none => c

def survTy (cls : List Cls) : Ty → Ty
  | .enum c => .enum (surv cls c)
  | .root r => .root r
  | .copy c => .copy c

/-- `__reuse_model` on Enum models: every class is replaced by its survivor (a duplicate no longer occurs), the data
types of fields and root models are re-pointed (`child.replace_reference` on the registered users), copies made by
`__collapse_root_models` and DEFAULTS ARE NOT TOUCHED -/
def reuseStep (s : St) : St :=
  { classes := s.classes.map (fun k => { k with id := surv s.classes k.id }),
    roots := s.roots.map (fun r => { r with target := surv s.classes r.target }),
    fields := s.fields.map (fun f => { f with ty := survTy s.classes f.ty }) }

def findRoot (rs : List Root) (r : Nat) : Option Root := rs.find? (·.id == r)

/-- `__collapse_root_models`: a data type that refers to a root model is replaced by the root's own type -/
def collapseField (rs : List Root) (f : Field) : Field :=
  match f.ty with
  | .root r =>
    match findRoot rs r with
    | some rt => { f with ty := .copy rt.target }
    | none => f
  | .enum _ => f
  | .copy _ => f

def collapseStep (s : St) : St := { s with fields := s.fields.map (collapseField s.roots) }

/-- `__set_reference_default_value_to_field`: a field without default takes the default of the model it refers to -/
def setRefField (rs : List Root) (f : Field) : Field :=
  match f.ty, f.dflt with
  | .root r, .none =>
    match findRoot rs r with
    | some rt =>
      match rt.dflt with
      | some v => { f with dflt := .raw v }
      | none => f
    | none => f
  | _, _ => f

def setRefStep (s : St) : St := { s with fields := s.fields.map (setRefField s.roots) }

/-- `__set_default_enum_member`: the raw default of a field whose data type refers DIRECTLY to an Enum model becomes the
member of THAT model (every default here names an entry: the hypothesis of the property) -/
def sdemField (f : Field) : Field :=
  match f.ty, f.dflt with
  | .enum c, .raw v => { f with dflt := .member c v }
  | .copy c, .raw v => { f with dflt := .member c v }
  | _, _ => f

def sdemStep (s : St) : St := { s with fields := s.fields.map sdemField }

/-- one pass (the passes that do not touch what a default refers to are the identity here) -/
def step (o : Opts) : Pass → St → St
  | .reuseModel, s => if o.reuse then reuseStep s else s
  | .collapseRootModels, s => if o.collapse then collapseStep s else s
  | .setReferenceDefaultValueToField, s => setRefStep s
  | .setDefaultEnumMember, s => if o.sdem then sdemStep s else s
  | _, s => s

def run (o : Opts) : List Pass → St → St
  | [], s => s
  | p :: ps, s => run o ps (step o p s)

/-- the state the parser hands to the loop: every data type refers to a model of the module, no default is a member yet -/
def fieldWf (cls : List Cls) (f : Field) : Bool :=
  (match f.ty with
   | .enum c => live cls c
   | .copy c => live cls c
   | .root _ => true) &&
  (match f.dflt with
   | .member _ _ => false
   | _ => true)

def wf (s : St) : Bool :=
  s.fields.all (fieldWf s.classes) && s.roots.all (fun r => live s.classes r.target)

/-- no data type is a copy made by `__collapse_root_models` (true of what the parser hands to the loop) -/
def noCopies (s : St) : Bool :=
  s.fields.all (fun f => match f.ty with
    | .copy _ => false
    | _ => true)

/-- THE PROPERTY on a field whose data type is an Enum class (directly, or through a folded root): its default is not a raw value, and a member default is a
member of that class, which is a class of the module -/
def fieldGood (cls : List Cls) (f : Field) : Bool :=
  match f.ty, f.dflt with
  | .enum _, .raw _ => false
  | .copy _, .raw _ => false
  | .enum c, .member c' _ => c' == c && live cls c
  | .copy c, .member c' _ => c' == c && live cls c
  | .root _, .member _ _ => false
  | _, _ => true

def good (s : St) : Bool := s.fields.all (fieldGood s.classes)

/-- every root model a field refers to is a model of the module -/
def rootsKnown (s : St) : Bool :=
  s.fields.all (fun f => match f.ty with
    | .root r => (findRoot s.roots r).isSome
    | _ => true)

/-- the property when the roots are folded away: EVERY default is a member of its field's (live) class -/
def fieldAllMember (cls : List Cls) (f : Field) : Bool :=
  match f.ty, f.dflt with
  | _, .none => true
  | .enum c, .member c' _ => c' == c && live cls c
  | .copy c, .member c' _ => c' == c && live cls c
  | _, _ => false

def allMember (s : St) : Bool := s.fields.all (fieldAllMember s.classes)

end Dcg.Model.ParsePasses
