/-
Dcg.Model.Loops — the two fix-point loops of the JSON-Schema / OpenAPI parsers as SHAPES
(`Dcg/Gen/LoopSites`, extracted from the sources' AST by `vlib/translate/loop_sites.py`) and the
abstract semantics of the three shapes a "repeat while something changed" loop can have:

* `setPasses`   — `while S: …; prev := S; S := current; if prev == S: break`: repeat until the
                  reserved set is what it was after the previous pass;
* `resolveRec`  — parameterless self-recursion guarded by "the count changed", as a function of the
                  interpreter's remaining stack depth (`none` = RecursionError, a reported error);
* `resolveWhile`— the same repetition written as `while count changed:` — given FUEL, because no
                  total definition exists: whether it ends depends on the pass (see
                  `Proofs/Loops.count_exit_alone_can_diverge`).
-/
namespace Dcg.Model.Loops

/-- a loop as the translator describes it: (file, function, kind, source of the test, exits) -/
abbrev LoopSite := String × String × String × String × List String

def LoopSite.kind (l : LoopSite) : String := l.2.2.1
def LoopSite.exits (l : LoopSite) : List String := l.2.2.2.2

/-- exits that end the loop whatever the pass does to `results`:
* `setUnchanged` — the reserved set, which only grows inside the finite set of `$ref` strings of the
  document, is unchanged (`Props.C01.growing_bounded_stabilises`);
* `iterationLimit` — an explicit bound on the number of passes. -/
def reviewedIndependentExits : List String := ["setUnchanged", "iterationLimit"]

/-- **Reviewed shapes.** A loop of the parsers ends for every document when
* it is a self-recursion (every repetition costs one interpreter frame: after at most the recursion
  limit the run ends with RecursionError — `Proofs/Loops.resolveRec_ends`), or
* it has an exit that does not depend on `results` (`reviewedIndependentExits`).
`countUnchanged` ("this pass appended nothing") is NOT such an exit: `results` is not bounded by the
document — a reserved pointer that is never marked as loaded makes every pass append a model.
Anything the translator does not recognise (`other:…`) is not reviewed either. -/
def independentExit (l : LoopSite) : Bool :=
  l.kind == "recursion" || l.exits.any (fun e => reviewedIndependentExits.contains e)

/-- `self.reserved_refs` is only created and added to -/
def growsOnly (m : String × String) : Bool := m.2 == "add" || m.2 == "init"

/-! ### semantics of the shapes -/

/-- one pass, then again while the count changed; `depth` = interpreter frames left -/
def resolveRec {σ : Type} (pass : σ → σ) (count : σ → Nat) : Nat → σ → Option σ
  | 0, _ => none
  | d + 1, s =>
    let s' := pass s
    if count s' ≠ count s then resolveRec pass count d s' else some s'

/-- the same repetition as a `while` loop, with fuel (`none` = still running when the fuel is used up) -/
def resolveWhile {σ : Type} (pass : σ → σ) (count : σ → Nat) : Nat → σ → Option σ
  | 0, _ => none
  | f + 1, s =>
    let s' := pass s
    if count s' ≠ count s then resolveWhile pass count f s' else some s'

def iter {σ : Type} (pass : σ → σ) : Nat → σ → σ
  | 0, s => s
  | n + 1, s => iter pass n (pass s)

end Dcg.Model.Loops
