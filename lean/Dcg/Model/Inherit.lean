/-
`required` naming an INHERITED member (C04): `Parser.__override_required_field` with `_find_field` /
`_find_base_classes` of parser/base.py, over an arbitrary table of classes and base-class edges.

`_parse_object_common_part` turns a name of `required` (next to `allOf`) that the class does not declare itself
into a *placeholder* field: `data_model_field_type(required=True, original_name=name, data_type=DataType())` —
a field without any type. The pass below visits every class, and for each placeholder looks the name up in the
base classes, breadth first over a work list that grows while it is iterated:

    for model in models:                      # models = _find_base_classes(model) at the start
        for field_ in model.fields: if field_.original_name == original_name: return field_
        models.extend(_find_base_classes(model))
    return None

A declaration that is found is copied into the class with `required = True` (in the place of the placeholder);
a placeholder whose name no ancestor declares is removed. Only the lookup structure is modelled: a field is its
original name, its `required` flag, whether it is a placeholder, and a tag standing for everything else
(type, constraints, alias: "which declaration it is"). The order of the fields after the pass is the order of
the placeholders (the real pass inserts at the index of a snapshot; an order deviation after a removed
placeholder is not modelled — order is compared by the correspondence campaign on the generated family only).
-/
namespace Dcg.Model.Inherit

abbrev Name := List Char

structure Fld where
  name : Name
  required : Bool
  placeholder : Bool
  tag : Nat
  deriving DecidableEq, Repr, Inhabited

structure Cls where
  fields : List Fld
  bases : List Name
  deriving Repr, Inhabited

/-- the generated classes by name -/
abbrev Table := List (Name × Cls)

/-- `_find_base_classes(model)`: the base classes that are generated classes themselves (a reference whose source
is not a `DataModel` — an imported or custom base class — is skipped), in the order of the class statement -/
def bases (T : Table) (c : Name) : List Name :=
  match T.lookup c with
  | some k => k.bases.filter (fun b => (T.lookup b).isSome)
  | none => []

/-- the first field of class `c` whose original name is `n` -/
def declares (T : Table) (c : Name) (n : Name) : Option Fld :=
  match T.lookup c with
  | some k => k.fields.find? (fun f => f.name == n)
  | none => none

inductive Found where
  | found (cls : Name) (f : Fld)
  | absent
  | outOfFuel
  deriving DecidableEq, Repr, Inhabited

/-- `_find_field(n, queue)`: the work list is consumed from the front and the bases of a class that does not
declare `n` are appended at the back. Fuel-indexed (the loop need not terminate on a cyclic table);
`findField_terminates` gives the fuel that suffices on every acyclic table. -/
def findField (T : Table) (n : Name) : Nat → List Name → Found
  | _, [] => .absent
  | 0, _ :: _ => .outOfFuel
  | g + 1, c :: q =>
    match declares T c n with
    | some f => .found c f
    | none => findField T n g (q ++ bases T c)

/-- the body of `__override_required_field` for the fields of class `c` -/
def overrideFields (T : Table) (g : Nat) (c : Name) : List Fld → List Fld
  | [] => []
  | f :: fs =>
    if f.placeholder then
      match findField T f.name g (bases T c) with
      | .found _ o => { o with required := true } :: overrideFields T g c fs
      | _ => overrideFields T g c fs
    else f :: overrideFields T g c fs

/-- replace the class of `c` -/
def setFields (T : Table) (c : Name) (fs : List Fld) : Table :=
  T.map (fun e => if e.1 == c then (e.1, { e.2 with fields := fs }) else e)

/-- the whole pass: the classes are visited in the given order (`sort_data_models` puts base classes first), each
sees the table as the earlier visits left it -/
def overrideAll (g : Nat) : Table → List Name → Table
  | T, [] => T
  | T, c :: cs =>
    match T.lookup c with
    | some k => overrideAll g (setFields T c (overrideFields T g c k.fields)) cs
    | none => overrideAll g T cs

/-- reachability through base-class edges from a work list -/
inductive Reach (T : Table) (q : List Name) : Name → Prop
  | start {c : Name} : c ∈ q → Reach T q c
  | step {c b : Name} : Reach T q c → b ∈ bases T c → Reach T q b

/-- a table without inheritance cycles: a rank that strictly decreases along every base-class edge, bounded by `R` -/
def Acyclic (T : Table) (rank : Name → Nat) (R : Nat) : Prop :=
  (∀ c b, b ∈ bases T c → rank b < rank c) ∧ ∀ c, rank c ≤ R

/-- number of classes the loop can visit starting from `c`: 1 + the visits of its bases (paths, not classes: a
class reached twice is visited twice, as in the code) — by recursion on a depth budget `r` -/
def cost (T : Table) : Nat → Name → Nat
  | 0, _ => 1
  | r + 1, c => 1 + ((bases T c).map (cost T r)).sum

def queueCost (T : Table) (r : Nat) (q : List Name) : Nat := (q.map (cost T r)).sum

/-! ### the variant that does NOT try every base (witness that the order of the search matters) -/

/-- look at the given classes; then continue with the bases of the FIRST class that has any — and only those -/
def findFieldFirstBranch (T : Table) (n : Name) : Nat → List Name → Found
  | 0, _ => .outOfFuel
  | g + 1, q =>
    match q.findSome? (fun c => (declares T c n).map (fun f => (c, f))) with
    | some (c, f) => .found c f
    | none =>
      match q.find? (fun c => !(bases T c).isEmpty) with
      | some c => findFieldFirstBranch T n g (bases T c)
      | none => .absent

end Dcg.Model.Inherit
