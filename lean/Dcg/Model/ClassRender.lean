import Dcg.Model.ClassScope
import Dcg.Sem.Typing
/-
Dcg.Model.ClassRender — the generator's side of C02: how `Parser.parse` lays a single-file module
out (`parser/base.py`: the import block, then `dump_templates(models)` in the order
`sort_data_models`/`__sort_models` left them, then the forward-reference footer), in the abstract
syntax of `Model.ClassScope`.  A member is `name: <type hint> [= value]`; the hint is the typing
expression `DataType.type_hint` writes (`Sem.Typing.TExpr`, see `Model.HintExpr.hintE`).

What is abstracted: the text of defaults and `Field(...)` calls is an evaluation skeleton
(`Expr`); aliases (`X = …`, known findings C02-F3/F4) and enum classes are classes without
annotated members or are outside (`GModule` has classes only).
-/
namespace Dcg.Model.ClassRender
open Dcg.Model.ClassScope
open Dcg.Sem.Typing (TExpr sLiteral)

mutual
/-- evaluation skeleton of a rendered hint; the arguments of `Literal[…]` are data, `a | b` is an operator -/
def ofT : TExpr → Expr
  | .atom s => .name s
  | .app h args => if h = sLiteral then .sub (.name h) [] else .sub (.name h) (ofTL args)
  | .bor args => .op (ofTL args)
def ofTL : List TExpr → List Expr
  | [] => []
  | e :: es => ofT e :: ofTL es
end

structure GMember where
  name : Name
  hint : TExpr
  /-- `none`: a bare annotation (required member); `some e`: the default or the `Field(...)`/`field(...)` call -/
  value : Option Expr
  deriving Inhabited

structure GClass where
  name : Name
  decorators : List Name
  bases : List Name
  members : List GMember
  deriving Inhabited

structure GModule where
  /-- names the import block binds (after aliasing) -/
  imports : List Name
  classes : List GClass
  /-- classes that get a `X.model_rebuild()` / `X.update_forward_refs()` line -/
  footer : List Name
  deriving Inhabited

def renderMember (m : GMember) : Item :=
  { target := m.name
    binds := if m.value.isSome then [m.name] else []
    ann := some { uses := (ofT m.hint).names, expr := ofT m.hint }
    value := m.value.map fun e => { uses := e.names, expr := e } }

def renderCls (c : GClass) : Cls :=
  { name := c.name, header := c.decorators ++ c.bases, items := c.members.map renderMember }

/-- `from __future__ import annotations` is always written -/
def render (g : GModule) : Module :=
  { future := true
    stmts := .imp g.imports :: (g.classes.map fun c => .cls (renderCls c)) ++ g.footer.map fun n => .expr [n] }

def classNames (g : GModule) : List Name := g.classes.map (·.name)

end Dcg.Model.ClassRender
