import Dcg.Model.Translate
import Dcg.Model.HintInv
/-
Dcg.Model.TreeBridge — from the stage-1 IR of C03/C04 (`Model.Translate.Ty`, what `tr` makes of a
JSON Schema) to the type tree of C13 (`Model.Types.DT`, what `DataType.type_hint` renders).

`Ty` is the IR *up to* the shape of the `DataType` objects (the `sem.tr` comparison collapses
one-member wrapper nodes); `toDT` puts the shape back, exactly as `JsonSchemaParser` builds it
(campaign `c13 bridge` compares `typeHint o (toDT N (tr …))` with the real `type_hint` of the field's
data type after the real `parse_raw()` in four spellings, and the tree itself node by node):

* a scalar / `Any` / `None` is a leaf with that type name; a nullable scalar is a ONE-MEMBER WRAPPER
  that carries `is_optional` around the leaf (`get_data_type` for a type list);
* an array is a one-member wrapper (no flag) around the `is_list` node, whose only member is the item
  type — no member at all when the items are unconstrained (`items: {}` gives the bare `List`);
* a map object is the `is_dict` node itself (no wrapper) with the value type as only member;
* `type: ["object","null"]` is a one-member optional wrapper around the SHARED type-map entry
  `DataType(type="Any", is_dict=True)` (no members);
* `anyOf` / `oneOf` is a node whose members are the alternatives (`Any` when there are none); a
  discriminated union is the node over its class references;
* everything that becomes a class of its own (nested object, generated root type, enum, allOf) is a
  reference leaf. Class NAMES are not modelled in `Ty` (C06/C07 own them): they are a parameter `N`.

Outside the bridge (mapped to the EMPTY node, which no theorem accepts: `wfTree` is false on it):
* a scalar with constraint keyword arguments (`conint(ge=1)`: call syntax, outside `Model.Types`);
  none arises under `field_constraints`;
* `const` (the data type depends on style and position: `Literal[…]` for a v2 member, the type of the
  value for a v1 member or an item, `Any` for a v1 root type).
-/
namespace Dcg.Model.TreeBridge
open Dcg.Sem Dcg.Model.Translate Dcg.Model.Types

/-- the class names stage 1 hands out: the class of an inline class type, the class of a definition -/
structure Naming where
  /-- by POSITION in the tree (two equal inline schemas get two classes with different names) -/
  cls : List Nat → Str
  ref : List Char → Str

def leafT (s : Str) : DT := .mk { ty := s } none []
def refT (s : Str) : DT := .mk { ref := some { shortName := s } } none []
/-- what the bridge does not model -/
def unmodelled : DT := .mk {} none []
/-- the shared type-map entry for a free-form `object` -/
def freeDict : DT := .mk { ty := sAny, isDict := true } none []

def sInt : Str := ['i', 'n', 't']
def sFloat : Str := ['f', 'l', 'o', 'a', 't']
def sBool : Str := ['b', 'o', 'o', 'l']

def scalarName : STy → Str
  | .integer => sInt
  | .number => sFloat
  | .string => sStr
  | .boolean => sBool

def isAnyTy : Ty → Bool
  | .any => true
  | _ => false

def isFreeDictTy : Ty → Bool
  | .dict .any => true
  | _ => false

mutual
/-- `pos` = the position of the node in the tree being built (member indices from the node up to the root) -/
def toDT (N : Naming) (pos : List Nat) : Ty → DT
  | .any => leafT sAny
  | .null => leafT sNone
  | .scalar p kw => if kw = {} then leafT (scalarName p) else unmodelled
  | .const _ => unmodelled
  | .enumCls _ => refT (N.cls pos)
  | .list item =>
    .mk {} none [.mk { isList := true } none (if isAnyTy item then [] else [toDT N (0 :: 0 :: pos) item])]
  | .dict v => .mk { isDict := true } none [toDT N (0 :: pos) v]
  | .model _ _ => refT (N.cls pos)
  | .root _ _ => refT (N.cls pos)
  | .derived _ _ _ => refT (N.cls pos)
  | .ref n => refT (N.ref n)
  | .opt t => .mk { isOptional := true } none [if isFreeDictTy t then freeDict else toDT N (0 :: pos) t]
  | .union ts => if ts.isEmpty then leafT sAny else .mk {} none (toDTs N pos 0 ts)
  | .tagged _ bs => .mk {} none (bs.map (fun b => refT (N.ref b.2)))
def toDTs (N : Naming) (pos : List Nat) : Nat → List Ty → List DT
  | _, [] => []
  | i, t :: ts => toDT N (i :: pos) t :: toDTs N pos (i + 1) ts
end

/-- the type of the single field of a generated root class (document / definition that is not an object) -/
def rootFieldTy : Ty → Option Ty
  | .root _ t => some t
  | _ => none

/-! ### the supported subset of the composition (decidable, on the SCHEMA) -/

/-! `sup u`: `u` = unions allowed. Not supported: `const`; an array with unconstrained items (`items: {}`: the bare
`List`, an empty list node); a discriminated union without alternatives. The members of a nested object / allOf
are fields of another class: they are not part of this annotation. The value schema of `type: ["object","null"]`
is not translated. -/
mutual
def sup (u : Bool) : Schema → Bool
  | .const _ => false
  | .array items _ _ => (match items with | .any => false | _ => true) && sup u items
  | .dict v => sup u v
  | .anyOf alts => u && supL u alts
  | .oneOf alts => u && supL u alts
  | .disc _ _ refs _ => u && !refs.isEmpty
  | _ => true
def supL (u : Bool) : List Schema → Bool
  | [] => true
  | s :: ss => sup u s && supL u ss
end

/-! a predicate on (attributes, number of members) at every node of a tree, `dict_key` included -/
mutual
def allNodes (p : Attrs → Nat → Bool) : DT → Bool
  | .mk a key kids => p a kids.length && allNodesO p key && allNodesL p kids
def allNodesO (p : Attrs → Nat → Bool) : Option DT → Bool
  | none => true
  | some k => allNodes p k
def allNodesL (p : Attrs → Nat → Bool) : List DT → Bool
  | [] => true
  | t :: ts => allNodes p t && allNodesL p ts
end

end Dcg.Model.TreeBridge
