import Dcg.Gen.FieldTemplates
/-!
# Model of the required / nullable / default decision (property C05)

Abstract space: one member `n` of an object schema, described by

* `inreq`   — is `n` listed in `required`?
* `dflt`    — class of the schema's `default` (not given / null / falsy scalar / truthy scalar /
              string / empty list / non-empty list / empty dict / non-empty dict)
* `nullsrc` — the way the schema admits null: not at all / type list containing "null" (JSON
              Schema, OpenAPI 3.1) / OpenAPI `nullable: true`. The input dialect itself is not part
              of the model: JSON-Schema and OpenAPI documents take the same code path except for
              `OpenAPIParser.get_data_type`, which only looks at `nullable` (the harness runs both
              dialects against the same model vector)
* `ty`      — scalar, array or object(dict) typed member (they take different parser paths)
* `constr`  — does the schema carry a constraint keyword (maxLength / maximum / maxItems)?
* `kind`    — output model kind
* `opts`    — strict-nullable, use-default, force-optional, strip-default-none, use-annotated,
              field-constraints. (`use-default-kwarg` only rewrites `Field(x, …)` into
              `Field(default=x, …)`; the harness checks that spelling separately and normalises it
              away, so the model — and every theorem — is independent of it.)

Stages (each a transliteration of the code named in its doc comment):
`fromSchema` (parser) → `render` (field class + class template, the template part being the
generated `BoolExpr` table of `Dcg.Gen.FieldTemplates`) → `semOf` (authored semantics of the
rendered member in the target library).

Out of the space (stated assumptions): `$ref`-typed members (their defaults go through
`_get_default_as_pydantic_model` / `_get_default_as_struct_model`), `const`, `default_factory`
given through `x-` extras, aliases, union-operator spelling.
-/
namespace Dcg.Model.Field
open Dcg.Gen.FieldTemplates

/-! ## The abstract vector -/

inductive Kind where
  | v1 | v2 | dc | td | ms
  deriving DecidableEq, Repr, Inhabited

inductive Dflt where
  | none | null | falsy | truthy | str | listE | listN | dictE | dictN
  deriving DecidableEq, Repr, Inhabited

inductive Ty where
  | scalar | array | object
  deriving DecidableEq, Repr, Inhabited

inductive NullSrc where
  | no | typelist | flag
  deriving DecidableEq, Repr, Inhabited

structure Opts where
  sn : Bool  -- strict_nullable
  ud : Bool  -- apply_default_values_for_required_fields (--use-default)
  fo : Bool  -- force_optional_for_required_fields
  sd : Bool  -- strip_default_none
  an : Bool  -- use_annotated
  fc : Bool  -- field_constraints
  deriving DecidableEq, Repr, Inhabited

/-- where the member's name is listed as required -/
inductive Via where
  | own       -- `required` of the object schema that declares the property
  | sibling   -- `allOf: [ {properties: …}, {required: […]} ]`: a sibling item carrying only `required`
  | owner     -- `allOf: [ {properties: …} ], required: […]`: on the schema that owns the `allOf`
  deriving DecidableEq, Repr, Inhabited

/-- what the member's JSON name looks like -/
inductive NameKind where
  | plain     -- `n`: usable as it is
  | alias     -- `foo-bar`: not an identifier; Python name `foo_bar`, alias / key `foo-bar`
  | keyword   -- `class`: Python name `class_`, alias / key `class`
  | camel     -- `fooBar`: an identifier, renamed to `foo_bar` (alias `fooBar`) under `--snake-case-field`
  deriving DecidableEq, Repr, Inhabited

/-- names as abstract tokens -/
inductive Tok where
  | n | fooDashBar | foo_bar | classKw | class_ | fooBar
  deriving DecidableEq, Repr, Inhabited

structure Vec where
  kind : Kind
  nullsrc : NullSrc
  inreq : Bool
  dflt : Dflt
  ty : Ty
  constr : Bool
  opts : Opts
  via : Via
  name : NameKind
  sc : Bool     -- snake_case_field
  deriving DecidableEq, Repr, Inhabited

/-- the JSON name (`original_field_name`, what `required` lists contain) -/
def NameKind.orig : NameKind → Tok
  | .plain => .n | .alias => .fooDashBar | .keyword => .classKw | .camel => .fooBar

/-- `model_resolver.get_valid_field_name_and_alias`: the Python member name -/
def NameKind.py (sc : Bool) : NameKind → Tok
  | .plain => .n | .alias => .foo_bar | .keyword => .class_
  | .camel => if sc then .foo_bar else .fooBar

/-- an alias is produced exactly when the name had to be changed -/
def NameKind.hasAlias (sc : Bool) (k : NameKind) : Bool := k.py sc != k.orig

def Dflt.given : Dflt → Bool
  | .none => false
  | _ => true

/-- Python value of `field.default` is `None` (so `represented_default == 'None'`) -/
def Dflt.isNone : Dflt → Bool
  | .none | .null => true
  | _ => false

/-- `isinstance(default, (list, dict))` -/
def Dflt.isMutable : Dflt → Bool
  | .listE | .listN | .dictE | .dictN => true
  | _ => false

def Dflt.isNonEmptyMutable : Dflt → Bool
  | .listN | .dictN => true
  | _ => false

/-- which member types a default class can belong to -/
def Dflt.fits : Dflt → Ty → Bool
  | .none, _ | .null, _ => true
  | .falsy, .scalar | .truthy, .scalar | .str, .scalar => true
  | .listE, .array | .listN, .array => true
  | .dictE, .object | .dictN, .object => true
  | _, _ => false

/-- the schema admits null -/
def NullSrc.admitsNull : NullSrc → Bool
  | .no => false
  | _ => true

/-- Vectors that can be realised and that the generator accepts: the default fits the type, no
constraint keyword exists for dict-typed members, and `use_annotated` requires `field_constraints`
(`generate()` raises otherwise). -/
def Vec.valid (v : Vec) : Bool :=
  v.dflt.fits v.ty && !(v.constr && v.ty == .object) && !(v.opts.an && !v.opts.fc) &&
  (v.via == .own || v.inreq)   -- the allOf forms are only built for a listed member

/-! ## Stage 1 — `JsonSchemaParser.parse_object_fields` / `get_object_field`, `OpenAPIParser.get_data_type` -/

/-- The vector after `parse_object_fields` has decided `required`: membership in the `required`
list, `--force-optional` and `--use-default` influence the generator through this one Boolean only
(everything below is a function of the reduced vector, which is what makes the exhaustive kernel
proofs four times smaller). -/
structure RVec where
  kind : Kind
  nullsrc : NullSrc
  required : Bool
  dflt : Dflt
  ty : Ty
  constr : Bool
  sn : Bool
  sd : Bool
  an : Bool
  fc : Bool
  late : Bool      -- `required` became True only after the field object was built (allOf forms)
  hasAlias : Bool  -- `field.alias is not None`
  deriving DecidableEq, Repr, Inhabited

/-- the names listed as required, wherever the list is written (JSON names) -/
def Vec.requiredNames (v : Vec) : List Tok := if v.inreq then [v.name.orig] else []

/-- `field.original_name or field.name` — the key the allOf code looks a field up by;
`original_name` is always set by `parse_object_fields` -/
def Vec.lookupKey (v : Vec) : Tok := (some v.name.orig).getD (v.name.py v.sc)

/-- Is the member listed? `parse_object_fields` tests `original_field_name in requires` (own list);
`_parse_object_common_part` tests `(field.original_name or field.name) in required` for the names
collected from allOf items without properties, and looks `obj.required` entries up in
`{f.original_name or f.name: f}` for the schema owning the allOf. All three compare JSON names. -/
def Vec.listed (v : Vec) : Bool :=
  match v.via with
  | .own => v.requiredNames.contains v.name.orig
  | .sibling => v.requiredNames.contains v.lookupKey
  | .owner => v.requiredNames.any (fun r => r == v.lookupKey)

/-- `parse_object_fields`:
```
if self.force_optional_for_required_fields or (self.apply_default_values_for_required_fields and field.has_default):
    required = False
else:
    required = original_field_name in requires
``` -/
def Vec.finalRequired (v : Vec) : Bool :=
  -- every one of the three code paths skips the member under the same relaxation
  if v.opts.fo || (v.opts.ud && v.dflt.given) then false else v.listed

def Vec.reduce (v : Vec) : RVec :=
  { kind := v.kind, nullsrc := v.nullsrc
    required := v.finalRequired
    dflt := v.dflt, ty := v.ty, constr := v.constr
    sn := v.opts.sn, sd := v.opts.sd, an := v.opts.an, fc := v.opts.fc
    -- in the allOf forms the item's own `required` list is empty when `get_object_field` runs;
    -- `_parse_object_common_part` sets `field.required = True` afterwards
    late := v.via != .own && v.finalRequired
    hasAlias := v.name.hasAlias v.sc }

def RVec.valid (v : RVec) : Bool :=
  v.dflt.fits v.ty && !(v.constr && v.ty == .object) && !(v.an && !v.fc) && !(v.late && !v.required)

/-- state of `field.constraints` -/
inductive Cons where
  | none      -- `constraints=None`
  | empty     -- a constraints object without any keyword set
  | keyword   -- at least one keyword set
  deriving DecidableEq, Repr, Inhabited

structure FieldRec where
  required : Bool
  nullable : Option Bool
  hasDefault : Bool
  dflt : Dflt
  typeHasNull : Bool
  stripDefaultNone : Bool
  dataTypeIsOptional : Bool
  useAnnotated : Bool
  hasAlias : Bool
  constraints : Cons
  ty : Ty
  deriving DecidableEq, Repr, Inhabited

/-- `obj.type` is a list containing "null" when the member's data type is computed.
`OpenAPIParser.get_data_type` rewrites `type: T, nullable: true` into `[T, "null"]` under
strict-nullable — but `get_data_type` is only reached for scalar members (arrays go through
`parse_array_fields`, `type: object` through `parse_object`/dict handling). -/
def typeListHasNull (v : RVec) : Bool :=
  match v.nullsrc with
  | .typelist => true
  | .flag => v.sn && v.ty == .scalar
  | .no => false

/-- `JsonSchemaObject.nullable` (the OpenAPI keyword; default `False`) -/
def schemaNullableFlag (v : RVec) : Bool :=
  match v.nullsrc with
  | .flag => true
  | _ => false

/-- `DataType.is_optional` of the member's data type: `get_data_type` sets it from
`"null" in obj.type`; a type *list* is never `is_object`, so list-typed objects also take that
path; arrays never do. -/
def dataTypeIsOptional (v : RVec) : Bool :=
  typeListHasNull v && v.ty != .array

/-- `is_constraints_field(field)`: `obj.is_array or (field_constraints and not (… or obj.is_object or …))`;
`is_object` needs `type == "object"` (a string), so a type list is not an object. -/
def constraintsOf (v : RVec) : Cons :=
  let isObjectStr := v.ty == .object && !(v.nullsrc == .typelist)
  if v.ty == .array || (v.fc && !isObjectStr) then
    -- the TypedDict field class keeps the base `ConstraintsBase`, which only knows `uniqueItems`:
    -- the keyword is dropped there (it is not rendered by that kind anyway)
    (if v.constr && v.kind != .td then .keyword else .empty)
  else .none

/-- `get_object_field` -/
def fromReduced (v : RVec) : FieldRec :=
  let hasDefault := v.dflt.given
  { required := v.required
    -- nullable=field.nullable if self.strict_nullable and (field.has_default or required) else None
    -- (`required` as it is when the field object is built: still False in the allOf forms)
    nullable := if v.sn && (hasDefault || (v.required && !v.late)) then some (schemaNullableFlag v) else none
    hasDefault := hasDefault
    dflt := v.dflt
    typeHasNull := typeListHasNull v
    stripDefaultNone := v.sd
    dataTypeIsOptional := dataTypeIsOptional v
    useAnnotated := v.an
    hasAlias := v.hasAlias
    constraints := constraintsOf v
    ty := v.ty }

def fromSchema (v : Vec) : FieldRec := fromReduced v.reduce

/-! ## Stage 2a — `DataModelFieldBase.type_hint` -/

/-- `TypedDict` `DataModelField._not_required` -/
def notRequired (k : Kind) (f : FieldRec) : Bool := k == .td && !f.required

/-- `fall_back_to_nullable`: `True` except for a not-required TypedDict member -/
def fallBackToNullable (k : Kind) (f : FieldRec) : Bool := !notRequired k f

/-- Does the rendered annotation (without a `NotRequired[…]` wrapper) admit `None`?
The five-way decision of `DataModelFieldBase.type_hint`; `data_type.type_hint` is itself
`Optional[…]` when `data_type.is_optional`. -/
def fieldTypeHintOptional (k : Kind) (f : FieldRec) : Bool :=
  if f.dataTypeIsOptional then true
  else match f.nullable with
    | some b => b
    | none =>
      if f.required then f.typeHasNull
      else fallBackToNullable k f

/-! ## Stage 2b — `__str__` / `field` / `annotated` of the field classes -/

/-- class of a rendered default value -/
abbrev DV := Dflt

inductive Asg where
  | none                 -- no `= …`
  | lit (d : DV)         -- `= <repr(default)>`
  | fieldReq             -- `= Field(..., …)`
  | fieldDflt (d : DV)   -- `= Field(<repr(default)>, …)` or, under use_default_kwarg, `= Field(default=<repr(default)>, …)`
  | fieldNoDefault       -- `= Field(<keywords only>)`
  | factory (d : DV)     -- `= field(default_factory=lambda :<repr(default)>)`
  | msField (d : Option DV)  -- msgspec `= field(name='…')` / `= field(name='…', default=<repr(default)>)`
  deriving DecidableEq, Repr, Inhabited

inductive Ann where
  | no        -- plain annotation
  | plain     -- `Annotated[T, Field(<keywords>)]` / `Annotated[T, Meta(…)]`
  | req       -- `Annotated[T, Field(...)]`
  deriving DecidableEq, Repr, Inhabited

structure Shape where
  opt : Bool   -- annotation admits None
  nr : Bool    -- wrapped in NotRequired[…]
  ann : Ann
  asg : Asg
  deriving DecidableEq, Repr, Inhabited

/-- result of pydantic `DataModelField.__str__` -/
inductive PStr where
  | empty          -- ""
  | ellipsisOnly   -- "Field(...)"
  | argsOnly       -- "Field(k=v, …)" (use_annotated: no default/... argument)
  | req            -- "Field(..., k=v, …)"
  | dflt           -- "Field(<default>, k=v, …)"
  deriving DecidableEq, Repr

/-- pydantic (v1 and v2) `DataModelField.__str__`: `data` holds the alias and the constraint
keywords (no extras); `default_factory` is `None` for the member types of the space. -/
def pydStr (f : FieldRec) : PStr :=
  let hasArgs := f.constraints == .keyword || f.hasAlias
  if !hasArgs then
    (if f.nullable == some true && f.required then .ellipsisOnly else .empty)
  else if f.useAnnotated then .argsOnly
  else if f.required then .req
  else .dflt

/-- pydantic `annotated`: `None` unless `use_annotated` and `str(self)` is non-empty -/
def pydAnnotated (f : FieldRec) : Ann :=
  if !f.useAnnotated then .no
  else match pydStr f with
    | .empty => .no
    | .ellipsisOnly => .req
    | _ => .plain

/-- pydantic `field`: `str(self)` (with `Field(` → `Field(default=` under use_default_kwarg
unless it starts with `Field(...`: spelling only, not modelled) -/
def pydFieldAsg (f : FieldRec) : Option Asg :=
  match pydStr f with
  | .empty => none
  | .ellipsisOnly | .req => some .fieldReq
  | .argsOnly => some .fieldNoDefault
  | .dflt => some (.fieldDflt f.dflt)

/-- dataclass `DataModelField.__str__` / `field` -/
def dcFieldAsg (f : FieldRec) : Option Asg :=
  if f.required || f.dflt.isNone then none
  else if f.dflt.isMutable then some (.factory f.dflt)
  else some (.lit f.dflt)

/-- msgspec `DataModelField.__str__` / `field`: `data["default"]` is the default, or `None` for a
non-required member; dropped again when required -/
def msFieldAsg (f : FieldRec) : Option Asg :=
  -- `data["name"] = alias`; one-key `{"default": …}` is written as a bare literal, anything else as `field(…)`
  if f.hasAlias then some (.msField (if f.required then none else some f.dflt))
  else if f.required then none else some (.lit f.dflt)

/-- msgspec `annotated`: `Meta(…)` only takes keys of `_META_FIELD_KEYS` — `max_items`/`min_items`
are not among them, so only scalar constraints produce an `Annotated[…]` -/
def msAnnotated (f : FieldRec) : Bool :=
  f.useAnnotated && f.constraints == .keyword && f.ty == .scalar

/-- `_has_field_assignment(field)` of `model/dataclass.py` and `model/msgspec.py`: the key by which
`DataClass.__init__` / `Struct.__init__` stably sort the members (`sorted(fields, key=…)`), so that
members without a default come first. Other kinds keep the schema order (`none`). -/
def sortKey (k : Kind) (f : FieldRec) : Option Bool :=
  let noAssign := f.required || (f.dflt.isNone && f.stripDefaultNone)
  match k with
  | .dc => some ((dcFieldAsg f).isSome || !noAssign)
  | .ms => some (!noAssign)
  | _ => none

/-! ## Stage 2c — the class template: which outputs are written for a member -/

structure Env where
  required : Bool
  field : Bool
  annotated : Bool
  reprDefaultIsNone : Bool
  stripDefaultNone : Bool
  dataTypeIsOptional : Bool
  nullable : Bool
  deriving Repr

def evalAtom (e : Env) : Atom → Bool
  | .required => e.required
  | .field => e.field
  | .annotated => e.annotated
  | .reprDefaultIsNone => e.reprDefaultIsNone
  | .stripDefaultNone => e.stripDefaultNone
  | .dataTypeIsOptional => e.dataTypeIsOptional
  | .nullable => e.nullable
  | .docstring => false
  | .hasFields => true
  | .other _ => false

def eval (e : Env) : BoolExpr → Bool
  | .tt => true
  | .atom a => evalAtom e a
  | .not x => !(eval e x)
  | .and a b => eval e a && eval e b
  | .or a b => eval e a || eval e b

/-- Kleene evaluation of the condition guarding the member loop: atoms the translator does not
know are unknown, `fields` is non-empty inside the loop. -/
def evalGuard : BoolExpr → Option Bool
  | .tt => some true
  | .atom .hasFields => some true
  | .atom _ => none
  | .not x => (evalGuard x).map (!·)
  | .and a b => match evalGuard a, evalGuard b with
    | some false, _ | _, some false => some false
    | some true, some true => some true
    | _, _ => none
  | .or a b => match evalGuard a, evalGuard b with
    | some true, _ | _, some true => some true
    | some false, some false => some false
    | _, _ => none

def atomKnown : Atom → Bool
  | .other _ => false
  | _ => true

def exprKnown : BoolExpr → Bool
  | .tt => true
  | .atom a => atomKnown a
  | .not x => exprKnown x
  | .and a b => exprKnown a && exprKnown b
  | .or a b => exprKnown a && exprKnown b

def rulesOf : Kind → List Rule
  | .v1 => pydanticV1
  | .v2 => pydanticV2
  | .dc => dataclass
  | .td => typedDictClass
  | .ms => msgspec

def guardOf : Kind → List BoolExpr
  | .v1 => pydanticV1Guard
  | .v2 => pydanticV2Guard
  | .dc => dataclassGuard
  | .td => typedDictClassGuard
  | .ms => msgspecGuard

def emitted (k : Kind) (e : Env) : List Emit :=
  ((rulesOf k).filter (fun r => eval e r.cond)).map (·.emit)

def bools : List Bool := [false, true]

def allEnvs : List Env :=
  bools.flatMap fun a => bools.flatMap fun b => bools.flatMap fun c => bools.flatMap fun d =>
  bools.flatMap fun x => bools.flatMap fun y => bools.map fun z => ⟨a, b, c, d, x, y, z⟩

def count (xs : List Emit) (p : Emit → Bool) : Nat := (xs.filter p).length

/-- Side condition on the generated table of one template: every condition uses known atoms only,
no output the translator could not place, the member loop is reached, and for every valuation
exactly one annotation and at most one `= …` is written. -/
def templateWellFormed (k : Kind) : Bool :=
  (rulesOf k).all (fun r => exprKnown r.cond && r.emit != .other) &&
  (guardOf k).length == 1 && (guardOf k).all (fun g => evalGuard g == some true) &&
  allEnvs.all (fun e =>
    let em := emitted k e
    count em (fun x => x == .typeHint || x == .annotated) == 1 &&
    count em (fun x => x == .assignField || x == .assignDefault) ≤ 1)

/-- the functional-syntax TypedDict template writes the same annotation -/
def typedDictFunctionAgrees : Bool :=
  typedDictFunction.map (·.emit) == typedDictClass.map (·.emit) &&
  typedDictFunction.all (fun r => r.cond == .tt) && typedDictClass.all (fun r => r.cond == .tt)

/-! ## Stage 2 — the rendered member -/

structure FieldView where
  fieldAsg : Option Asg   -- `field.field` (None = falsy)
  annotated : Ann         -- `field.annotated` (`.no` = falsy)
  annOpt : Bool           -- does the annotation admit None when written through `field.annotated`?
  deriving Repr

def fieldView (k : Kind) (f : FieldRec) : FieldView :=
  let th := fieldTypeHintOptional k f
  match k with
  | .v1 | .v2 => ⟨pydFieldAsg f, pydAnnotated f, th⟩
  | .dc => ⟨dcFieldAsg f, .no, th⟩
  | .td => ⟨none, .no, th⟩
  | .ms =>
    -- not required: `Optional[Annotated[data_type.type_hint, Meta]]`; required: `Annotated[type_hint, Meta]`
    ⟨msFieldAsg f, if msAnnotated f then .plain else .no, if !f.required then true else th⟩

def envOf (f : FieldRec) (fv : FieldView) : Env :=
  { required := f.required
    field := fv.fieldAsg.isSome
    annotated := fv.annotated != .no
    reprDefaultIsNone := f.dflt.isNone
    stripDefaultNone := f.stripDefaultNone
    dataTypeIsOptional := f.dataTypeIsOptional
    nullable := f.nullable == some true }

/-- what the class template writes for one member -/
structure Decision where
  useAnnotated : Bool    -- the annotation is `field.annotated` (else `field.type_hint`)
  assignField : Bool     -- ` = {{ field.field }}`
  assignDefault : Bool   -- ` = {{ field.represented_default }}`
  deriving DecidableEq, Repr

/-- the decision read off the generated table of the kind's template -/
def tableDecision (k : Kind) (e : Env) : Decision :=
  let em := emitted k e
  ⟨em.contains .annotated, em.contains .assignField, em.contains .assignDefault⟩

/-- The rendered member, given the template's decision function `dec` (the model instantiates it
with `tableDecision`; proofs replace it by a closed form proved equal to the table). -/
def renderFieldD (dec : Kind → Env → Decision) (k : Kind) (f : FieldRec) : Shape :=
  let fv := fieldView k f
  let d := dec k (envOf f fv)
  { opt := if d.useAnnotated then fv.annOpt else fieldTypeHintOptional k f
    nr := notRequired k f
    ann := if d.useAnnotated then fv.annotated else .no
    asg :=
      if d.assignField then fv.fieldAsg.getD .none
      else if d.assignDefault then .lit f.dflt
      else .none }

def renderD (dec : Kind → Env → Decision) (v : RVec) : Shape := renderFieldD dec v.kind (fromReduced v)

def renderField : Kind → FieldRec → Shape := renderFieldD tableDecision

def render (v : Vec) : Shape := renderD tableDecision v.reduce

/-! ## Stage 3 — authored semantics of the rendered member in the target library -/

inductive Omitted where
  | rejected          -- construction without the member fails
  | absent            -- the key is simply not there (TypedDict)
  | value (d : DV)    -- reads as this default (`.none`/`.null` = Python `None`)
  deriving DecidableEq, Repr, Inhabited

structure Sem where
  loads : Bool        -- the class can be created at all
  mustSupply : Bool
  acceptsNull : Bool
  omitted : Omitted
  shared : Bool       -- a mutable default object is shared between instances
  deriving DecidableEq, Repr, Inhabited

/-- the default carried by an assignment, if any -/
def Asg.default? : Asg → Option DV
  | .lit d | .fieldDflt d | .factory d | .msField (some d) => some d
  | _ => Option.none

def semOf (k : Kind) (s : Shape) : Sem :=
  match k with
  | .v2 =>
    -- pydantic 2: required iff no default is given; `Optional[T]` does not imply a default;
    -- None is accepted iff the annotation admits it; defaults are copied per instance.
    match s.asg.default? with
    | some d => ⟨true, false, s.opt, .value d, false⟩
    | none => ⟨true, true, s.opt, .rejected, false⟩
  | .v1 =>
    -- pydantic 1: a bare `Optional[T]` annotation implies `= None`; `Field(...)` (also inside
    -- Annotated) makes it required; a `None` default makes the field accept None; defaults are deep-copied.
    match s.asg.default? with
    | some d => ⟨true, false, s.opt || d.isNone, .value d, false⟩
    | none =>
      if s.opt && s.asg == .none && s.ann != .req then ⟨true, false, true, .value .none, false⟩
      else ⟨true, true, s.opt, .rejected, false⟩
  | .dc =>
    -- dataclasses: a list/dict literal default is refused at class creation (ValueError)
    match s.asg with
    | .none => ⟨true, true, s.opt, .rejected, false⟩
    | .factory d => ⟨true, false, s.opt, .value d, false⟩
    | a => match a.default? with
      | some d => ⟨!d.isMutable, false, s.opt, .value d, false⟩
      | none => ⟨false, false, s.opt, .rejected, false⟩
  | .td =>
    ⟨true, !s.nr, s.opt, if s.nr then .absent else .rejected, false⟩
  | .ms =>
    -- msgspec (authored from its documentation; not installed here): empty list/dict literals are
    -- copied per instance, non-empty mutable literals are refused when the Struct is created
    match s.asg with
    | .none | .msField none => ⟨true, true, s.opt, .rejected, false⟩
    | .lit d | .msField (some d) => ⟨!d.isNonEmptyMutable, false, s.opt, .value d, false⟩
    | a => match a.default? with
      | some d => ⟨true, false, s.opt, .value d, false⟩
      | none => ⟨false, false, s.opt, .rejected, false⟩

def semD (dec : Kind → Env → Decision) (v : RVec) : Sem := semOf v.kind (renderD dec v)

def sem (v : Vec) : Sem := semD tableDecision v.reduce

/-! ## One spelling option that is not only spelling

`--use-generic-container-types` writes an array member as `Sequence[…]` (the two sibling spelling
options `--use-union-operator` and `--use-standard-collections` change nothing the model speaks
about). pydantic 1 refuses to create a class in which a `Sequence[…]` field carries `max_items`
("field constraints are set but not enforced"), so with that option a constrained array member of
pydantic-1 output has no class at all. The option is kept out of `Vec` (every other statement is
independent of it); `semG` is the semantics with it. -/

def v1SequenceConstraint (v : Vec) (ug : Bool) : Bool :=
  ug && v.kind == .v1 && v.ty == .array && (fromSchema v).constraints == .keyword

def semG (v : Vec) (ug : Bool) : Sem :=
  if v1SequenceConstraint v ug then { sem v with loads := false } else sem v

/-! ## Enumeration of the finite space (for `decide`) -/

def Kind.all : List Kind := [.v1, .v2, .dc, .td, .ms]
def Dflt.all : List Dflt := [.none, .null, .falsy, .truthy, .str, .listE, .listN, .dictE, .dictN]
def Ty.all : List Ty := [.scalar, .array, .object]
def NullSrc.all : List NullSrc := [.no, .typelist, .flag]

theorem Kind.mem_all (k : Kind) : k ∈ Kind.all := by cases k <;> decide
theorem Dflt.mem_all (k : Dflt) : k ∈ Dflt.all := by cases k <;> decide
theorem Ty.mem_all (k : Ty) : k ∈ Ty.all := by cases k <;> decide
theorem NullSrc.mem_all (k : NullSrc) : k ∈ NullSrc.all := by cases k <;> decide

instance {p : Kind → Prop} [DecidablePred p] : Decidable (∀ k, p k) :=
  decidable_of_iff (∀ k ∈ Kind.all, p k) ⟨fun h k => h k (Kind.mem_all k), fun h k _ => h k⟩
instance {p : Dflt → Prop} [DecidablePred p] : Decidable (∀ k, p k) :=
  decidable_of_iff (∀ k ∈ Dflt.all, p k) ⟨fun h k => h k (Dflt.mem_all k), fun h k _ => h k⟩
instance {p : Ty → Prop} [DecidablePred p] : Decidable (∀ k, p k) :=
  decidable_of_iff (∀ k ∈ Ty.all, p k) ⟨fun h k => h k (Ty.mem_all k), fun h k _ => h k⟩
instance {p : NullSrc → Prop} [DecidablePred p] : Decidable (∀ k, p k) :=
  decidable_of_iff (∀ k ∈ NullSrc.all, p k) ⟨fun h k => h k (NullSrc.mem_all k), fun h k _ => h k⟩

/-- Quantification over all *valid* reduced vectors satisfying an early guard `g`, component by
component (each component type is finite); guards are placed as early as possible so that a
kernel `decide` never descends into pruned sub-spaces. -/
def AllR (g : Bool → Dflt → NullSrc → Bool) (p : RVec → Prop) : Prop :=
  ∀ (r : Bool) (d : Dflt) (n : NullSrc), g r d n = true →
  ∀ (t : Ty), d.fits t = true → ∀ (c : Bool), (c && t == .object) = false →
  ∀ (an fc : Bool), (an && !fc) = false → ∀ (late : Bool), (late && !r) = false →
  ∀ (k : Kind) (sn sd al : Bool), p ⟨k, n, r, d, t, c, sn, sd, an, fc, late, al⟩

instance {g} {p : RVec → Prop} [DecidablePred p] : Decidable (AllR g p) := by
  unfold AllR; exact inferInstance

theorem allR {g} {p : RVec → Prop} (h : AllR g p) :
    ∀ v : RVec, v.valid = true → g v.required v.dflt v.nullsrc = true → p v := by
  intro v hv hg
  obtain ⟨k, n, r, d, t, c, sn, sd, an, fc, late, al⟩ := v
  simp only [RVec.valid, Bool.and_eq_true, Bool.not_eq_true'] at hv
  exact h r d n hg t hv.1.1.1 c hv.1.1.2 an fc hv.1.2 late hv.2 k sn sd al

/-- a valid vector reduces to a valid reduced vector -/
theorem Vec.valid_reduce (v : Vec) (hv : v.valid = true) : v.reduce.valid = true := by
  simp only [Vec.valid, Bool.and_eq_true] at hv
  simp only [RVec.valid, Vec.reduce, Bool.and_eq_true]
  refine ⟨⟨⟨hv.1.1.1, hv.1.1.2⟩, hv.1.2⟩, ?_⟩
  cases v.finalRequired <;> simp

end Dcg.Model.Field
