import Dcg.Model.Names
import Dcg.Model.Escape
import Dcg.Py.Lex
import Dcg.Gen.EscTables
import Dcg.Gen.EnumSites
/-
Dcg.Model.Enum — transliteration of `JsonSchemaParser.parse_enum` (member construction),
`parse_enum_as_literal`, `should_parse_enum_as_literal`, `model/enum.py Enum.find_member` and the
`if model_field.default is None` guard of `Parser.__set_default_enum_member` (only a MISSING default is
skipped; falsy defaults `0` / `""` / `false` are looked up like any other).

Enum entries are scalar JSON values (`JVal`); lists/objects as enum entries are outside the model.
A float is its `repr` token together with its integer value when it is integral (both supplied by
the harness: the model never does floating-point arithmetic). `repr(value)` in `find_member` is a
parameter (`reprValue`, supplied by the harness / quantified in the theorems).
What the templates do with a member (`{{ field.name }} = {{ field.default }}`): a string default is
the quoted literal text, read back by the Python lexer (Dcg/Py/Lex); any other default is rendered
with `str()` and read back as the same value — that read-back of numerals is NOT modelled.
-/
namespace Dcg.Model.Enum
open Dcg.Model.Names Dcg.Model.Escape Dcg.Gen.EscTables

inductive JVal where
  | str (s : List Char)
  | int (i : Int)
  | float (tok : List Char) (intVal : Option Int)
  | bool (b : Bool)
  | null
  deriving DecidableEq, Repr

def intStr (i : Int) : List Char :=
  if i < 0 then '-' :: digits i.natAbs else digits i.toNat

/-- `str(v)` -/
def JVal.pyStr : JVal → List Char
  | .str s => s
  | .int i => intStr i
  | .float tok _ => tok
  | .bool true => ['T', 'r', 'u', 'e']
  | .bool false => ['F', 'a', 'l', 's', 'e']
  | .null => ['N', 'o', 'n', 'e']

/-- `type(v).__name__` -/
def JVal.typeName : JVal → List Char
  | .str _ => ['s', 't', 'r']
  | .int _ => ['i', 'n', 't']
  | .float _ _ => ['f', 'l', 'o', 'a', 't']
  | .bool _ => ['b', 'o', 'o', 'l']
  | .null => ['N', 'o', 'n', 'e', 'T', 'y', 'p', 'e']

/-- `v is None` -/
def JVal.isNull : JVal → Bool
  | .null => true
  | _ => false

def JVal.isStr : JVal → Bool
  | .str _ => true
  | _ => false

/-- Python `==` between scalar JSON values: `True == 1 == 1.0`, strings and None only equal themselves -/
def numKey : JVal → Option (Int ⊕ List Char)
  | .int i => some (.inl i)
  | .bool b => some (.inl (if b then 1 else 0))
  | .float _ (some n) => some (.inl n)
  | .float tok none => some (.inr tok)
  | _ => none

def pyEq (a b : JVal) : Bool :=
  match a, b with
  | .str s, .str t => s == t
  | .null, .null => true
  | _, _ =>
    match numKey a, numKey b with
    | some x, some y => x == y
    | _, _ => false

structure EnumObj where
  /-- `obj.type` when it is a single string (None and type lists behave alike in `parse_enum`) -/
  ty : Option (List Char)
  values : List JVal
  /-- `x-enum-varnames` -/
  varnames : List (List Char) := []

/-- `field.default` of a member: the quoted literal text for a string, the value itself otherwise -/
inductive Default where
  | lit (text : List Char)
  | raw (v : JVal)
  deriving DecidableEq, Repr

abbrev Member := List Char × Default

def strT : List Char := ['s', 't', 'r', 'i', 'n', 'g']

/-- the null split: only when `None in obj.enum and obj.type == "string"` -/
def enumTimes (o : EnumObj) : List JVal × Bool :=
  if o.values.contains .null && o.ty == some strT then (o.values.filter (· != .null), true)
  else (o.values, false)

/-- the string handed to the enum resolver for entry `i` -/
def nameSource (o : EnumObj) (i : Nat) (v : JVal) : Res (List Char) :=
  if o.varnames.isEmpty then
    if o.ty == some strT || v.isStr then .ok v.pyStr
    else .ok (o.ty.getD v.typeName ++ '_' :: v.pyStr)
  else
    match o.varnames[i]? with
    | some n => .ok n
    | none => .error   -- IndexError

/-- `f"'{enum_part.translate(escape_characters)}'"` for strings -/
def memberDefault : JVal → Default
  | .str s => .lit (quoted '\'' enumTable s)
  | v => .raw v

/-- the member loop of `parse_enum`: names through the enum resolver, excludes accumulate -/
def foldMembers (E : Env) (cfg : Cfg) (o : EnumObj) :
    List JVal → Nat → List (List Char) → Res (List Member)
  | [], _, _ => .ok []
  | v :: vs, i, excl =>
    match nameSource o i v with
    | .ok src =>
      match getValidName E .enum cfg src excl false false with
      | .ok n => (foldMembers E cfg o vs (i + 1) (n :: excl)).map ((n, memberDefault v) :: ·)
      | .outOfFuel => .outOfFuel
      | .error => .error
    | .outOfFuel => .outOfFuel
    | .error => .error

/-! ### the call sites of the enum resolver

`foldMembers` is the loop both callers run (`field_name = get_valid_field_name(…, excludes=exclude_field_names,
model_type=ModelType.ENUM)`, then `exclude_field_names.add(field_name)`). What the excludes set holds BEFORE the
first member is a property of the call site and is read off the source (`Dcg.Gen.EnumSites.sites`). -/

/-- initial excludes of the call site with that qualified name (`[]` for a name the translator did not find) -/
def siteInit (name : String) : List (List Char) :=
  ((Dcg.Gen.EnumSites.sites.find? (·.name == name)).map (·.init)).getD []

/-- `JsonSchemaParser.parse_enum` (JSON Schema and, by inheritance, OpenAPI) -/
def jsonInit : List (List Char) := siteInit "JsonSchemaParser.parse_enum"

/-- `GraphQLParser.parse_enum` -/
def graphqlInit : List (List Char) := siteInit "GraphQLParser.parse_enum"

/-- members of the Enum class and whether a nullable wrapper (`Optional` root type) is generated -/
def parseEnum (E : Env) (cfg : Cfg) (o : EnumObj) : Res (List Member × Bool) :=
  (foldMembers E cfg o (enumTimes o).1 0 jsonInit).map (·, (enumTimes o).2)

/-- the schema object a GraphQL enum type amounts to: every value is its own name, a string -/
def graphqlObj (names : List (List Char)) : EnumObj := ⟨some strT, names.map .str, []⟩

/-- `GraphQLParser.parse_enum`: the value names (in the order of the sorted schema, supplied by the harness) go
through the same resolver loop, started from the GraphQL site's own excludes; the member default is
`f"'{value_name.translate(escape_characters)}'"`; no null split, no `x-enum-varnames` -/
def parseGraphqlEnum (E : Env) (cfg : Cfg) (names : List (List Char)) : Res (List Member) :=
  foldMembers E cfg (graphqlObj names) (names.map .str) 0 graphqlInit

/-- what the member's right-hand side evaluates to when Python reads the rendered class
(`name = <default>` followed by a newline) -/
def evalDefault : Default → Option JVal
  | .lit text => (Dcg.Py.Lex.lit '\'' (text ++ ['\n'])).map (fun r => JVal.str r.1)
  | .raw v => some v

/-- `parse_enum_as_literal` -/
def parseEnumAsLiteral (o : EnumObj) : List JVal := o.values.filter (· != .null)

inductive LiteralMode where
  | off | one | all
  deriving DecidableEq, Repr

/-- `should_parse_enum_as_literal` -/
def shouldParseAsLiteral (m : LiteralMode) (o : EnumObj) : Bool :=
  m == .all || (m == .one && o.values.length == 1)

/-- members that `list(EnumClass)` yields: a member whose value equals (Python `==`) the value of an
earlier member is an alias of it -/
def effectiveValues : List JVal → List JVal
  | [] => []
  | v :: vs => v :: (effectiveValues vs).filter (fun w => !pyEq v w)

/-! ### default → member (`find_member`) -/

def isQ (c : Char) : Bool := c == '\'' || c == '"'

/-- `s.strip("'\"")` -/
def stripQ (s : List Char) : List Char := ((s.dropWhile isQ).reverse.dropWhile isQ).reverse

/-- `field.default is None` (the member `NoneType_None = None` of known finding D12) -/
def Default.isNone : Default → Bool
  | .raw .null => true
  | _ => false

/-- `str(field.default)` -/
def Default.pyStr : Default → List Char
  | .lit t => t
  | .raw v => v.pyStr

/-- one member of the loop of `find_member`: a member without value (`field.default is None`) is skipped,
otherwise the two comparisons (`str(field.default).strip("'\"") == str(value).strip("'\"")`, then
`field.default == repr(value)`, which only a string default can satisfy) -/
def memberMatches (value : JVal) (reprValue : List Char) (m : Member) : Bool :=
  !m.2.isNone &&
    (stripQ m.2.pyStr == stripQ value.pyStr ||
      (match m.2 with
       | .lit t => t == reprValue
       | .raw _ => false))

/-- `Enum.find_member(value)`; `reprValue` = `repr(value)` -/
def findMember (ms : List Member) (value : JVal) (reprValue : List Char) : Option (List Char) :=
  (ms.find? (memberMatches value reprValue)).map (·.1)

/-- `__set_default_enum_member` for a scalar default: only a missing default (`None`) is skipped -/
def defaultMember (ms : List Member) (value : JVal) (reprValue : List Char) : Option (List Char) :=
  if value.isNull then none else findMember ms value reprValue


/-! ### `Parser.__set_default_enum_member` over a whole run: `Member` objects and their aliases

`Enum.find_member` returns `self.get_member(field)`, i.e. `Member(self, field)`: a NEW object on every
call. `__set_default_enum_member` stores it as the field's default and then WRITES the import alias of the
field's data type onto it (`enum_member.alias = data_type.alias`). The text is produced much later
(`Member.__repr__` inside the template, after every module has been processed). Object identity matters,
so the `Member` objects live in a heap (a list, address = index): `getMember` allocates, `setAliasAt`
mutates in place, `MemberObj.repr` reads the final state. -/

/-- a `Member` object: `self.enum` (its `name` is all that is read), `self.field.name`, `self.alias` -/
structure MemberObj where
  enumName : List Char
  fieldName : List Char
  alias : Option (List Char) := none
  deriving DecidableEq, Repr

abbrev Heap := List MemberObj

/-- `self.alias or self.enum.name` -/
def aliasOr (alias : Option (List Char)) (enumName : List Char) : List Char :=
  match alias with
  | some (c :: cs) => c :: cs
  | _ => enumName

/-- `Member.__repr__`: `f"{self.alias or self.enum.name}.{self.field.name}"` -/
def MemberObj.repr (m : MemberObj) : List Char := aliasOr m.alias m.enumName ++ '.' :: m.fieldName

/-- `Enum.get_member(field)` = `Member(self, field)`: allocates; returns the new heap and the address -/
def getMember (h : Heap) (enumName fieldName : List Char) : Heap × Nat :=
  (h ++ [{ enumName := enumName, fieldName := fieldName }], h.length)

/-- `member.alias = a` on the object at address `i` -/
def setAliasAt : Heap → Nat → List Char → Heap
  | [], _, _ => []
  | m :: ms, 0, a => { m with alias := some a } :: ms
  | m :: ms, i + 1, a => m :: setAliasAt ms i a

/-- `for enum_member_ in enum_member: enum_member_.alias = data_type.alias` -/
def setAliases (h : Heap) (addrs : List Nat) (a : List Char) : Heap :=
  addrs.foldl (fun acc i => setAliasAt acc i a) h

/-- the default of a model field: a scalar (with its `repr`) or a list of scalars -/
inductive DVal where
  | scalar (v : JVal) (reprValue : List Char)
  | list (vs : List (JVal × List Char))
  deriving Repr

/-- one model field whose data type refers to an enum: the enum (name and members), `data_type.alias`
as `__change_from_import` left it for the module of the field (`none` in the module that defines the
enum), the default -/
structure Step where
  enumName : List Char
  members : List Member
  dtAlias : Option (List Char)
  default : DVal

/-- what the field's default is afterwards: untouched, one `Member`, a list of `Member`s (addresses) -/
inductive Out where
  | unchanged
  | one (addr : Nat)
  | many (addrs : List Nat)
  deriving DecidableEq, Repr

/-- `if data_type.alias:` -/
def truthyAlias : Option (List Char) → Option (List Char)
  | some (c :: cs) => some (c :: cs)
  | _ => none

/-- `[e for e in (source.find_member(d) for d in default) if e]` -/
def findAll (h : Heap) (enumName : List Char) (ms : List Member) : List (JVal × List Char) → Heap × List Nat
  | [] => (h, [])
  | (v, r) :: rest =>
    match findMember ms v r with
    | none => findAll h enumName ms rest
    | some n =>
      let (h1, a) := getMember h enumName n
      let (h2, as) := findAll h1 enumName ms rest
      (h2, a :: as)

/-- the body of `__set_default_enum_member` for one field -/
def applyStep (h : Heap) (s : Step) : Heap × Out :=
  match s.default with
  | .scalar v r =>
    if v.isNull then (h, .unchanged)                       -- `if model_field.default is None: continue`
    else match findMember s.members v r with
      | none => (h, .unchanged)                            -- `if not enum_member: continue`
      | some n =>
        let (h1, a) := getMember h s.enumName n
        match truthyAlias s.dtAlias with
        | some al => (setAliasAt h1 a al, .one a)
        | none => (h1, .one a)
  | .list vs =>
    match findAll h s.enumName s.members vs with
    | (h1, []) => (h1, .unchanged)                         -- no member found (or `default: []`): `if not enum_member: continue`
    | (h1, a :: as) =>
      match truthyAlias s.dtAlias with
      | some al => (setAliases h1 (a :: as) al, .many (a :: as))
      | none => (h1, .many (a :: as))

/-- every field of every model of every module, in processing order -/
def runSteps (h : Heap) : List Step → Heap × List Out
  | [] => (h, [])
  | s :: ss =>
    let (h1, o) := applyStep h s
    let (h2, os) := runSteps h1 ss
    (h2, o :: os)

/-- the text of a field's default -/
inductive Text where
  | unchanged
  | one (t : List Char)
  | many (ts : List (List Char))
  deriving DecidableEq, Repr

def reprAt (h : Heap) (a : Nat) : List Char := (h[a]?.map MemberObj.repr).getD []

/-- what the template prints for the field once every module has been processed (final heap) -/
def renderOut (h : Heap) : Out → Text
  | .unchanged => .unchanged
  | .one a => .one (reprAt h a)
  | .many as => .many (as.map (reprAt h))

/-- the names of the members the field's default resolves to (no heap) -/
def foundNames (s : Step) : List (List Char) :=
  match s.default with
  | .scalar v r => if v.isNull then [] else (findMember s.members v r).toList
  | .list vs => vs.filterMap (fun p => findMember s.members p.1 p.2)

/-- text of the member `n` as seen from the field's own module -/
def memberText (s : Step) (n : List Char) : List Char := aliasOr s.dtAlias s.enumName ++ '.' :: n

/-- SPECIFICATION: the text of the field's default as a function of the field alone — its own data type's
alias (i.e. its own module), the enum, the default -/
def stepText (s : Step) : Text :=
  match s.default, foundNames s with
  | _, [] => .unchanged
  | .scalar _ _, n :: _ => .one (memberText s n)
  | .list _, ns => .many (ns.map (memberText s))

/-- the class name a module binds for a definition name: the part after the last dot -/
def shortName (n : List Char) : List Char := (n.reverse.takeWhile (· != '.')).reverse

end Dcg.Model.Enum
