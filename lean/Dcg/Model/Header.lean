/-
Dcg.Model.Header — where the module's `from __future__ import annotations` ends up when a file header is printed in front of it.

A module text is abstracted to the sequence of its top-level statements (comments and blank lines are no statements):
`doc` (a string expression in FIRST position), `future` (a `from __future__ import …`), `code` (anything else).
CPython accepts future imports only after the docstring and other future imports; anywhere else compile() raises SyntaxError.
`Out`, `Src` are the classes of the translated tables of Gen/HeaderFlow.
-/
namespace Dcg.Model.Header

inductive Item | doc | future | code
  deriving DecidableEq, Repr

/-- class of the argument of one `print(…, file=…)` of generate() -/
inductive Out | header | blank | body | console | other
  deriving DecidableEq, Repr

/-- how a name that flows into the written text is bound -/
inductive Src | param | loopVar | readPath | literal | appendText | fromResults | other (text : Nat)
  deriving DecidableEq, Repr

def isFuture (i : Item) : Bool := i == .future

@[simp] theorem isFuture_doc : isFuture .doc = false := rfl
@[simp] theorem isFuture_code : isFuture .code = false := rfl
@[simp] theorem isFuture_future : isFuture .future = true := rfl

def stripDoc : List Item → List Item
  | .doc :: r => r
  | l => l

/-- a `from __future__` import after a statement that is neither the docstring nor a future import -/
def misplaced (l : List Item) : Bool := ((stripDoc l).dropWhile isFuture).contains .future

/-- the module starts (after its docstring) with a future import, and none is misplaced: annotations stay strings -/
def effective (l : List Item) : Bool := !misplaced l && (stripDoc l).head? == some .future

/-- a header that can stand in front of a future import: a docstring and future imports at most -/
def headerClean (h : List Item) : Bool := (stripDoc h).all isFuture

/-- the statements written into the file by the translated `print` calls, in order; `none` when a call prints something the
model does not know (then nothing is claimed) -/
def emit : List (Out × Bool) → List Item → List Item → Option (List Item)
  | [], _, _ => some []
  | (o, underIfBody) :: ps, h, b =>
    let piece : Option (List Item) := match o with
      | .header => some h
      | .blank => some []
      | .body => some b
      | .console => some []
      | .other => none
    match piece, emit ps h b with
    | some x, some r => some ((if underIfBody && b.isEmpty then [] else x) ++ r)
    | _, _ => none

/-- REVIEWED: what generate() prints into an output file — the header, and when there is a body a blank line and the body -/
def reviewedPrints : List (Out × Bool) := [(.header, false), (.blank, true), (.body, true)]

theorem emit_reviewed (h r : List Item) (i : Item) : emit reviewedPrints h (i :: r) = some (h ++ i :: r) := by
  simp [emit, reviewedPrints]

theorem dropWhile_no_future (r : List Item) (hr : Item.future ∉ r) : (r.dropWhile isFuture).contains .future = false := by
  induction r with
  | nil => rfl
  | cons x t ih =>
    have ht : Item.future ∉ t := fun hm => hr (List.mem_cons_of_mem _ hm)
    have hx : x ≠ .future := fun he => hr (he ▸ List.mem_cons_self)
    cases x with
    | future => exact absurd rfl hx
    | doc => simp [ht]
    | code => simp [ht]

theorem misplaced_core (s r : List Item) (hr : Item.future ∉ r) :
    ((s ++ .future :: r).dropWhile isFuture).contains .future = !(s.all isFuture) := by
  induction s with
  | nil => simpa [List.dropWhile_cons] using dropWhile_no_future r hr
  | cons y t ih =>
    cases y with
    | future => simpa [List.dropWhile_cons] using ih
    | doc => simp
    | code => simp

theorem stripDoc_append (x : Item) (t m : List Item) : stripDoc ((x :: t) ++ m) = stripDoc (x :: t) ++ m := by
  cases x <;> rfl

/-- UNBOUNDED: a body that starts with its future import (and has no other), behind ANY header: the import is misplaced
exactly when the header is more than a docstring and future imports -/
theorem misplaced_iff (h r : List Item) (hr : Item.future ∉ r) :
    misplaced (h ++ .future :: r) = !(headerClean h) := by
  cases h with
  | nil => simpa [misplaced, headerClean, stripDoc, List.dropWhile_cons] using dropWhile_no_future r hr
  | cons x t =>
    unfold misplaced headerClean
    rw [stripDoc_append]
    exact misplaced_core _ r hr

theorem head_core (s r : List Item) (hs : s.all isFuture = true) : (s ++ .future :: r).head? = some .future := by
  cases s with
  | nil => rfl
  | cons y t =>
    cases y with
    | future => rfl
    | doc => simp at hs
    | code => simp at hs

/-- UNBOUNDED: … and it is effective exactly when the header is clean -/
theorem effective_iff (h r : List Item) (hr : Item.future ∉ r) :
    effective (h ++ .future :: r) = headerClean h := by
  unfold effective
  rw [misplaced_iff h r hr]
  cases hc : headerClean h with
  | false => simp
  | true =>
    cases h with
    | nil => simp [stripDoc]
    | cons x t =>
      rw [stripDoc_append]
      unfold headerClean at hc
      simp [head_core _ r hc]

end Dcg.Model.Header
