import Dcg.Model.MemberRename
/-!
Naming of ARRAY-ITEM classes of raw-data input, the part of C16 that is about names (C16-g).

Stage 1, `ModelResolver.get_class_name(key, singular_name=True)` in the parser's main resolver: the key is first
made a class name (`class_name_generator`: valid UpperCamel identifier, never a keyword) and only THEN
singularised (`get_singular_name`, inflect). Nothing looks at the singular form: it may be empty (`S` → ``), a
keyword (`Nones` → `None`, `Trues`, `Falses`), or anything else `cfg.sing` returns — `firstName`.

Stage 2, the first loop of `Parser.__replace_duplicate_name_in_module`: EVERY class name of the module goes once
more through a fresh scoped resolver (`exclude_names` = imported names, `duplicate_name_suffix = "Model"`) with
`class_name=True, unique=True` — `repass` (one class on the fresh registry = `Resolver.add`, the function
C06's `replaceDuplicateNameInModule` folds over the module). This second sanitising is the only thing that repairs
the singular form.

`fastPass` is the design the code does NOT have — a class name that is not yet taken in the module is accepted as
it is, only taken ones go through the scoped resolver — stated to say what goes wrong with it
(`Props/C16.fast_path_refuted`); it is never compared with the code.
-/
namespace Dcg.Model.SingularName
open Dcg.Model.Resolver Dcg.Model.MemberRename Dcg.Gen.ResolverTables

/-- stage 1: class name of the items of an array under `key` (no clash in the main resolver) -/
def firstName (cfg : Cfg) (key : Str) : Str := cfg.sing (cfg.cn key) cfg.singSuffix

/-- the scoped resolver of the per-module pass: `duplicate_name_suffix="Model"` -/
def modCfg (cfg : Cfg) : Cfg := { cfg with sfx := moduleDupSuffix }

/-- stage 2 on a fresh scoped registry: `scoped_model_resolver.add([path], class_name, unique=True, class_name=True).name` -/
def repass (cfg : Cfg) (imported : List Str) (path first : Str) : Option Str :=
  outName (add (modCfg cfg) (State.init imported) [path] first true false true none false).2

/-- both stages for one item class -/
def finalName (cfg : Cfg) (imported : List Str) (path key : Str) : Option Str :=
  repass cfg imported path (firstName cfg key)

/-- the other design: only names already taken in the module are re-allocated -/
def fastPass (cfg : Cfg) : State → List Str → List (Str × Str) → List (Option Str)
  | _, _, [] => []
  | s, used, (p, c) :: ms =>
    if used.contains c then
      let r := add (modCfg cfg) { s with excl := used } [p] c true false true none false
      outName r.2 :: fastPass cfg r.1 ((outName r.2).getD c :: used) ms
    else some c :: fastPass cfg s (c :: used) ms

/-- `ModelResolver.validate_name`: an identifier that is no keyword (ASCII) -/
def usable (s : Str) : Bool := isIdentAscii s && !isKeyword s

end Dcg.Model.SingularName

