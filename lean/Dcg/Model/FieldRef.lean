import Dcg.Model.FieldSpec
/-!
# `$ref`-typed members: the nullable-reference rule (property C05)

A member whose schema is `{"$ref": "<definition>"}` admits null when the DEFINITION does
(`type: ["object", "null"]`). The generator carries this over in three steps that are far apart:

* `get_ref_data_type` (while the REFERRING schema is parsed): `model_resolver.add_ref(ref)` returns the
  `Reference` object of the definition — creating it, with `source = None`, when the definition has not
  been met yet — and `DataType(reference=reference)` is built for the member (`is_optional = False`);
* `_parse_object_common_part` / `parse_object` (while the DEFINITION is parsed): the data model is built
  with `nullable=obj.type_has_null`, and `DataModel.__init__` sets `reference.source = self`;
* `DataType.type_hint` (when the modules are rendered, after every document has been parsed):
  `if self.reference: source = self.reference.source; if isinstance(source, Nullable) and
  source.nullable: self.is_optional = True`.

Whether the member is read as optional must therefore not depend on WHEN its `DataType` was built
relative to the definition: the rule is evaluated against the state after all parse events.
`Ev` / `sourceOf` / `lazyOptional` transliterate exactly that (events in the order the parser meets
them, across files); `eagerOptional` is the same rule evaluated when the `DataType` is constructed —
what the code would do if the test were moved into `DataType.__init__` — and is only used to state
what goes wrong then (`Props/C05.lean: ref_rule_at_construction_loses_forward_references`).

The member itself is then an ordinary member of the C05 space (`RefVec`, `fromRef`): `type_has_null`
is False (a `$ref` schema has no type list), no constraints object is built (`is_constraints_field`
excludes `obj.ref`), `nullable` is the keyword's default, and `data_type.is_optional` is what the rule
above leaves.
-/
namespace Dcg.Model.Field

/-! ## Parse events and the rule -/

/-- what the parser does, in order, as far as `Reference.source` is concerned -/
inductive Ev where
  /-- a member `{"$ref": r}` is parsed: `DataType(reference=<Reference r>)` is constructed -/
  | use (r : Nat)
  /-- the definition `r` is parsed: `DataModel(reference=<Reference r>, nullable=n)`; `reference.source = self` -/
  | define (r : Nat) (n : Bool)
  deriving DecidableEq, Repr, Inhabited

/-- `Reference(r).source` after the events (`none`: no model has been built for it; `some n`: a model
whose `nullable` is `n`). A later model for the same reference replaces the earlier one. -/
def sourceOf (r : Nat) : List Ev → Option Bool
  | [] => none
  | .use _ :: es => sourceOf r es
  | .define r' n :: es =>
    match sourceOf r es with
    | some m => some m
    | none => if r' = r then some n else none

/-- `isinstance(source, Nullable) and source.nullable` -/
def sourceNullable : Option Bool → Bool
  | some true => true
  | _ => false

/-- THE RULE AS THE CODE HAS IT: `is_optional` of a `DataType` referring to `r`, as `type_hint` leaves it
when the modules are rendered — after ALL events -/
def lazyOptional (evs : List Ev) (r : Nat) : Bool := sourceNullable (sourceOf r evs)

/-- the flags of all `use` events, in order -/
def lazyFlags (evs : List Ev) : List Bool :=
  evs.filterMap fun | .use r => some (lazyOptional evs r) | .define _ _ => none

/-- the same test evaluated when the `DataType` is constructed (only the events BEFORE the use are
visible): flags of all `use` events, in order -/
def eagerFlagsGo (seen : List Ev) : List Ev → List Bool
  | [] => []
  | .use r :: es => lazyOptional seen r :: eagerFlagsGo (seen ++ [.use r]) es
  | .define r n :: es => eagerFlagsGo (seen ++ [.define r n]) es

def eagerFlags (evs : List Ev) : List Bool := eagerFlagsGo [] evs

/-- the references a list of events defines -/
def definedRefs (evs : List Ev) : List Nat :=
  evs.filterMap fun | .define r _ => some r | .use _ => none

/-! ## The `$ref`-typed member in the C05 space -/

/-- `DataModel(nullable=obj.type_has_null)`: only a type LIST containing "null" makes the model of a
definition nullable; the OpenAPI keyword `nullable: true` on the definition is not read -/
def definitionNullable : NullSrc → Bool
  | .typelist => true
  | _ => false

/-- `base` gives kind, `required` listing, default class (none / null), options, where the name is
listed and what it looks like; its `nullsrc`, `ty` and `constr` are not read (`asVec` overwrites
them). `target`: how the referenced definition admits null. `forward`: the member's `DataType` is
built BEFORE the definition's model exists (the definition stands later in the document, in a file
loaded later, in a document fetched because of this very reference; or the referring schema is the
root schema, which is parsed before the definitions). -/
structure RefVec where
  base : Vec
  target : NullSrc
  forward : Bool
  deriving Repr, Inhabited

/-- the two parse events of the member and its definition, in the order the parser meets them -/
def RefVec.events (r : RefVec) : List Ev :=
  if r.forward then [.use 0, .define 0 (definitionNullable r.target)]
  else [.define 0 (definitionNullable r.target), .use 0]

/-- `data_type.is_optional` of the member when it is rendered -/
def RefVec.flag (r : RefVec) : Bool := lazyOptional r.events 0

/-- the schema admits null: the definition does -/
def RefVec.admitsNull (r : RefVec) : Bool := r.target.admitsNull

/-- The scalar member this one behaves like: no constraint keyword, null source "type list" exactly
when `is_optional` ends up set. -/
def RefVec.asVec (r : RefVec) : Vec :=
  { r.base with nullsrc := if r.flag then .typelist else .no, ty := .scalar, constr := false }

/-- the default is absent or `null` (a model-typed default goes through
`_get_default_as_pydantic_model` / `_get_default_as_struct_model`: outside the space) -/
def RefVec.valid (r : RefVec) : Bool := r.asVec.valid && r.base.dflt.isNone

/-- `get_object_field` for a `$ref` member -/
def fromRef (r : RefVec) : FieldRec :=
  let v := r.asVec.reduce
  { required := v.required
    nullable := if v.sn && (v.dflt.given || (v.required && !v.late)) then some false else none
    hasDefault := v.dflt.given
    dflt := v.dflt
    typeHasNull := false
    stripDefaultNone := v.sd
    dataTypeIsOptional := r.flag
    useAnnotated := v.an
    hasAlias := v.hasAlias
    constraints := .none
    ty := .scalar }

def renderRD (dec : Kind → Env → Decision) (r : RefVec) : Shape := renderFieldD dec r.base.kind (fromRef r)

def renderR (r : RefVec) : Shape := renderRD tableDecision r

def semR (r : RefVec) : Sem := semOf r.base.kind (renderR r)

/-- the one family in which a `$ref` member whose definition admits null is not read as optional by
the rule: the definition says so with the OpenAPI keyword `nullable: true` (never read for a model) -/
def RefVec.keywordOnDefinition (r : RefVec) : Bool := r.target == .flag

end Dcg.Model.Field
