/-
Dcg.Model.FieldText — the pydantic (v1-style and v2) field class as far as C02 is concerned:
`DataModelField.field`, `.annotated`, `.imports` (model/pydantic/base_model.py, inherited by
model/pydantic_v2/base_model.py) and the member branch of the class template
(template/pydantic_v2/BaseModel.jinja2, template/pydantic/BaseModel.jinja2), as functions of three
facts about the text `str(self)` builds (`DataModelField.__str__`) and two options.

Not modelled: how `__str__` gets to its text (extras, alias, constraints, default factory) — the
facts are read off the real `str(field)` by the harness; the names inside the arguments are `repr`
of data (no names) except a default factory, which names a class of the module (ordering, C11).
-/
namespace Dcg.Model.FieldText

abbrev Name := List Char
def nField : Name := ['F', 'i', 'e', 'l', 'd']
def nAnnotated : Name := ['A', 'n', 'n', 'o', 't', 'a', 't', 'e', 'd']

structure V where
  /-- `str(self) == ""` -/
  strEmpty : Bool
  /-- `str(self).startswith("Field(...")` -/
  startsEllipsis : Bool
  /-- `str(self).startswith("Field(default_factory=")` -/
  startsFactory : Bool
  useAnnotated : Bool
  useDefaultKwarg : Bool
  deriving DecidableEq, Repr, Inhabited

inductive FieldText where
  /-- `.field` is `None` -/
  | none
  /-- `str(self)` unchanged -/
  | asStr
  /-- `Field(` replaced by `Field(default=` -/
  | defaultKwarg
  deriving DecidableEq, Repr, Inhabited

/-- `DataModelField.field` -/
def field (v : V) : FieldText :=
  if v.strEmpty then .none
  else if v.useDefaultKwarg && !v.startsEllipsis && !v.startsFactory then .defaultKwarg
  else .asStr

/-- `DataModelField.annotated is not None` -/
def annotated (v : V) : Bool := v.useAnnotated && !v.strEmpty

/-- the library part of `DataModelField.imports`: `IMPORT_FIELD` when `.field`, `IMPORT_ANNOTATED`
when `use_annotated and self.annotated` (model/base.py) -/
def imports (v : V) : List Name :=
  (if field v ≠ .none then [nField] else []) ++ (if v.useAnnotated && annotated v then [nAnnotated] else [])

/-- the names the template writes for the member besides its type hint:
`{% if not field.annotated and field.field %} … = {{ field.field }}`,
`{% if field.annotated %} …: {{ field.annotated }}` = `Annotated[<hint>, <str(self)>]` -/
def memberUses (v : V) : List Name :=
  if !annotated v && field v ≠ .none then [nField]
  else if annotated v then [nAnnotated, nField]
  else []

end Dcg.Model.FieldText
