/-
Model of the ordering stage (C11): `sort_data_models` and `Parser.__sort_models`
(/repo/src/datamodel_code_generator/parser/base.py).

A model is what the sorter looks at and nothing else:
  path   = `model.path`
  refs   = `model.reference_classes` (a frozenset in the code: base-class paths ∪ member-type paths;
           here a list read as a set — only membership is ever used)
  bases  = `[b.reference.path for b in model.base_classes if b.reference]` (in order)

`sorted_data_models` is an `OrderedDict`: `d[path] = model` appends a new key and overwrites an
existing key in place (`dictSet`). `require_update_action_models` is a plain list (`append`).
What the code raises is `Except.error`. Python's own `RecursionError` is not modelled
(`recursion_count` is; see `sort_total` in Props/C11).
The model follows /repo as of commit 4fca813 (self-base reported; `__sort_models` orders only the
module's own classes).
-/
namespace Dcg.Model.Sort

abbrev Path := Nat

structure Model where
  path : Path
  refs : List Path
  bases : List Path
  deriving DecidableEq, Repr, Inhabited

/-- `p in d` for the ordered dict -/
def hasKey (d : List Model) (p : Path) : Bool := d.any (fun x => x.path == p)

/-- `d[m.path] = m` on an `OrderedDict` -/
def dictSet (d : List Model) (m : Model) : List Model :=
  if hasKey d m.path then d.map (fun x => if x.path == m.path then m else x) else d ++ [m]

/-- `model.reference_classes - {model.path} - set(sorted_data_models)` -/
def pending (sorted : List Model) (m : Model) : List Path :=
  m.refs.filter (fun r => r != m.path && !hasKey sorted r)

/-- state of the classification loop -/
structure Cls where
  sorted : List Model
  upd : List Path
  unres : List Model
  deriving Repr, DecidableEq

/-- one iteration of `for model in unsorted_data_models:` — the four cases of the code -/
def classifyStep (sorted : List Model) (upd : List Path) (m : Model) : Option (List Model × List Path) :=
  if m.refs.isEmpty then
    some (dictSet sorted m, upd)
  else if m.refs.contains m.path && m.refs.all (· == m.path) then
    -- `model.path in reference_classes and len(reference_classes) == 1`: only self-referencing
    some (dictSet sorted m, upd ++ [m.path])
  else if (pending sorted m).isEmpty then
    some (dictSet sorted m, if m.refs.contains m.path then upd ++ [m.path] else upd)
  else
    none

/-- `any(b.reference and b.reference.path == model.path for b in model.base_classes)` -/
def selfBase (m : Model) : Bool := m.bases.contains m.path

/-- the classification loop; `none` = the `raise … circular base classes in [path]` at the top of the
loop body: a model that names itself as base is reported before it is classified -/
def classify : List Model → List Model → List Path → Option Cls
  | [], s, u => some ⟨s, u, []⟩
  | m :: ms, s, u =>
    if selfBase m then none
    else match classifyStep s u m with
    | some (s', u') => classify ms s' u'
    | none => (classify ms s u).map (fun c => { c with unres := m :: c.unres })

/-! ### the base-class bubble -/

def maxl (xs : List Nat) : Nat := xs.foldr max 0

/-- `max(indexes)` shifted by one, `0` for the code's `-1` (no unresolved base):
`indexes = [names.index(b) for b in bases if b in names]` -/
def baseKey (names : List Path) (m : Model) : Nat :=
  maxl ((m.bases.filter (fun b => names.contains b)).map (fun b => names.idxOf b + 1))

/-- stable insertion: `x` came before everything in the list -/
def insertBy {α} (le : α → α → Bool) (x : α) : List α → List α
  | [] => [x]
  | y :: ys => if le x y then x :: y :: ys else y :: insertBy le x ys

/-- Python's `sorted` (stable) for a total preorder `le` -/
def sortBy {α} (le : α → α → Bool) : List α → List α
  | [] => []
  | x :: xs => insertBy le x (sortBy le xs)

def sortKey {α} (k : α → Nat) (l : List α) : List α := sortBy (fun a b => decide (k a ≤ k b)) l

/-- one pass of the loop body: `sorted(ordered_models, key=itemgetter(0))` -/
def bubblePass (l : List Model) : List Model := sortKey (baseKey (l.map (·.path))) l

/-- `for _ in range(n): … if sorted == unresolved: break … else: raise` ; `none` = the `else` branch -/
def bubble : Nat → List Model → Option (List Model)
  | 0, _ => none
  | f + 1, l =>
    let l' := bubblePass l
    if l' = l then some l else bubble f l'

/-! ### the circular stage -/

inductive Err where
  | circularBases   -- "circular base classes in […]" (the bubble ran out, or a model is its own base)
  | unresolved      -- "A Parser can not resolve classes: [class: … references: …]"
  deriving DecidableEq, Repr

/-- `for model in unresolved_references:` after the bubble; `names` = paths of this batch -/
def circular (names : List Path) : List Model → List Model → List Path → Except Err (List Model × List Path)
  | [], s, u => .ok (s, u)
  | m :: ms, s, u =>
    let p := pending s m
    if p.isEmpty then
      -- `update_action_parent = set(require_update_action_models).intersection(base_models)`
      circular names ms (dictSet s m) (if m.bases.any (fun b => u.contains b) then u ++ [m.path] else u)
    else if p.all (fun r => names.contains r) then
      circular names ms (dictSet s m) (u ++ [m.path])
    else
      .error .unresolved

structure Out where
  unresolved : List Model
  sorted : List Model
  upd : List Path
  deriving Repr, DecidableEq

/-- everything after the recursion attempt -/
def finish (c : Cls) : Except Err Out :=
  match bubble (c.unres.length + 1) c.unres with
  | none => .error .circularBases
  | some fx =>
    match circular (fx.map (·.path)) fx c.sorted c.upd with
    | .error e => .error e
    | .ok (s, u) => .ok ⟨fx, s, u⟩

/-- `sort_data_models(ms, sorted, upd, recursion_count)` -/
def sortGo : Nat → List Model → List Model → List Path → Except Err Out
  | 0, ms, s, u =>
    match classify ms s u with
    | none => .error .circularBases
    | some c => if c.unres.isEmpty then .ok ⟨[], c.sorted, c.upd⟩ else finish c
  | rc + 1, ms, s, u =>
    match classify ms s u with
    | none => .error .circularBases
    | some c =>
      if c.unres.isEmpty then .ok ⟨[], c.sorted, c.upd⟩
      else if c.sorted.length != s.length then sortGo rc c.unres c.sorted c.upd
      else finish c

def sortDataModels (rc : Nat) (ms : List Model) : Except Err Out := sortGo rc ms [] []

/-! ### `Parser.__sort_models` (only with `keep_model_order`) -/

/-- class name (code points), base-class type hints of bases that have a reference -/
structure Named where
  name : List Nat
  bases : List (List Nat)
  deriving DecidableEq, Repr, Inhabited

/-- Python `str <=` : lexicographic on code points -/
def lexLe : List Nat → List Nat → Bool
  | [], _ => true
  | _ :: _, [] => false
  | a :: as, b :: bs => if a < b then true else if b < a then false else lexLe as bs

/-- `not (baseclasses - resolved)` with
`baseclasses = ({type hints of bases with a reference} & class_names) - {class_name}`:
only classes of this module take part -/
def basesResolved (names resolved : List (List Nat)) (m : Named) : Bool :=
  m.bases.all (fun b => !names.contains b || b == m.name || resolved.contains b)

/-- `for i in range(len(models) - 1)`: `cur` is `models[i]`; after a swap the same model is
looked at again at `i+1`; the last position is never examined -/
def sweep (names resolved : List (List Nat)) (cur : Named) (acc : List Named) (changed : Bool) :
    List Named → List Named × Bool
  | [] => (acc ++ [cur], changed)
  | nxt :: rest =>
    if basesResolved names resolved cur then sweep names (cur.name :: resolved) nxt (acc ++ [cur]) changed rest
    else sweep names resolved cur (acc ++ [nxt]) true rest

/-- `while changed:` with fuel; `none` = the fuel ran out (the code would still be looping) -/
def swapLoop (names imported : List (List Nat)) : Nat → List Named → Option (List Named)
  | 0, _ => none
  | f + 1, l =>
    match l with
    | [] => some []
    | x :: xs =>
      let (l', changed) := sweep names imported x [] false xs
      if changed then swapLoop names imported f l' else some l'

def sortModels (imported : List (List Nat)) (fuel : Nat) (l : List Named) : Option (List Named) :=
  swapLoop (l.map (·.name)) imported fuel (sortBy (fun a b => lexLe a.name b.name) l)

end Dcg.Model.Sort
