import Dcg.Model.Field
/-!
# What the schema asks for (C05), and the mechanisms by which the pinned generator departs from it

`Spec`: facts of the abstract vector the property speaks about. `Defect families`: decidable
descriptions — in terms of the parser's field record and the field class's strings, i.e. of the
*mechanism* — of the vectors on which a clause of C05 fails. `Props/C05.lean` proves that the
clauses hold outside these families and fail inside them (so the descriptions are exact).
-/
namespace Dcg.Model.Field

/-! ## Spec side -/

/-- the schema gives a default -/
def Vec.hasDefault (v : Vec) : Bool := v.dflt.given

/-- the schema admits null -/
def Vec.admitsNull (v : Vec) : Bool := v.nullsrc.admitsNull

/-- The member may be omitted: it is not listed in `required`, or the user asked for it
(`--force-optional`, or `--use-default` and a default is given). -/
def Vec.omittable (v : Vec) : Bool :=
  !v.inreq || v.opts.fo || (v.opts.ud && v.hasDefault)

/-- an omitted member reads as `None` or is simply absent -/
def Omitted.noneOrAbsent : Omitted → Bool
  | .absent => true
  | .value d => d.isNone
  | .rejected => false

/-- Being listed is decided on the JSON name, in each of the three places a `required` list can
stand — so it does not depend on how the name had to be rewritten. -/
theorem Vec.listed_eq (v : Vec) : v.listed = v.inreq := by
  obtain ⟨k, n, r, d, t, c, o, via, name, sc⟩ := v
  cases via <;> cases r <;> cases name <;> cases sc <;> rfl

/-- `omittable` is exactly "the parser's final `required` is False" -/
theorem Vec.omittable_eq (v : Vec) : v.omittable = !v.reduce.required := by
  have hl := Vec.listed_eq v
  obtain ⟨k, n, r, d, t, c, ⟨sn, ud, fo, sd, an, fc⟩, via, name, sc⟩ := v
  simp only [Vec.omittable, Vec.reduce, Vec.finalRequired, Vec.hasDefault, hl]
  cases r <;> cases fo <;> cases ud <;> cases d.given <;> rfl

def RVec.admitsNull (v : RVec) : Bool := v.nullsrc.admitsNull
def RVec.hasDefault (v : RVec) : Bool := v.dflt.given

/-! ## Defect families of the pinned tree (on the reduced vector; `Vec` versions below) -/

/-- D7: the pydantic-v2 template appends ` = <default>` whenever `data_type.is_optional`, also
for a required member (the branch is reached when no `Field(…)` is assigned). -/
def d7R (v : RVec) : Bool :=
  let f := fromReduced v
  v.kind == .v2 && f.required && f.dataTypeIsOptional &&
    (pydFieldAsg f == none || pydAnnotated f != .no)

/-- same defect in the msgspec template: `not field.required or field.data_type.is_optional or field.nullable` -/
def d7mR (v : RVec) : Bool :=
  let f := fromReduced v
  v.kind == .ms && f.required && (f.dataTypeIsOptional || f.nullable == some true) &&
    msFieldAsg f == none   -- with an alias the member is written `= field(name='…')` instead

/-- pydantic v1: a required member whose annotation is `Optional[…]` is written without the
`Field(...)` marker (only emitted when `nullable` is set, i.e. OpenAPI + strict-nullable);
pydantic 1 reads a bare `Optional[T]` as "not required, default None". -/
def v1BareR (v : RVec) : Bool :=
  let f := fromReduced v
  v.kind == .v1 && f.required && fieldTypeHintOptional .v1 f &&
    (pydStr f == .empty || pydStr f == .argsOnly)

/-- `--strip-default-none` removes ` = None` from a member that may be omitted; in pydantic v2
and dataclasses (and pydantic v1 when the annotation is not `Optional`) the member thereby
becomes required. -/
def strippedD (dec : Kind → Env → Decision) (v : RVec) : Bool :=
  let f := fromReduced v
  let s := renderD dec v
  v.sd && !f.required && f.dflt.isNone && s.asg == .none &&
    (v.kind == .v2 || v.kind == .dc || (v.kind == .v1 && !s.opt))

/-- OpenAPI `nullable: true` is only read under `--strict-nullable`; without it a required
member (any kind) or a not-required TypedDict member rejects null. -/
def nullableFlagIgnoredR (v : RVec) : Bool :=
  let f := fromReduced v
  v.nullsrc == .flag && !v.sn && (f.required || v.kind == .td)

/-- Under `--strict-nullable`, `nullable` is taken from the OpenAPI keyword (`False` by default)
even when the type list contains "null"; for array members nothing else marks the type optional. -/
def strictOverridesTypeListR (v : RVec) : Bool :=
  let f := fromReduced v
  v.nullsrc == .typelist && v.sn && v.ty == .array &&
    (f.hasDefault || (v.required && !v.late))

/-- `nullable` is computed when the field object is built; a member that only becomes required
afterwards (listed through an allOf sibling / on the allOf owner) and has no default keeps
`nullable = None`, so under `--strict-nullable` OpenAPI `nullable: true` is lost for it unless the
data type itself is optional (scalars only). -/
def lateStrictNullableR (v : RVec) : Bool :=
  v.nullsrc == .flag && v.sn && v.late && !v.dflt.given && v.ty != .scalar

/-- TypedDict: a not-required member never falls back to `Optional[…]`; it admits None only via
`data_type.is_optional` or `nullable` -/
def tdNoFallbackR (v : RVec) : Bool :=
  let f := fromReduced v
  v.kind == .td && !f.required && !f.dataTypeIsOptional && f.nullable == none

/-- pydantic v1 accepts None for any field whose default is None, whatever the annotation -/
def v1NoneDefaultD (dec : Kind → Env → Decision) (v : RVec) : Bool :=
  v.kind == .v1 && (match (renderD dec v).asg.default? with | some d => d.isNone | none => false)

/-- TypedDict cannot carry a default value at all -/
def tdNoDefaultsR (v : RVec) : Bool := v.kind == .td && !v.dflt.isNone

/-- msgspec: list/dict defaults are written as literals; msgspec refuses non-empty ones -/
def msMutableLiteralD (dec : Kind → Env → Decision) (v : RVec) : Bool :=
  v.kind == .ms && v.dflt.isNonEmptyMutable && (renderD dec v).asg.default? == some v.dflt

def d7 (v : Vec) : Bool := d7R v.reduce
def d7m (v : Vec) : Bool := d7mR v.reduce
def v1Bare (v : Vec) : Bool := v1BareR v.reduce
def nullableFlagIgnored (v : Vec) : Bool := nullableFlagIgnoredR v.reduce
def strictOverridesTypeList (v : Vec) : Bool := strictOverridesTypeListR v.reduce
def tdNoFallback (v : Vec) : Bool := tdNoFallbackR v.reduce
def lateStrictNullable (v : Vec) : Bool := lateStrictNullableR v.reduce
def tdNoDefaults (v : Vec) : Bool := tdNoDefaultsR v.reduce
def stripped (v : Vec) : Bool := strippedD tableDecision v.reduce
def v1NoneDefault (v : Vec) : Bool := v1NoneDefaultD tableDecision v.reduce
def msMutableLiteral (v : Vec) : Bool := msMutableLiteralD tableDecision v.reduce


/-! ## The clauses as statements about one reduced vector, parametric in the template decision

`…Exact` statements say that the clause fails on precisely the named defect families. -/

/-- (for `required = true`) the member must be supplied, except in families D7 / D7-msgspec / v1-bare-Optional -/
def MustExact (dec : Kind → Env → Decision) (v : RVec) : Prop :=
  (semD dec v).mustSupply = false ↔ (d7R v || d7mR v || v1BareR v) = true

/-- (for `required = false`) the member may be omitted, except when `--strip-default-none` removed its `= None` -/
def OmitExact (dec : Kind → Env → Decision) (v : RVec) : Prop :=
  (semD dec v).mustSupply = true ↔ strippedD dec v = true

/-- (for `required = false`, no default or a `null` default, not stripped) the omitted member
reads as None / is absent -/
def NoneReads (dec : Kind → Env → Decision) (v : RVec) : Prop :=
  strippedD dec v = false → (semD dec v).omitted.noneOrAbsent = true

/-- (for `required = false` and a non-null default) the class can be created and the omitted
member reads as the schema's default, except for TypedDict (no defaults) and msgspec non-empty
mutable literals -/
def ValueExact (dec : Kind → Env → Decision) (v : RVec) : Prop :=
  ((semD dec v).loads = true ∧ (semD dec v).omitted = .value v.dflt) ↔
    (tdNoDefaultsR v || msMutableLiteralD dec v) = false

/-- (for `required = false`, list/dict default) never shared; the class can be created except for
msgspec non-empty literals -/
def MutableExact (dec : Kind → Env → Decision) (v : RVec) : Prop :=
  v.dflt.isMutable = true →
    (semD dec v).shared = false ∧ ((semD dec v).loads = false ↔ msMutableLiteralD dec v = true)

/-- (for `required = false`) dataclasses: list/dict defaults go through `default_factory` -/
def DcFactory (dec : Kind → Env → Decision) (v : RVec) : Prop :=
  v.kind = .dc → v.dflt.isMutable = true → (renderD dec v).asg = .factory v.dflt

/-- (for a schema admitting null) None is accepted, except in the four nullability families -/
def NullExact (dec : Kind → Env → Decision) (v : RVec) : Prop :=
  (semD dec v).acceptsNull = false ↔
    ((nullableFlagIgnoredR v || strictOverridesTypeListR v || tdNoFallbackR v || lateStrictNullableR v) &&
      !v1NoneDefaultD dec v) = true

/-- the sort key of dataclass / msgspec members says "has an assignment" exactly when the template
writes one — except, for msgspec, when the template appends a default the key does not know about
(a required nullable member, or a stripped `None` default) -/
def msKeyMismatchR (v : RVec) : Bool :=
  let f := fromReduced v
  v.kind == .ms && (d7mR v || (!f.required && f.dflt.isNone && f.stripDefaultNone))

def msKeyMismatch (v : Vec) : Bool := msKeyMismatchR v.reduce

def SortKeyExact (dec : Kind → Env → Decision) (v : RVec) : Prop :=
  ∀ b, sortKey v.kind (fromReduced v) = some b →
    ((b = (renderD dec v).asg.default?.isSome) ↔ msKeyMismatchR v = false)

/-- the must-supply families only exist for schemas that admit null -/
def MustFamiliesNeedNull (v : RVec) : Prop :=
  (d7R v || d7mR v || v1BareR v) = false

instance (dec v) : Decidable (MustExact dec v) := by unfold MustExact; exact inferInstance
instance (dec v) : Decidable (OmitExact dec v) := by unfold OmitExact; exact inferInstance
instance (dec v) : Decidable (ValueExact dec v) := by unfold ValueExact; exact inferInstance
instance (dec v) : Decidable (NoneReads dec v) := by unfold NoneReads; exact inferInstance
instance (dec v) : Decidable (MutableExact dec v) := by unfold MutableExact; exact inferInstance
instance (dec v) : Decidable (DcFactory dec v) := by unfold DcFactory; exact inferInstance
instance (dec v) : Decidable (NullExact dec v) := by unfold NullExact; exact inferInstance
instance (dec v) : Decidable (SortKeyExact dec v) := by unfold SortKeyExact; exact inferInstance
instance (v) : Decidable (MustFamiliesNeedNull v) := by unfold MustFamiliesNeedNull; exact inferInstance

end Dcg.Model.Field
