import Dcg.Gen.Constraints
/-
Constraint keywords on their way from the schema into the generated class, and back out of
pydantic's reported JSON Schema (property C04).

  schema keyword ──(1)──▶ `Constraints` attribute / `transform_kwargs` name
                 ──(2)──▶ keyword written into `Field(…)` or `con*(…)`
                 ──(3)──▶ keyword pydantic reports in `schema()` / `model_json_schema()`

(1) and (2) are read from the generated tables (`Dcg/Gen/Constraints.lean`); (3) is an AUTHORED,
TRUSTED statement of pydantic's behaviour (`reported`), validated against the installed pydantic on
every run by `vlib/props/c04.py`.
-/
namespace Dcg.Model.Constraints
open Dcg.Gen.Constraints

/-- output flavour: pydantic-v1-style classes, or pydantic v2 -/
inductive Style where
  | v1 | v2
  deriving DecidableEq, Repr, Inhabited

/-- where constraints are written: into a constrained type (`conint(ge=1)`, the default), as
arguments of `Field()` (`--field-constraints`), or `Annotated[int, Field(ge=1)]` (`--use-annotated`) -/
inductive Routing where
  | conType | field | annotated
  deriving DecidableEq, Repr, Inhabited

/-- the kind of value a constraint restricts -/
inductive Fam where
  | int | num | str | arr
  deriving DecidableEq, Repr, Inhabited

def allStyles : List Style := [.v1, .v2]
def allRoutings : List Routing := [.conType, .field, .annotated]
def allFams : List Fam := [.int, .num, .str, .arr]

/-- The constraint keywords the property is about, per kind of value (AUTHORED from the property
text: minimum/maximum inclusive or exclusive, multipleOf, minLength/maxLength, pattern,
minItems/maxItems). -/
def supported : Fam → List String
  | .int | .num => ["minimum", "maximum", "exclusiveMinimum", "exclusiveMaximum", "multipleOf"]
  | .str => ["minLength", "maxLength", "pattern"]
  | .arr => ["minItems", "maxItems"]

def allSupported : List String := supported .int ++ supported .str ++ supported .arr

def kwargsMap : Style → List (String × String)
  | .v1 => kwargsV1
  | .v2 => kwargsV2

def aliasMap : Style → List (String × String)
  | .v1 => aliasV1
  | .v2 => aliasV2

def attrs : Style → List String
  | .v1 => attrsV1
  | .v2 => attrsV2

/-- `DataTypeManager.transform_kwargs` on a single keyword:
`{kwargs_schema_to_model.get(k, k): v for k, v in kwargs.items() if v is not None and k in filter_}` -/
def transformKw (st : Style) (filter : List String) (kw : String) : Option String :=
  if filter.contains kw then some (((kwargsMap st).lookup kw).getD kw) else none

/-- the filter set `get_data_*_type` uses for a kind of value; arrays have no constrained type -/
def famFilter : Fam → List String
  | .int | .num => numberKwargs
  | .str => stringKwargs
  | .arr => []

/-- constrained-type routing: the keyword argument of `conint/confloat/constr` -/
def conTypeKw (st : Style) (fam : Fam) (kw : String) : Option String :=
  transformKw st (famFilter fam) kw

/-- arguments `DataModelField._process_data_in_str` removes again (v2: "unique_items is not supported
in pydantic 2.0"); AUTHORED from model/pydantic_v2/base_model.py -/
def fieldDropped : Style → List String
  | .v1 => []
  | .v2 => ["unique_items"]

/-- `Field()` routing: `JsonSchemaObject.dict()` → `Constraints.parse_obj` (alias map, v2 rename of
item counts) → `DataModelField.__str__` writes the attribute name as keyword, unchanged. -/
def fieldKw (st : Style) (kw : String) : Option String :=
  ((aliasMap st).lookup kw).filter (fun a => !(fieldDropped st).contains a)

/-- Steps (1)+(2). `is_constraints_field` is true for every array whatever the options, so array
constraints always go through `Field()`. -/
def routeKw (st : Style) (r : Routing) (fam : Fam) (kw : String) : Option String :=
  match r, fam with
  | .conType, .arr => fieldKw st kw
  | .conType, _ => conTypeKw st fam kw
  | _, _ => fieldKw st kw

/-- Step (3). AUTHORED, TRUSTED: the JSON-Schema keyword pydantic reports for a constraint given as
`Field(kw=…)` / `con*(kw=…)` on a value of kind `fam`; `none` = pydantic does not report (or does
not enforce) that argument on that kind of value. -/
def reported (st : Style) (fam : Fam) (pk : String) : Option String :=
  match fam with
  | .int | .num =>
    if pk = "ge" then some "minimum"
    else if pk = "gt" then some "exclusiveMinimum"
    else if pk = "le" then some "maximum"
    else if pk = "lt" then some "exclusiveMaximum"
    else if pk = "multiple_of" then some "multipleOf"
    else none
  | .str =>
    if pk = "min_length" then some "minLength"
    else if pk = "max_length" then some "maxLength"
    else match st with
      | .v1 => if pk = "regex" then some "pattern" else none
      | .v2 => if pk = "pattern" then some "pattern" else none
  | .arr =>
    match st with
    | .v1 =>
      if pk = "min_items" then some "minItems"
      else if pk = "max_items" then some "maxItems"
      else none
    | .v2 =>
      if pk = "min_length" then some "minItems"
      else if pk = "max_length" then some "maxItems"
      else none

/-- the whole trip of one keyword -/
def roundTrip (st : Style) (r : Routing) (fam : Fam) (kw : String) : Option String :=
  (routeKw st r fam kw).bind (reported st fam)

/-- first keyword whose round trip is not the identity (refuter for `keyword_roundtrip`) -/
def findBrokenKeyword : Option (Style × Routing × Fam × String) :=
  (allStyles.flatMap fun st => allRoutings.flatMap fun r => allFams.flatMap fun fam =>
    (supported fam).map fun kw => (st, r, fam, kw)).find?
    (fun (st, r, fam, kw) => roundTrip st r fam kw != some kw)

/-! ### Values: the casts applied on the way -/

/-- a decimal number `m · 10^(-e)` -/
structure Dec where
  m : Int
  e : Nat
  deriving DecidableEq, Repr, Inhabited

def Dec.ofInt (i : Int) : Dec := ⟨i, 0⟩
def Dec.isInt (d : Dec) : Bool := d.m % (10 ^ d.e : Nat) == 0
/-- Python `int(x)`: truncation towards zero -/
def Dec.trunc (d : Dec) : Int := Int.tdiv d.m (10 ^ d.e : Nat)
/-- numeric equality of two decimals -/
def Dec.eqv (a b : Dec) : Bool := a.m * (10 ^ b.e : Nat) == b.m * (10 ^ a.e : Nat)
def Dec.le (a b : Dec) : Bool := a.m * (10 ^ b.e : Nat) ≤ b.m * (10 ^ a.e : Nat)
def Dec.lt (a b : Dec) : Bool := a.m * (10 ^ b.e : Nat) < b.m * (10 ^ a.e : Nat)

/-- The value written for a numeric keyword.
Constrained type, integer: `{k: int(v) …}` for every number keyword.
`Field()`, integer: `_get_strict_field_constraint_value` applies `int()` to gt/ge/lt/le only.
Number: `float(v)` (exact on the decimals considered — floats are otherwise opaque here). -/
def castValue (r : Routing) (fam : Fam) (pk : String) (v : Dec) : Dec :=
  match fam with
  | .int =>
    match r with
    | .conType => Dec.ofInt v.trunc
    | _ => if ["gt", "ge", "lt", "le"].contains pk then Dec.ofInt v.trunc else v
  | _ => v

/-! ### Draft-4 boolean `exclusiveMinimum` / `exclusiveMaximum` -/

/-- value of `exclusiveMinimum` / `exclusiveMaximum` as written: a draft-4 flag or a draft-6 number -/
inductive Excl (α : Type) where
  | flag (b : Bool)
  | val (x : α)
  deriving Repr

/-- one side (lower or upper) of the bounds as written: (`minimum`, `exclusiveMinimum`) -/
structure RawSide (α : Type) where
  incl : Option α
  excl : Option (Excl α)

/-- one side after `validate_exclusive_maximum_and_exclusive_minimum`: (`minimum`, `exclusiveMinimum`) -/
structure Side (α : Type) where
  incl : Option α
  excl : Option α
  deriving Repr, DecidableEq

/-- `validate_exclusive_maximum_and_exclusive_minimum`, one side:
```
if excl is True:   values[excl] = values[incl]; del values[incl]      # KeyError when incl is absent
elif excl is False: del values[excl]
```
`none` = the generator raises. -/
def normaliseSide {α : Type} : RawSide α → Option (Side α)
  | ⟨m, none⟩ => some ⟨m, none⟩
  | ⟨m, some (.val x)⟩ => some ⟨m, some x⟩
  | ⟨some m, some (.flag true)⟩ => some ⟨none, some m⟩
  | ⟨none, some (.flag true)⟩ => none
  | ⟨m, some (.flag false)⟩ => some ⟨m, none⟩

/-- JSON-Schema meaning of one side as written (draft 4 for a flag, draft 6+ for a number);
`inc b x` = "x satisfies the inclusive bound b", `exc b x` = "x satisfies the exclusive bound b". -/
def admitsRaw {α : Type} (inc exc : α → α → Bool) (s : RawSide α) (x : α) : Bool :=
  match s.excl with
  | some (.flag true) => match s.incl with
    | some m => exc m x
    | none => true
  | some (.val v) => exc v x && (match s.incl with
    | some m => inc m x
    | none => true)
  | _ => match s.incl with
    | some m => inc m x
    | none => true

/-- meaning of one normalised side: `ge`/`gt` (or `le`/`lt`) as pydantic enforces them -/
def admits {α : Type} (inc exc : α → α → Bool) (s : Side α) (x : α) : Bool :=
  (match s.excl with
    | some v => exc v x
    | none => true) &&
  (match s.incl with
    | some m => inc m x
    | none => true)

/-! ### `additionalProperties` ↦ `extra` -/

def extraMap : Style → List (String × String)
  | .v1 => extraV1
  | .v2 => extraV2

/-- `additionalProperties` as written: absent, `true`, `false`, or a schema -/
def apLabels : List String := ["absent", "true", "false", "schema"]

end Dcg.Model.Constraints
