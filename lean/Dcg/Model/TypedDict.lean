import Dcg.Py.Ident
/-
Dcg.Model.TypedDict — transliteration of `model/typed_dict.py` as far as the KEYS of a generated
TypedDict are concerned, inheritance included:

* `DataModel._validate_fields` (model/base.py): the constructor drops every later member whose
  `field.name` was seen before (members without a name are all kept);
* `_is_valid_field_name`, `TypedDict.is_functional_syntax`, `DataModelField.key`;
* `TypedDict.all_fields`: for every base class, in order, the `all_fields` of the base when it is a
  TypedDict (nothing otherwise), then the class's own fields — the member list of the functional syntax.
  Members are carried as they are: nothing is compared, nothing is dropped;
* what Python makes of the rendered text: the functional syntax is a dict display (a key written twice
  keeps its first position and takes the LAST value), the class syntax collects the annotations of the
  Python base classes with `dict.update` and then the class's own.

A class is a finite tree (`TdClass`): the generator emits a class only after its bases and refuses
cyclic base graphs (C11), so `reference.source` of a base can be followed structurally.
`tag` stands for the type hint of a member (which declaration it is); it is only carried around.
-/
namespace Dcg.Model.TypedDict
open Dcg.Py.Chars Dcg.Py.Ident

/-- one member of a TypedDict model: `field.name` (None for a member that only a `required` list names),
`field.original_name`, and a tag standing for its type hint -/
structure TdField where
  name : Option (List Char)
  orig : Option (List Char)
  tag : Nat := 0
  deriving Repr, DecidableEq

/-- `DataModelField.key` before escaping: `(self.name or "") if self.original_name is None else self.original_name` -/
def TdField.key (f : TdField) : List Char :=
  match f.orig with
  | some o => o
  | none => f.name.getD []

/-- `_is_valid_field_name`: the key is an identifier, not a keyword, and equal to the sanitised member name -/
def tdValid (f : TdField) : Bool :=
  match (match f.orig with | some o => some o | none => f.name) with
  | none => false
  | some n => isIdentifier n && !isKeyword n && f.name == some n

/-- `TypedDict.is_functional_syntax` -/
def tdFunctional (fs : List TdField) : Bool := fs.any (fun f => !tdValid f)

/-- the keys the rendered TypedDict declares for its OWN members: functional syntax writes `field.key`
(the original name), class syntax writes `field.name` -/
def tdKeys (fs : List TdField) : List (List Char) :=
  if tdFunctional fs then fs.map TdField.key else fs.map (fun f => f.name.getD [])

/-! ### `DataModel._validate_fields` -/

/-- `if field.name: if field.name in names: continue; names.add(field.name)`; `unique_fields.append(field)`
(an empty name is falsy, like None) -/
def validateGo (seen : List (List Char)) : List TdField → List TdField
  | [] => []
  | f :: fs =>
    match f.name with
    | none => f :: validateGo seen fs
    | some n =>
      if n = [] then f :: validateGo seen fs
      else if seen.contains n then validateGo seen fs
      else f :: validateGo (n :: seen) fs

def validateFields (fs : List TdField) : List TdField := validateGo [] fs

/-! ### classes and `all_fields` -/

/-- a data model as a base class sees it: `other` is anything that is not a TypedDict (a type alias /
root model, a reference without source) and contributes no members -/
inductive TdClass where
  | other
  | cls (bases : List TdClass) (fields : List TdField)

/-- the constructor `TypedDict(reference=…, fields=…, base_classes=…)` -/
def TdClass.mk' (bases : List TdClass) (fields : List TdField) : TdClass := .cls bases (validateFields fields)

mutual
/-- `TypedDict.all_fields` -/
def TdClass.allFields : TdClass → List TdField
  | .other => []
  | .cls bases fields => allFieldsL bases ++ fields
def allFieldsL : List TdClass → List TdField
  | [] => []
  | b :: bs => b.allFields ++ allFieldsL bs
end

mutual
/-- THE SPECIFICATION: every wire key of the schema behind the class — those of the schemas it extends,
then its own (a list, with repetitions; what matters is membership) -/
def TdClass.wireKeys : TdClass → List (List Char)
  | .other => []
  | .cls bases fields => wireKeysL bases ++ fields.map TdField.key
def wireKeysL : List TdClass → List (List Char)
  | [] => []
  | b :: bs => b.wireKeys ++ wireKeysL bs
end

/-! ### what Python makes of the rendered text -/

abbrev Entry := List Char × Nat

/-- `d[k] = v` on an insertion-ordered dict: an existing key keeps its position and takes the new value -/
def dictSet : List Entry → List Char → Nat → List Entry
  | [], k, v => [(k, v)]
  | e :: rest, k, v => if e.1 = k then (k, v) :: rest else e :: dictSet rest k v

/-- `d.update(es)` / continuing a dict display `{…, k: v, …}` -/
def dictUpdate (d : List Entry) (es : List Entry) : List Entry := es.foldl (fun d e => dictSet d e.1 e.2) d

/-- a dict display `{k1: v1, k2: v2, …}` -/
def dictOf (es : List Entry) : List Entry := dictUpdate [] es

/-- `d.get(k)` -/
def dictGet (k : List Char) : List Entry → Option Nat
  | [] => none
  | e :: rest => if e.1 = k then some e.2 else dictGet k rest

/-- the value of the LAST entry written under `k` in a sequence of declarations -/
def lastVal (k : List Char) : List Entry → Option Nat
  | [] => none
  | e :: es =>
    match lastVal k es with
    | some v => some v
    | none => if e.1 = k then some e.2 else none

/-- a member as a declaration `key: hint` -/
def TdField.entry (f : TdField) : Entry := (f.key, f.tag)

mutual
/-- `__annotations__` of the class object Python builds from the rendered text, in order, with the tag of the
declaration that wins.  Functional syntax: `TypedDict('N', {<all_fields as 'key': hint>})`.  Class syntax
(`class N(B1, B2): name: hint …`): typing collects `annotations.update(base.__annotations__)` for each
base, then the own annotations. -/
def TdClass.rendered : TdClass → List Entry
  | .other => []
  | .cls bases fields =>
    if tdFunctional fields then
      dictOf ((allFieldsL bases ++ fields).map TdField.entry)
    else
      dictUpdate (collectL [] bases) (fields.map fun f => (f.name.getD [], f.tag))
/-- `for base in bases: annotations.update(base.__annotations__)` -/
def collectL (d : List Entry) : List TdClass → List Entry
  | [] => d
  | b :: bs => collectL (dictUpdate d b.rendered) bs
end

end Dcg.Model.TypedDict
