import Dcg.Model.Translate
/-
What pydantic reports back (`model_json_schema()` / `schema()`) for the constraints found at a PLACE of the
IR — C04, second reading of the property: "the JSON Schema that pydantic reports for the generated model
still carries each of those keywords with the same value at the same place".
`reported` (Model/Constraints.lean) is the authored, trusted table pydantic-keyword ↦ reported keyword.
-/
namespace Dcg.Model.Report
open Dcg.Sem Dcg.Model.Constraints Dcg.Model.Translate

/-- constraints of two layers at one place (`Field()` / root model over the type's own arguments) -/
def mergeCons (a b : Cons) : Cons :=
  { ge := a.ge.orElse (fun _ => b.ge), gt := a.gt.orElse (fun _ => b.gt), le := a.le.orElse (fun _ => b.le),
    lt := a.lt.orElse (fun _ => b.lt), multipleOf := a.multipleOf.orElse (fun _ => b.multipleOf),
    minLength := a.minLength.orElse (fun _ => b.minLength), maxLength := a.maxLength.orElse (fun _ => b.maxLength),
    minItems := a.minItems.orElse (fun _ => b.minItems), maxItems := a.maxItems.orElse (fun _ => b.maxItems),
    regex := a.regex.orElse (fun _ => b.regex), pattern := a.pattern.orElse (fun _ => b.pattern) }

/-- every constraint that restricts the value standing at this place: the arguments of the constrained
type, of the root models wrapped around it, through `Optional` -/
def placeCons : Ty → Cons
  | .scalar _ kw => kw
  | .root c t => mergeCons c (placeCons t)
  | .opt t => placeCons t
  | _ => {}

def setNum (b : Bounds) (kw : String) (d : Dec) : Bounds :=
  if kw = "minimum" then { b with minimum := some d }
  else if kw = "maximum" then { b with maximum := some d }
  else if kw = "exclusiveMinimum" then { b with exclMin := some d }
  else if kw = "exclusiveMaximum" then { b with exclMax := some d }
  else if kw = "multipleOf" then { b with multipleOf := some d }
  else b

def setLen (b : Bounds) (kw : String) (n : Nat) : Bounds :=
  if kw = "minLength" then { b with minLength := some n }
  else if kw = "maxLength" then { b with maxLength := some n }
  else b

def setPat (b : Bounds) (kw : String) (p : List Char) : Bounds :=
  if kw = "pattern" then { b with pattern := some p } else b

def repNum (st : Style) (fam : Fam) (pk : String) (v : Option Dec) (b : Bounds) : Bounds :=
  match v, reported st fam pk with
  | some d, some kw => setNum b kw d
  | _, _ => b

def repLen (st : Style) (fam : Fam) (pk : String) (v : Option Nat) (b : Bounds) : Bounds :=
  match v, reported st fam pk with
  | some n, some kw => setLen b kw n
  | _, _ => b

def repPat (st : Style) (fam : Fam) (pk : String) (v : Option (List Char)) (b : Bounds) : Bounds :=
  match v, reported st fam pk with
  | some p, some kw => setPat b kw p
  | _, _ => b

/-- the scalar keywords pydantic reports for constraints `c` on a value of scalar type `ty` -/
def reportBounds (st : Style) (ty : STy) (c : Cons) : Bounds :=
  match famOf ty with
  | none => {}
  | some fam =>
    repPat st fam "pattern" c.pattern <| repPat st fam "regex" c.regex <|
    repLen st fam "max_length" c.maxLength <| repLen st fam "min_length" c.minLength <|
    repNum st fam "multiple_of" c.multipleOf <| repNum st fam "lt" c.lt <| repNum st fam "gt" c.gt <|
    repNum st fam "le" c.le <| repNum st fam "ge" c.ge {}

/-- the item-count keywords (`minItems`, `maxItems`) pydantic reports for constraints `c` on a list -/
def reportItems (st : Style) (c : Cons) : Option Nat × Option Nat :=
  let pick (want : String) : Option Nat :=
    (if reported st .arr "min_items" = some want then c.minItems else none).orElse fun _ =>
    (if reported st .arr "max_items" = some want then c.maxItems else none).orElse fun _ =>
    (if reported st .arr "min_length" = some want then c.minLength else none).orElse fun _ =>
    (if reported st .arr "max_length" = some want then c.maxLength else none)
  (pick "minItems", pick "maxItems")

/-! places below a type -/
/-- the type of the items of a list (through the root models / `Optional` around it) -/
def itemTy : Ty → Ty
  | .list t => t
  | .root _ t => itemTy t
  | .opt t => itemTy t
  | t => t

/-- the type of the values of a dict -/
def valTy : Ty → Ty
  | .dict t => t
  | .root _ t => valTy t
  | .opt t => valTy t
  | t => t

/-- the alternatives of a union -/
def altTys : Ty → List Ty
  | .union ts => ts
  | .root _ t => altTys t
  | .opt t => altTys t
  | _ => []

end Dcg.Model.Report
