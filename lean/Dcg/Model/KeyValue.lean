/-
Dcg.Model.KeyValue — the two `Config` validators that turn the command-line / pyproject.toml
spelling of a VALUE-CARRYING option into the pairs `generate()` takes
(`__main__.py`: `Config.validate_http_headers`, `Config.validate_http_query_parameters`):

    field_name, field_value = each_item.split(sep, maxsplit=1)     # sep = ":" / "="
    return field_name, field_value.lstrip()                        # ValueError → Error("Invalid …")

`splitFirst` is `str.split(sep, maxsplit=1)` for a one-character separator followed by the
two-name unpacking: the text is cut at the FIRST separator; a text without separator gives a
one-element list, the unpacking raises and the validator reports `Error` (`none` here).
`lstrip` is `str.lstrip()` (Python's white space, `isSpace`, validated against CPython over all
code points on every run by the campaign `kv.isspace`).
Strings are `List Char`. Items that are not `str` (already pairs) are passed through by the code
and are outside this model.
-/
namespace Dcg.Model.KeyValue

abbrev Str := List Char

/-- `str.isspace()` of a one-character string, which is what `str.lstrip()` removes -/
def isSpace (c : Char) : Bool :=
  let n := c.toNat
  (9 ≤ n && n ≤ 13) || (28 ≤ n && n ≤ 32) || n == 0x85 || n == 0xA0 || n == 0x1680 ||
  (0x2000 ≤ n && n ≤ 0x200A) || n == 0x2028 || n == 0x2029 || n == 0x202F || n == 0x205F ||
  n == 0x3000

/-- `str.lstrip()` -/
def lstrip (s : Str) : Str := s.dropWhile isSpace

/-- `name, value = s.split(sep, maxsplit=1)`; `none` = the unpacking raises `ValueError` -/
def splitFirst (sep : Char) : Str → Option (Str × Str)
  | [] => none
  | c :: cs => if c = sep then some ([], cs) else (splitFirst sep cs).map (fun p => (c :: p.1, p.2))

/-- one item of `--http-headers` (`sep = ':'`) / `--http-query-parameters` (`sep = '='`);
`none` = `Error("Invalid http header: …")` -/
def parseItem (sep : Char) (s : Str) : Option (Str × Str) :=
  (splitFirst sep s).map (fun p => (p.1, lstrip p.2))

/-- the validator on the whole list: the first bad item raises -/
def parseItems (sep : Char) (items : List Str) : Option (List (Str × Str)) :=
  items.mapM (parseItem sep)

/-- how a user writes the pair `(name, value)` on the command line / in pyproject.toml:
`name`, the separator, optional blanks, `value` (`X-Origin: https://h:8443/p`, `token=abc==`) -/
def render (sep : Char) (pad : Str) (nv : Str × Str) : Str := nv.1 ++ sep :: (pad ++ nv.2)

/-- the separators of the two options -/
def headerSep : Char := ':'
def querySep : Char := '='

end Dcg.Model.KeyValue
