/-
Dcg.Model.KwFlow — where the generator decides "this dataclass is keyword-only".

The keyword-only flag is a Boolean that travels from the user's option (`--keyword-only`,
`generate(keyword_only=…)`) through parameters, attributes and keyword arguments named
`keyword_only` to the template variable `keyword_only`, where it switches the text
`(kw_only=True)` on. `vlib/translate/kwsites.py` lists EVERY place of the source that writes or
forwards the flag, or writes the text `kw_only` / `keyword_only` (Python `ast` + jinja2's parser),
with the Boolean expression that decides it, as a value of the type below
(`Dcg/Gen/KwSites.lean`).

The meaning of an expression is relative to an environment: the value every *read* of the flag
yields, the target version, and an arbitrary valuation of everything the translator does not
understand (`other`). The abstract evaluation `abs` answers the only question the property asks:
"can this be true although nobody asked for keyword-only and the target has no
`dataclass(kw_only=True)`?". Its soundness is `Dcg.Proofs.KwFlow.abs_sound` (induction, unbounded).
No import outside Dcg.Model.
-/
namespace Dcg.Model.KwFlow

/-- Boolean expression deciding a site -/
inductive KExpr where
  | flag                     -- a read of the flag: `keyword_only`, `x.keyword_only`, `values.get("keyword_only")`, template name
  | const (b : Bool)         -- literal `True` / `False` (an un-conditional site is `const true`)
  | guard (pred : Nat)       -- `<version>.has_*` (key of the predicate name)
  | other (id : Nat)         -- anything else (key of its source text): may take any value
  | not (e : KExpr)
  | and (a b : KExpr)
  | or (a b : KExpr)
  deriving Repr, DecidableEq

/-- what a site is -/
inductive Kind where
  | paramDefault   -- `def f(…, keyword_only: bool = E)`            : E
  | callKwarg      -- `f(…, keyword_only=E)` / `{"keyword_only": E}` : E under the dominating conditions
  | assign         -- `x.keyword_only = E` / `keyword_only: bool = E` / `d["keyword_only"] = E`
  | textPy         -- a string literal containing `kw_only` / `keyword_only` used as a value: dominating conditions
  | textTemplate   -- template text containing `kw_only`: the enclosing `{% if %}` tests
  | fieldKey       -- `kw_only` as a member of a `*_FIELD_KEYS` collection (a per-field `field(kw_only=…)` taken from the schema)
  deriving Repr, DecidableEq

structure Site where
  file : Nat      -- key of the path below src/datamodel_code_generator
  func : Nat      -- key of the enclosing function / class / template
  line : Nat
  kind : Kind
  expr : KExpr
  deriving Repr, DecidableEq

/-- environment of one run -/
structure Env where
  flag : Bool            -- value of every read of the flag
  target : Nat           -- minor version of the target
  free : Nat → Bool      -- valuation of what the translator does not understand

/-- meaning; `since p` = first minor version for which predicate `p` holds (none: not a known predicate) -/
def eval (since : Nat → Option Nat) (env : Env) : KExpr → Bool
  | .flag => env.flag
  | .const b => b
  | .guard p => match since p with
    | some v => decide (v ≤ env.target)
    | none => env.free p
  | .other i => env.free i
  | .not e => !(eval since env e)
  | .and a b => eval since env a && eval since env b
  | .or a b => eval since env a || eval since env b

/-- abstract value under the assumption `flag = false ∧ target < bound` -/
inductive A where
  | F | T | U
  deriving Repr, DecidableEq

def A.not : A → A
  | .F => .T
  | .T => .F
  | .U => .U

def A.and : A → A → A
  | .F, _ => .F
  | _, .F => .F
  | .T, .T => .T
  | _, _ => .U

def A.or : A → A → A
  | .T, _ => .T
  | _, .T => .T
  | .F, .F => .F
  | _, _ => .U

/-- abstract evaluation: every read of the flag is false, every predicate that starts at `bound` or later is false -/
def abs (since : Nat → Option Nat) (bound : Nat) : KExpr → A
  | .flag => .F
  | .const true => .T
  | .const false => .F
  | .guard p => match since p with
    | some v => if bound ≤ v then .F else .U
    | none => .U
  | .other _ => .U
  | .not e => (abs since bound e).not
  | .and a b => (abs since bound a).and (abs since bound b)
  | .or a b => (abs since bound a).or (abs since bound b)

/-- the site cannot switch keyword-only on by itself for a target below `bound` -/
def safe (since : Nat → Option Nat) (bound : Nat) (e : KExpr) : Bool := abs since bound e == .F

end Dcg.Model.KwFlow
