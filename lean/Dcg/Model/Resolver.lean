import Dcg.Gen.ResolverTables
/-!
Executable model of `datamodel_code_generator.reference.ModelResolver` (the name registry keyed by
canonical schema path) and of `Parser.__replace_duplicate_name_in_module`.

What is modelled exactly (and differentially executed against the real class on every run):
`join_path`, `resolve_ref` for local pointers (`#`, `#/…`) and plain relative file references
(`a/b.json`, `a/b.json#/…`; no `.`/`..`/empty segments, no symlinks, `current_base_path = base_path`),
`add_ref`, `add`, `get`, `delete`, `get_class_name`, `_get_unique_name` (default counter and
`duplicate_name_suffix`), the default class-name generator / `get_valid_name` on **ASCII** input.

Outside the model (the functions answer `none`, the step answers `Out.unmodelled`): URLs, `base_url`,
`$id` / anchors that are registered (`#foo` not registered raises `KeyError`, modelled as `Out.raised`),
`root_id`, `remove_suffix_number`, `parent_scoped_naming`, a custom class-name generator, non-ASCII names.
The theorems are stated for an ARBITRARY class-name function `cn`, valid-name function `vn` and
singular-name oracle `sing` (structure `Cfg`), so they also cover those options that only change names.

A Python `dict` is an association list in insertion order whose keys are kept unique by the
operations (theorem `registry_functional`); object identity of a `Reference` is the field `oid`.
-/
namespace Dcg.Model.Resolver
open Dcg.Gen.ResolverTables

abbrev Str := List Char

/-! ### small string functions (Python `str` methods used by the resolver) -/

/-- `sep.join(parts)` -/
def joinWith (sep : Str) : List Str → Str
  | [] => []
  | [x] => x
  | x :: y :: rest => x ++ sep ++ joinWith sep (y :: rest)

/-- `s.split(d)` for a one-character separator (never returns `[]`) -/
def splitChar (d : Char) : Str → List Str
  | [] => [[]]
  | c :: cs =>
    match splitChar d cs with
    | [] => [[]]
    | h :: t => if c = d then [] :: h :: t else (c :: h) :: t

/-- `s.replace("/#", "#")` -/
def replaceSlashHash : Str → Str
  | [] => []
  | '/' :: '#' :: rest => '#' :: replaceSlashHash rest
  | c :: rest => c :: replaceSlashHash rest

/-- index of the first occurrence -/
def idxOf (c : Char) : Str → Option Nat
  | [] => none
  | x :: xs => if x = c then some 0 else (idxOf c xs).map (· + 1)

/-- `s.rstrip("#")` -/
def rstripHash (s : Str) : Str := (s.reverse.dropWhile (· == '#')).reverse

/-- the part after the last `/` (the whole string when there is none): `s.rsplit("/", 1)[-1]` -/
def afterLastSlash (s : Str) : Str := (s.reverse.takeWhile (· != '/')).reverse

/-- `pathlib.PurePosixPath(x).stem` for an `x` without `/` -/
def stem (x : Str) : Str :=
  let name := if x = ['.'] then [] else x
  match idxOf '.' name.reverse with
  | none => name
  | some j =>
    let i := name.length - 1 - j
    if 0 < i ∧ i < name.length - 1 then name.take i else name

/-- split at the first `#`: `(before, some after)` or `(s, none)` -/
def splitHash : Str → Str × Option Str
  | [] => ([], none)
  | c :: cs =>
    if c = '#' then ([], some cs)
    else let r := splitHash cs; (c :: r.1, r.2)

def startsWith (p s : Str) : Bool := p.isPrefixOf s

/-- `is_url` -/
def isUrl (s : Str) : Bool := startsWith "https://".toList s || startsWith "http://".toList s

/-! ### ASCII character classes (the region of `get_valid_name` that is modelled) -/

def isAsciiLetter (c : Char) : Bool := ('a' ≤ c && c ≤ 'z') || ('A' ≤ c && c ≤ 'Z')
def isAsciiDigit (c : Char) : Bool := '0' ≤ c && c ≤ '9'
/-- `\w` restricted to ASCII = what `f"_{c}".isidentifier()` accepts in ASCII -/
def isWordAscii (c : Char) : Bool := isAsciiLetter c || isAsciiDigit c || c == '_'
def isAscii (c : Char) : Bool := c.toNat < 128
def upperAscii (c : Char) : Char := if 'a' ≤ c && c ≤ 'z' then Char.ofNat (c.toNat - 32) else c

/-- `str.isidentifier()` on ASCII strings -/
def isIdentAscii : Str → Bool
  | [] => false
  | c :: cs => (isAsciiLetter c || c == '_') && cs.all isWordAscii

def isKeyword (s : Str) : Bool := keywords.contains s

/-- decimal numeral: `str(k)` -/
def digits (k : Nat) : Str := Nat.toDigits 10 k

/-- `snake_to_upper_camel(word)` (delimiter `_`) -/
def snakeToUpperCamel (word : Str) : Str :=
  let (pre, w) := match word with
    | '_' :: rest => (['_'], rest)
    | _ => ([], word)
  pre ++ ((splitChar '_' w).filter (· ≠ [])).flatMap (fun x => match x with
    | [] => []
    | c :: cs => upperAscii c :: cs)

/-- `FieldNameResolver.get_valid_name` of the default CLASS resolver up to (and including) the
keyword suffix: empty name, leading `#`, the `\W` substitution, the `field_` / `field` prefixes. -/
def preValid (name : Str) : Str :=
  let n := if name = [] then emptyFieldName else name
  let n := match n with
    | '#' :: rest => if rest = [] then emptyFieldName else rest
    | _ => n
  let n := n.map (fun c => if isWordAscii c then c else '_')
  let n := match n with
    | c :: _ => if isAsciiDigit c || !(isAsciiLetter c || c == '_') then specialPrefix ++ ['_'] ++ n else n
    | [] => n
  let n := match n with
    | '_' :: _ => specialPrefix ++ n
    | _ => n
  if isKeyword n then n ++ ['_'] else n

/-- the retry loop at the end of `get_valid_name` (`excludes` is `None` for class names):
`while not new.isidentifier() or iskeyword(new): new = f"{name}{count}"` (camel) / `f"{name}_{count}"` -/
def retryLoop (name : Str) (camel : Bool) : Nat → Nat → Str → Option Str
  | 0, _, _ => none
  | fuel + 1, count, new =>
    if !(isIdentAscii new) || isKeyword new then
      retryLoop name camel fuel (count + 1) (if camel then name ++ digits count else name ++ ['_'] ++ digits count)
    else some new

/-- `get_valid_name(name, ignore_snake_case_field=True, upper_camel=camel)` on ASCII input;
`none` = outside the modelled region (non-ASCII) -/
def validName? (camel : Bool) (name : Str) : Option Str :=
  if name.all isAscii then
    let n := preValid name
    retryLoop n camel 3 1 (if camel then snakeToUpperCamel n else n)
  else none

/-- class-name form of a definition key (`default_class_name_generator`) -/
def classForm? (name : Str) : Option Str := validName? true name

/-! ### registry state -/

structure Entry where
  path : Str
  name : Str
  orig : Str
  dup : Option Str
  loaded : Bool
  /-- identity of the Python `Reference` object -/
  oid : Nat
  deriving DecidableEq, Repr

structure State where
  /-- `ModelResolver.references` in insertion order -/
  refs : List Entry
  /-- `exclude_names` -/
  excl : List Str
  /-- `current_root` -/
  root : List Str
  /-- number of `Reference` objects created so far -/
  next : Nat
  deriving DecidableEq, Repr

def State.init (excl : List Str) : State := { refs := [], excl := excl, root := [], next := 0 }

/-- the parts of the resolver that only produce names: any functions will do for the theorems -/
structure Cfg where
  /-- `class_name_generator` -/
  cn : Str → Str
  /-- `get_valid_name(·, ignore_snake_case_field=True)` of the CLASS resolver -/
  vn : Str → Str
  /-- `get_singular_name(name, suffix)` (inflect) -/
  sing : Str → Str → Str
  /-- `duplicate_name_suffix` (`[]` = `None`) -/
  sfx : Str
  /-- `singular_name_suffix` of the resolver -/
  singSuffix : Str

def find (l : List Entry) (p : Str) : Option Entry := l.find? (fun e => e.path == p)

/-- update the first entry stored under `p` (a `dict` has at most one) -/
def upd (p : Str) (f : Entry → Entry) : List Entry → List Entry
  | [] => []
  | e :: es => if e.path = p then f e :: es else e :: upd p f es

def erase (p : Str) (l : List Entry) : List Entry := l.filter (fun e => e.path != p)

/-- `{r.name for r in references.values()} | exclude_names` -/
def taken (s : State) : List Str := s.refs.map (·.name) ++ s.excl

/-! ### `_get_unique_name` -/

/-- `delimiter.join(p for p in [a, b] if p)` for a non-empty `b` -/
def glue (d a b : Str) : Str := if a = [] then b else a ++ d ++ b

/-- the candidate tried at the `k`-th evaluation of the loop condition (`k = 0`: the name itself;
`count = k`) -/
def cand (sfx d name : Str) : Nat → Str
  | 0 => name
  | k + 1 =>
    if sfx = [] then glue d name (digits (k + 1))
    else if k = 0 then glue d name sfx
    else glue d (glue d name sfx) (digits k)

/-- the `while unique_name in reference_names` loop -/
def goU (c : Nat → Str) (tk : List Str) : Nat → Nat → Option Str
  | 0, _ => none
  | fuel + 1, k => if tk.contains (c k) then goU c tk fuel (k + 1) else some (c k)

/-- `_get_unique_name(name, camel)`; `none` = the loop did not finish within the fuel
(theorem `uniqueName_fuel`: never) -/
def uniqueName (cfg : Cfg) (s : State) (name : Str) (camel : Bool) : Option Str :=
  goU (cand cfg.sfx (if camel then [] else ['_']) name) (taken s) ((taken s).length + 1) 0

/-! ### `get_class_name` -/

/-- `(prefix, class part)` of a dotted name: the prefix parts go through `get_valid_name` -/
def dotSplit (cfg : Cfg) (name : Str) : Str × Str :=
  match (splitChar '.' name).reverse with
  | [] => ([], name)
  | [x] => ([], x)
  | last :: revInit => (joinWith ['.'] (revInit.reverse.map cfg.vn) ++ ['.'], last)

def singSuffixOf (cfg : Cfg) (sgSfx : Option Str) : Str :=
  match sgSfx with
  | some x => if x = [] then cfg.singSuffix else x
  | none => cfg.singSuffix

/-- `get_class_name(name, unique, reserved_name, singular_name, singular_name_suffix)` →
`(name, duplicate_name)`; `none` only when the unique-name loop runs out of fuel -/
def getClassName (cfg : Cfg) (s : State) (name : Str) (unique : Bool) (reserved : Option Str)
    (singular : Bool) (sgSfx : Option Str) : Option (Str × Option Str) :=
  let (pre, cls) := dotSplit cfg name
  let c0 := cfg.cn cls
  let c1 := if singular then cfg.sing c0 (singSuffixOf cfg sgSfx) else c0
  if unique then
    if reserved = some c1 then some (c1, none)
    else match uniqueName cfg s c1 true with
      | none => none
      | some u => some (pre ++ u, if u ≠ c1 then some c1 else none)
  else some (pre ++ c1, none)

/-! ### `join_path`, `resolve_ref` -/

/-- `ModelResolver.join_path` -/
def joinPath (path : List Str) : Str :=
  let j := replaceSlashHash (joinWith ['/'] (path.filter (· ≠ [])))
  if j.contains '#' then j else j ++ ['#']

/-- a relative file path that `Path(base, f).resolve()` followed by `get_relative_path(base, ·)`
maps to itself: non-empty segments, none of them `.` or `..` -/
def plainRel (f : Str) : Bool :=
  f ≠ [] && (splitChar '/' f).all (fun seg => seg ≠ [] && seg ≠ ['.'] && seg ≠ ['.', '.'])

/-! ### `ID_PATTERN`: which references are `$id` / anchor references

`resolve_ref` looks a reference up in the id registry (`self.ids[current root][ref]`) exactly when
`ID_PATTERN.match(ref)` succeeds.  The pattern is DATA of the source: its text, its flags and the places it is
used are regenerated into `Gen/ResolverTables` (`idPattern`, `idPatternFlags`, `idPatternUses`) on every run and
`Props/C06.id_pattern_is_reviewed` states that they are the values below.  `isIdRef` is the reviewed reading of
those values and is compared with the real `ID_PATTERN.match` on every run. -/

/-- the reviewed source text of `reference.ID_PATTERN` -/
def reviewedIdPattern : Str := "^#[^/].*".toList
/-- `re.UNICODE` only: what `re.compile` gives a `str` pattern compiled without flags (in particular not
`re.VERBOSE`, under which `#` would start a comment, and not `re.IGNORECASE` / `re.ASCII`) -/
def reviewedIdPatternFlags : Nat := 32
/-- the only read of the name: `ID_PATTERN.match(joined_path)` in `ModelResolver.resolve_ref`
(`match` anchors at the start of the string and accepts any rest) -/
def reviewedIdPatternUses : List Str :=
  ["reference.py:ModelResolver.resolve_ref:ID_PATTERN.match(joined_path)".toList]

/-- `ID_PATTERN.match(r) is not None` for the reviewed pattern `^#[^/].*` applied with `re.match`:
`#`, then one character that is not `/` (a negated class also matches a newline), then anything (`.*` may be
empty and `match` does not require the end of the string). So `#` alone (the document root) and `#/…` (JSON
pointers) are not id references; `#foo`, `#a-b`, `##`, `#1/x` are. -/
def isIdRef : Str → Bool
  | '#' :: c :: _ => c != '/'
  | _ => false

inductive Res where
  | ok (path : Str)
  /-- Python raises (`KeyError` for an unregistered anchor, `IndexError` for `""`) -/
  | raised
  /-- outside the modelled region -/
  | unmodelled
  deriving DecidableEq, Repr

/-- `ModelResolver.resolve_ref(ref)` for a string `ref` under `current_root = root`, with the
default `base_path`, no `base_url`, no `root_id`, no registered ids -/
def resolveRef (root : List Str) (r : Str) : Res :=
  let rootJ := joinWith ['/'] root
  if r = ['#'] then .ok (rootJ ++ ['#'])
  else match r.head? with
    | none => .raised                              -- `joined_path[0]` on the empty string
    | some c =>
      if c = '#' then
        if r.tail.head? = some '/' then
          (if isUrl rootJ then .unmodelled else .ok (rootJ ++ r))
        else .raised                               -- `isIdRef r`: anchor looked up in the (empty) id table
      else
        -- relative file reference (a URL is never `plainRel`: it contains an empty segment)
        let fo := splitHash r
        if plainRel fo.1 then .ok (fo.1 ++ ['#'] ++ fo.2.getD []) else .unmodelled

/-- argument of `get` / `delete` / `resolve_ref`: a string or a sequence (joined first) -/
inductive RefArg where
  | str (s : Str)
  | seq (parts : List Str)
  deriving DecidableEq, Repr

def RefArg.toStr : RefArg → Str
  | .str s => s
  | .seq ps => joinPath ps

/-! ### operations -/

inductive Op where
  | addRef (ref : Str) (resolved : Bool)
  | add (path : List Str) (orig : Str) (className singular unique : Bool) (sgSfx : Option Str) (loaded : Bool)
  | get (ref : RefArg)
  | delete (ref : RefArg)
  | setRoot (root : List Str)
  deriving DecidableEq, Repr

inductive Out where
  /-- the `Reference` returned -/
  | ref (e : Entry)
  /-- `None` returned by `get` -/
  | none
  /-- nothing returned (`delete`, `set_current_root`) -/
  | unit
  | raised
  | unmodelled
  /-- the unique-name loop would not terminate (excluded by `step_never_diverges`) -/
  | diverges
  deriving DecidableEq, Repr

/-- `ModelResolver.add_ref(ref, resolved)` -/
def addRef (cfg : Cfg) (s : State) (ref : Str) (resolved : Bool) : State × Out :=
  match (if resolved then Res.ok ref else resolveRef s.root ref) with
  | .raised => (s, .raised)
  | .unmodelled => (s, .unmodelled)
  | .ok path =>
    match find s.refs path with
    | some e => (s, .ref e)
    | none =>
      match path.getLast? with
      | none => (s, .raised)
      | some lastCh =>
        let last := afterLastSlash ref
        let original :=
          if ref.contains '/' then (if lastCh = '#' then stem (rstripHash last) else last)
          else stem (if lastCh = '#' then rstripHash ref else ref)
        match getClassName cfg s original false none false none with
        | none => (s, .diverges)
        | some (name, _) =>
          let e : Entry := { path := path, name := name, orig := if original = [] then name else original,
                             dup := none, loaded := false, oid := s.next }
          ({ s with refs := s.refs ++ [e], next := s.next + 1 }, .ref e)

/-- the name computed by `add` when it does not return early -/
def addName (cfg : Cfg) (s : State) (orig : Str) (className singular unique : Bool)
    (sgSfx : Option Str) (reserved : Option Str) : Option (Str × Option Str) :=
  if className then getClassName cfg s orig unique reserved singular sgSfx
  else
    let n := cfg.vn orig
    if singular then some (cfg.sing n (singSuffixOf cfg sgSfx), none)
    else if unique then
      match uniqueName cfg s n false with
      | none => none
      | some u => some (u, if u = n then some n else none)
    else some (n, none)

/-- `ModelResolver.add(path, original_name, class_name=, singular_name=, unique=, singular_name_suffix=, loaded=)` -/
def add (cfg : Cfg) (s : State) (path : List Str) (orig : Str) (className singular unique : Bool)
    (sgSfx : Option Str) (loaded : Bool) : State × Out :=
  let jp := joinPath path
  match find s.refs jp with
  | some r0 =>
    -- `if loaded and not reference.loaded: reference.loaded = True`, i.e. `loaded := loaded₀ or loaded`
    let s1 : State := { s with refs := upd jp (fun e => { e with loaded := e.loaded || loaded }) s.refs }
    let r : Entry := { r0 with loaded := r0.loaded || loaded }
    if orig = [] || orig = r.orig || orig = r.name then (s1, .ref r)
    else
      match addName cfg s1 orig className singular unique sgSfx (some r.name) with
      | none => (s1, .diverges)
      | some (name, dup) =>
        let r' : Entry := { r with orig := orig, name := name, loaded := loaded, dup := dup }
        ({ s1 with refs := upd jp (fun _ => r') s1.refs }, .ref r')
  | none =>
    match addName cfg s orig className singular unique sgSfx none with
    | none => (s, .diverges)
    | some (name, dup) =>
      let e : Entry := { path := jp, name := name, orig := if orig = [] then name else orig,
                         dup := dup, loaded := loaded, oid := s.next }
      ({ s with refs := s.refs ++ [e], next := s.next + 1 }, .ref e)

def step (cfg : Cfg) (s : State) : Op → State × Out
  | .addRef ref resolved => addRef cfg s ref resolved
  | .add path orig cls sg uq sgSfx loaded => add cfg s path orig cls sg uq sgSfx loaded
  | .get ref =>
    match resolveRef s.root ref.toStr with
    | .raised => (s, .raised)
    | .unmodelled => (s, .unmodelled)
    | .ok p => match find s.refs p with
      | some e => (s, .ref e)
      | none => (s, .none)
  | .delete ref =>
    match resolveRef s.root ref.toStr with
    | .raised => (s, .raised)
    | .unmodelled => (s, .unmodelled)
    | .ok p => ({ s with refs := erase p s.refs }, .unit)
  | .setRoot root => ({ s with root := root }, .unit)

/-- final state after a list of operations -/
def run (cfg : Cfg) (s : State) : List Op → State
  | [] => s
  | op :: ops => run cfg (step cfg s op).1 ops

/-- state and output after every operation (what the correspondence campaign compares) -/
def trace (cfg : Cfg) (s : State) : List Op → List (State × Out)
  | [] => []
  | op :: ops => let r := step cfg s op; r :: trace cfg r.1 ops

/-- the path an operation deletes in state `s`, if it is a `delete` that resolves -/
def deletes (s : State) : Op → Option Str
  | .delete ref => match resolveRef s.root ref.toStr with
    | .ok p => some p
    | _ => none
  | _ => none

/-- no operation of the list deletes path `p` (roots evolve along the list) -/
def noDeleteOf (cfg : Cfg) (p : Str) (s : State) : List Op → Bool
  | [] => true
  | op :: ops => deletes s op != some p && noDeleteOf cfg p (step cfg s op).1 ops

/-- an `add` that asks for a unique name (and for which unique-suffixing is applied to the whole
name: no dotted module prefix, no singular form without the unique loop) -/
def Op.isUniqueAdd : Op → Bool
  | .add _ orig cls sg uq _ _ => uq && (if cls then !orig.contains '.' else !sg)
  | _ => false

/-! ### `Parser.__replace_duplicate_name_in_module` -/

structure ModModel where
  /-- `model.path` -/
  path : Str
  /-- `model.class_name` -/
  cls : Str
  /-- `model.duplicate_class_name` (`[]` when there is none) -/
  dupCls : Str
  deriving DecidableEq, Repr

/-- first loop: a fresh resolver (`exclude_names` = imported names, `duplicate_name_suffix="Model"`)
re-allocates every class name with `unique=True`. Returns the new class names, in order. -/
def modPass1 (cfg : Cfg) : State → List ModModel → Option (List Str)
  | _, [] => some []
  | s, m :: ms =>
    match add cfg s [m.path] m.cls true false true none false with
    | (s', .ref e) => (modPass1 cfg s' ms).map (e.name :: ·)
    | _ => none

/-- second loop: a model whose first desired name is free again gets it back.
`keys` = keys of the dict `model_names` as a list used only through membership (deleting a key
removes every copy); `none` = `KeyError` in `del model_names[...]` -/
def modPass2 : List Str → List (Str × Str) → List Str → Option (List Str)
  | done, [], _ => some done.reverse
  | done, (c, d) :: rest, keys =>
    if d ≠ [] ∧ ¬ d ∈ keys then
      if c ∈ keys then modPass2 (d :: done) rest (d :: keys.filter (· ≠ c)) else none
    else modPass2 (c :: done) rest keys

/-- the whole pass: final class names of the models, in order -/
def replaceDuplicateNameInModule (cfg : Cfg) (imported : List Str) (ms : List ModModel) : Option (List Str) :=
  match modPass1 { cfg with sfx := moduleDupSuffix } (State.init imported) ms with
  | none => none
  | some names => modPass2 [] (names.zip (ms.map (·.dupCls))) names

/-! ### the concrete default configuration (ASCII region) used by the driver -/

def defaultCfg (singTable : List (Str × Str × Str)) (sfx : Str) (singSuffix : Str) : Cfg where
  cn := fun n => (classForm? n).getD ['?']
  vn := fun n => (validName? false n).getD ['?']
  sing := fun n suffix =>
    match singTable.find? (fun t => t.1 == n && t.2.1 == suffix) with
    | some t => t.2.2
    | none => ['?', 's', 'i', 'n', 'g']
  sfx := sfx
  singSuffix := singSuffix

end Dcg.Model.Resolver
