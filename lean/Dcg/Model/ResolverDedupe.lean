/-!
Model of `Parser.__delete_duplicate_models` (parser/base.py) — C06, "two schemas are merged only when
their rendered content is identical".

The pass walks the models of one module in order. `class_name = model.duplicate_class_name or
model.class_name` is the name the model WANTED (before unique-suffixing). `model_class_names` maps that
name to the model registered LAST under it. A model whose name is registered already is compared with
the registered one on

    (render(class_name=duplicate_class_name), imports)

— here the abstract `key` — and, when the keys are equal, is dropped: every `DataType` that referred to
it is re-pointed to the registered model. Otherwise it REPLACES the registered model under that name.

A model is `(name, key)`; the result says for every position whether the model is kept (`none`) or
dropped in favour of the model at position `j` (`some j`).
(The first half of the loop body — a root-type model that merely wraps a reference to a model of its
own name — is outside this model: the correspondence campaign feeds non-root models.)
-/
namespace Dcg.Model.ResolverDedupe

abbrev Str := List Char

structure DModel where
  /-- `duplicate_class_name or class_name` -/
  name : Str
  /-- `(render(class_name=duplicate_class_name), imports)`, hashable form -/
  key : Str
  deriving DecidableEq, Repr

/-- loop state: models seen so far, their verdicts, `model_class_names` (name ↦ position and model
registered last under it; the newest binding is in front) -/
structure DState where
  pre : List DModel
  outs : List (Option Nat)
  reg : List (Str × (Nat × DModel))
  deriving Repr

def DState.init : DState := ⟨[], [], []⟩

/-- one iteration of `for model in models.copy():` -/
def step (st : DState) (m : DModel) : DState :=
  let i := st.pre.length
  match st.reg.lookup m.name with
  | some (j, o) =>
    if o.key = m.key then
      -- `model_to_duplicate_models[original_model].append(model); continue`
      { st with pre := st.pre ++ [m], outs := st.outs ++ [some j] }
    else
      -- `model_class_names[class_name] = model`
      { pre := st.pre ++ [m], outs := st.outs ++ [none], reg := (m.name, (i, m)) :: st.reg }
  | none => { pre := st.pre ++ [m], outs := st.outs ++ [none], reg := (m.name, (i, m)) :: st.reg }

def run (ms : List DModel) : DState := ms.foldl step DState.init

/-- verdict per model: `none` = kept, `some j` = dropped, its users re-pointed to the model at `j` -/
def dedupe (ms : List DModel) : List (Option Nat) := (run ms).outs

/-- the model a `$ref` to the model at position `i` is rendered as after the pass -/
def land (outs : List (Option Nat)) (i : Nat) : Nat :=
  match outs[i]? with
  | some (some j) => j
  | _ => i

end Dcg.Model.ResolverDedupe
