/-
C11 — the POSITION bookkeeping of `Parser.__reuse_model`
(/repo/src/datamodel_code_generator/parser/base.py), for a module with models of mixed kinds.

    model_cache = {}; duplicates = []
    for model in models.copy():                      -- a SNAPSHOT is walked, `models` is edited
        cached = model_cache.get(key(model))
        if cached:
            if isinstance(model, Enum):   duplicates.append(model)          -- users are re-pointed (Model/Repoint)
            elif plain type alias:        continue                           -- `Name = <type>` stays as it is
            else:
                index = models.index(model)                                  -- LIVE position
                models.insert(index, <class Name(cached): pass>)
                models.remove(model)
        else:
            model_cache[key(model)] = model.reference
    for duplicate in duplicates: models.remove(duplicate)                    -- after the loop

`pass` is this text with Python's list operations (`index`, `insert`, `remove` by equality, each raising
when the element is absent = `none`). `spec` is what it comes to: one walk that writes, for every model of
the input, nothing (a duplicate enum), the model itself, or the subclass that replaces it — in the order of
the input. `Dcg/Proofs/ReusePos.lean` proves `pass = some ∘ spec` for lists of distinct objects.

`passStale` is the pass with the two "simplifications" that break it together (position taken from
`enumerate(models.copy())`, duplicate enums removed at once): kept as the refuted variant.
-/
namespace Dcg.Model.ReusePos

/-- the three branches of the pass: `isinstance(model, Enum)`; a plain type alias (no BASE_CLASS, no
base classes, template root.jinja2); everything else (object models, root models with a base class) -/
inductive Kind where
  | enum | alias | obj
  deriving DecidableEq, Repr, Inhabited

/-- a model object of the module's list -/
structure Item where
  /-- identity of the definition (the inserted subclass carries the identity of the model it replaces) -/
  id : Nat
  kind : Kind
  /-- `(model.render(class_name="M"), model.imports)` up to equality -/
  key : Nat
  /-- `some c`: this is the inserted `class <name>(<c>): pass` -/
  sub : Option Nat := none
  deriving DecidableEq, Repr, Inhabited

/-- `model_cache`: rendering key ↦ identity of the first model with that rendering -/
abbrev Cache := List (Nat × Nat)

def mkSub (m : Item) (c : Nat) : Item := { m with sub := some c }

/-! ### the pass as written -/

/-- `list.insert(i, x)` (an index beyond the end appends) -/
def insertAt {α : Type} (i : Nat) (x : α) : List α → List α
  | [] => [x]
  | y :: l => match i with
    | 0 => x :: y :: l
    | i + 1 => y :: insertAt i x l

structure St where
  models : List Item
  cache : Cache
  dups : List Item
  deriving DecidableEq, Repr

/-- one turn of `for model in models.copy():` -/
def step (st : St) (m : Item) : Option St :=
  match st.cache.lookup m.key with
  | none => some { st with cache := st.cache ++ [(m.key, m.id)] }
  | some c =>
    match m.kind with
    | .enum => some { st with dups := st.dups ++ [m] }
    | .alias => some st
    | .obj =>
      if m ∈ st.models then
        some { st with models := (insertAt (st.models.idxOf m) (mkSub m c) st.models).erase m }
      else none  -- `models.index(model)` raises ValueError

def loop : St → List Item → Option St
  | st, [] => some st
  | st, m :: ms => (step st m).bind (loop · ms)

/-- `for duplicate in duplicates: models.remove(duplicate)` -/
def removeAll : List Item → List Item → Option (List Item)
  | l, [] => some l
  | l, d :: ds => if d ∈ l then removeAll (l.erase d) ds else none

/-- `Parser.__reuse_model(models, …)`: the list afterwards (`none`: the pass raises) -/
def pass (ms : List Item) : Option (List Item) :=
  (loop ⟨ms, [], []⟩ ms).bind fun st => removeAll st.models st.dups

/-! ### what it comes to -/

/-- what the position of `m` holds in the end -/
def img (cache : Cache) (m : Item) : List Item :=
  match cache.lookup m.key with
  | none => [m]
  | some c =>
    match m.kind with
    | .enum => []
    | .alias => [m]
    | .obj => [mkSub m c]

def cacheStep (cache : Cache) (m : Item) : Cache :=
  match cache.lookup m.key with
  | none => cache ++ [(m.key, m.id)]
  | some _ => cache

def cacheGo (cache : Cache) (ms : List Item) : Cache := ms.foldl cacheStep cache

def specGo : Cache → List Item → List Item
  | _, [] => []
  | c, m :: ms => img c m ++ specGo (cacheStep c m) ms

def spec (ms : List Item) : List Item := specGo [] ms

/-! ### the refuted variant: stale positions -/

structure StS where
  models : List Item
  cache : Cache
  deriving DecidableEq, Repr

/-- position from `enumerate(models.copy())`, a duplicate enum removed at once -/
def stepStale (st : StS) (im : Nat × Item) : Option StS :=
  let m := im.2
  match st.cache.lookup m.key with
  | none => some { st with cache := st.cache ++ [(m.key, m.id)] }
  | some c =>
    match m.kind with
    | .enum => if m ∈ st.models then some { st with models := st.models.erase m } else none
    | .alias => some st
    | .obj =>
      if m ∈ st.models then some { st with models := (insertAt im.1 (mkSub m c) st.models).erase m } else none

def loopStale : StS → List (Nat × Item) → Option StS
  | st, [] => some st
  | st, m :: ms => (stepStale st m).bind (loopStale · ms)

def passStale (ms : List Item) : Option (List Item) :=
  (loopStale ⟨ms, []⟩ ((List.range ms.length).zip ms)).map (·.models)

end Dcg.Model.ReusePos
