/-!
Abstract model of the reserved-reference work list of `JsonSchemaParser._parse_file`
(parser/jsonschema.py, the `while reserved_refs:` loop) — C06, "reference into a not-yet-parsed
part of the document".

* `resolve_ref(ref)`: `add_ref`; when the reference is not loaded, `reserved_refs[root].add(ref)`.
* one round: `for p in sorted(snapshot): if loaded(p): continue; parse_obj(p)` — parsing the
  subschema at `p` registers `p` as loaded and resolves the references written inside it (which
  reserves the unloaded ones).
* `previous = snapshot; snapshot = set(reserved_refs); if previous == snapshot: break`.

The document is a parameter `doc : Ptr → Option (List Ptr)`: the references written inside the
subschema at a pointer, `none` when the pointer does not exist (`get_model_by_path` raises).
The order in which a round visits the snapshot (`sorted`) does not matter for what is proved.
-/
namespace Dcg.Model.ResolverWorklist

abbrev Ptr := List Char

structure WState where
  loaded : List Ptr
  /-- `self.reserved_refs[root]` — a set, kept duplicate free; only ever grows -/
  reserved : List Ptr
  deriving DecidableEq, Repr

/-- `JsonSchemaParser.resolve_ref` for a local pointer -/
def reserve (st : WState) (r : Ptr) : WState :=
  if r ∈ st.loaded ∨ r ∈ st.reserved then st else { st with reserved := st.reserved ++ [r] }

/-- `parse_obj` at pointer `p` whose subschema contains the references `refs`: `parse_object`
registers the path as loaded first (`model_resolver.add(path, name, class_name=True, loaded=True)`)
and then parses the members, so a self reference is not reserved -/
def load (st : WState) (p : Ptr) (refs : List Ptr) : WState :=
  refs.foldl reserve { st with loaded := p :: st.loaded }

inductive Res where
  | done (st : WState)
  /-- a reserved pointer does not exist in the document: `KeyError`, generation fails (reported) -/
  | missing (p : Ptr)
  | outOfFuel
  deriving DecidableEq, Repr

/-- one round over a snapshot of the reserved set -/
def round (doc : Ptr → Option (List Ptr)) : List Ptr → WState → Option WState
  | [], st => some st
  | p :: ps, st =>
    if p ∈ st.loaded then round doc ps st
    else match doc p with
      | none => none
      | some refs => round doc ps (load st p refs)

/-- first pointer of the snapshot that is neither loaded nor present in the document -/
def firstMissing (doc : Ptr → Option (List Ptr)) (st : WState) : Ptr :=
  (st.reserved.find? (fun p => (doc p).isNone)).getD []

/-- the `while reserved_refs:` loop -/
def loop (doc : Ptr → Option (List Ptr)) : Nat → WState → Res
  | 0, _ => .outOfFuel
  | fuel + 1, st =>
    if st.reserved = [] then .done st
    else match round doc st.reserved st with
      | none => .missing (firstMissing doc st)
      | some st' =>
        -- `previous_reserved_refs == reserved_refs` (the set only grows, so: same size)
        if st'.reserved.length = st.reserved.length then .done st' else loop doc fuel st'

end Dcg.Model.ResolverWorklist
