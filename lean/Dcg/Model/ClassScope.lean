/-
Dcg.Model.ClassScope — name binding in an emitted module, as far as property C02 is concerned.

NOT a transliteration of generator code: it is the *statement* of C02 on a small abstract syntax of
the emitted text (what the harness extracts from the real module with Python's `ast`), together
with an executable checker (`problems`) that the driver runs on every real module of the e2e
campaign.  `Proofs/ClassScope` proves checker ⇔ statement and the generator-side sufficient
conditions; `vlib/classscope.py` is the independent Python implementation of the same analysis and
the really imported module is the third voice (three-way agreement, campaign `classscope.tie`).

Python semantics stated here (trusted, validated on every run against CPython + the libraries):
* a module is a sequence of statements; an *eager* use must be bound by an earlier statement (or
  be a builtin), a *deferred* use (annotation under `from __future__ import annotations`) by any
  statement of the module;
* a class body runs statement by statement in its own namespace, looked up first; `m: T = v`
  evaluates `v`, binds `m`, then (without the future import) evaluates `T`; `m: T` binds nothing;
* CPython evaluates operands left to right and then applies the operation (`eval`): reading a name
  that carries a member's value is silent; subscripting, calling or dereferencing it raises;
  reading an unbound name raises NameError first if it comes first;
* who evaluates deferred annotations in the class namespace once the class exists (`Kind`):
  pydantic v2 at class creation (names bound so far, the class's own name on top; NameError =
  forward reference, re-evaluated later when the members' values are gone from the class: harmless);
  for dataclasses the evaluators that put the class namespace first (`inspect.get_annotations
  (eval_str=True)`, pydantic's TypeAdapter; `typing.get_type_hints` for builtin names), where a
  member written `field(...)` without `default=` is no class attribute; pydantic v1, TypedDict and
  msgspec: nobody (module globals only / no member has a value / not claimed).
-/
namespace Dcg.Model.ClassScope

abbrev Name := List Char

/-- expressions, as far as evaluation order and name reads matter -/
inductive Expr where
  | name (n : Name)
  /-- constant, lambda (its body is not evaluated where it is written) -/
  | lit
  /-- `head[args]` -/
  | sub (head : Expr) (args : List Expr)
  /-- `f(args, k=v, …)` -/
  | call (f : Expr) (args : List Expr)
  /-- `e.attr` -/
  | attr (e : Expr)
  /-- tuple / list / set / dict display: the elements are evaluated and passed on -/
  | tuple (es : List Expr)
  /-- any other operator (`a | b`, …): value dependent when an operand is a member's value -/
  | op (es : List Expr)
  deriving Inhabited, Repr

mutual
/-- names read, in evaluation order -/
def Expr.names : Expr → List Name
  | .name n => [n]
  | .lit => []
  | .sub h args => h.names ++ Expr.namesL args
  | .call f args => f.names ++ Expr.namesL args
  | .attr e => e.names
  | .tuple es => Expr.namesL es
  | .op es => Expr.namesL es
def Expr.namesL : List Expr → List Name
  | [] => []
  | e :: es => e.names ++ Expr.namesL es
end

/-- result of evaluating an expression where some names carry a class member's value -/
inductive R where
  /-- completed: is the value itself a member's value? was any member's value read on the way? -/
  | val (hidden : Bool) (saw : Bool)
  | nameErr
  | exc
  | dep
  deriving DecidableEq, Repr, Inhabited

mutual
/-- `hid n`: the name carries a member's value here; `bnd n`: the name is bound here -/
def eval (hid bnd : Name → Bool) : Expr → R
  | .name n => if hid n then .val true true else if bnd n then .val false false else .nameErr
  | .lit => .val false false
  | .sub h args =>
    match eval hid bnd h with
    | .val hh sh =>
      (match evalL hid bnd args with
       | .val _ sa => if hh then .exc else .val false (sh || sa)
       | r => r)
    | r => r
  | .call f args =>
    match eval hid bnd f with
    | .val hh sh =>
      (match evalL hid bnd args with
       | .val _ sa => if hh then .exc else .val false (sh || sa)
       | r => r)
    | r => r
  | .attr e =>
    match eval hid bnd e with
    | .val h s => if h then .exc else .val false s
    | r => r
  | .tuple es =>
    match evalL hid bnd es with
    | .val _ s => .val false s
    | r => r
  | .op es =>
    match evalL hid bnd es with
    | .val h s => if h then .dep else .val false s
    | r => r
/-- elements left to right; `hidden` = some element's value is a member's value -/
def evalL (hid bnd : Name → Bool) : List Expr → R
  | [] => .val false false
  | e :: es =>
    match eval hid bnd e with
    | .val h s =>
      (match evalL hid bnd es with
       | .val h' s' => .val (h || h') (s || s')
       | r => r)
    | r => r
end

inductive Outcome where
  /-- no member's value is read -/
  | ok
  /-- a member's value is read and handed on to a typing construct: another type than the module
  means (None ↦ NoneType, no exception) or that construct's exception (most other values) -/
  | passedOn
  /-- an unbound name is read before anything else goes wrong -/
  | nameError
  /-- a member's value is subscripted, called or dereferenced -/
  | exception
  /-- a member's value is an operand of an operator -/
  | valueDependent
  deriving DecidableEq, Repr, Inhabited

def outcome (hid bnd : Name → Bool) (e : Expr) : Outcome :=
  match eval hid bnd e with
  | .val _ s => if s then .passedOn else .ok
  | .nameErr => .nameError
  | .exc => .exception
  | .dep => .valueDependent

/-- the evaluation does no harm: nothing hidden is read, or NameError comes first -/
def Outcome.harmless : Outcome → Bool
  | .ok => true
  | .nameError => true
  | _ => false

/-! ### the emitted module -/

/-- one evaluated expression: the names it needs bound (as the scope analysis counts them: string
forward references parsed, lambda bodies included) and its evaluation skeleton -/
structure Site where
  uses : List Name
  /-- names read by the bodies of lambdas inside: needed when the lambda is called (module scope,
  every statement has run) -/
  late : List Name := []
  expr : Expr
  deriving Inhabited, Repr

/-- one statement of a class body -/
structure Item where
  /-- the member (or nested def/class) the statement is about -/
  target : Name
  /-- names bound in the class namespace by it (none for a bare annotation `m: T`) -/
  binds : List Name
  ann : Option Site
  /-- evaluated when the statement runs, before `binds` -/
  value : Option Site
  /-- the binding is still a class attribute after `@dataclass` -/
  keptDc : Bool := true
  deriving Inhabited, Repr

structure Cls where
  name : Name
  /-- false for a nested class hoisted out of its enclosing class (it binds nothing at module level) -/
  bindsModule : Bool := true
  /-- eager uses of decorators, bases (generic arguments included) and keywords -/
  header : List Name
  items : List Item
  deriving Inhabited, Repr

inductive Stmt where
  | imp (names : List Name)
  | cls (c : Cls)
  /-- `X = e` / `X: A = e`: targets bound (none for a bare annotation), eager uses of `e`, uses of `A` -/
  | assign (targets : List Name) (value : List Name) (ann : Option (List Name))
  | expr (uses : List Name)
  | fn (name : Name) (uses : List Name)
  /-- names the lambdas of the preceding statement read when they are called -/
  | late (uses : List Name)
  deriving Inhabited, Repr

structure Module where
  future : Bool
  stmts : List Stmt
  deriving Inhabited, Repr

inductive Kind where
  | pydV1 | pydV2 | dataclass | typedDict | msgspec
  deriving DecidableEq, Repr, Inhabited

structure Cfg where
  kind : Kind
  builtins : List Name
  deriving Inhabited, Repr

def Stmt.binds : Stmt → List Name
  | .imp ns => ns
  | .cls c => if c.bindsModule then [c.name] else []
  | .assign ts _ _ => ts
  | .expr _ => []
  | .fn n _ => [n]
  | .late _ => []

def Stmt.imports : Stmt → List Name
  | .imp ns => ns
  | _ => []

def boundAll (m : Module) : List Name := m.stmts.flatMap Stmt.binds

inductive Phase where
  | body | creation
  deriving DecidableEq, Repr, Inhabited

inductive Problem where
  /-- eager use of a name that only a later statement binds -/
  | order (n : Name)
  /-- use of a name no statement binds -/
  | missing (n : Name)
  /-- a class or assignment re-binds a name an earlier import bound -/
  | rebind (n : Name)
  /-- member `n` of class `cls` hides the name `n` for `user`'s value (`body`) or annotation (`creation`) -/
  | hides (cls user n : Name) (ph : Phase) (eff : Outcome)
  deriving DecidableEq, Repr, Inhabited

/-- the context of a statement: names bound by earlier statements, by all statements, imported so far -/
structure Ctx where
  before : List Name
  all : List Name
  builtins : List Name
  deriving Inhabited

def Ctx.outer (c : Ctx) (n : Name) : Bool := decide (n ∈ c.all) || decide (n ∈ c.builtins)

def eagerP (c : Ctx) (ns : List Name) (uses : List Name) : List Problem :=
  uses.filterMap fun n =>
    if n ∈ c.before ∨ n ∈ c.builtins ∨ n ∈ ns then none
    else some (if n ∈ c.all then .order n else .missing n)

def deferredP (c : Ctx) (uses : List Name) : List Problem :=
  uses.filterMap fun n => if n ∈ c.all ∨ n ∈ c.builtins then none else some (.missing n)

/-- hidings of one evaluation -/
def hideP (cls user : Name) (ph : Phase) (hid bnd : Name → Bool) (e : Expr) : List Problem :=
  let eff := outcome hid bnd e
  if eff.harmless then [] else (e.names.filter hid).map fun n => .hides cls user n ph eff

/-- while the class body runs with namespace `ns`: a name of `ns` that the module also means
something by carries the member's value -/
def hidB (c : Ctx) (ns : List Name) (n : Name) : Bool := decide (n ∈ ns) && c.outer n
def bndB (c : Ctx) (ns : List Name) (n : Name) : Bool :=
  decide (n ∈ ns) || decide (n ∈ c.before) || decide (n ∈ c.builtins)

/-- pydantic v2 at class creation: the final namespace, the class's own name on top -/
def hidV2 (c : Ctx) (cls : Name) (nsFinal : List Name) (n : Name) : Bool :=
  decide (n ∈ nsFinal) && c.outer n && !(n == cls)
def bndV2 (c : Ctx) (cls : Name) (nsFinal : List Name) (n : Name) : Bool :=
  decide (n ∈ nsFinal) || n == cls || decide (n ∈ c.before) || decide (n ∈ c.builtins)

/-- evaluators of a dataclass's annotations after import: the attributes `@dataclass` left -/
def hidDc (c : Ctx) (nsDc : List Name) (n : Name) : Bool := decide (n ∈ nsDc) && c.outer n

/-- one statement of the class body, `ns` = class namespace before it -/
def itemP (c : Ctx) (future : Bool) (cls : Name) (ns : List Name) (it : Item) : List Problem :=
  (match it.value with
   | none => []
   | some s => eagerP c ns s.uses ++ deferredP c s.late ++ hideP cls it.target .body (hidB c ns) (bndB c ns) s.expr) ++
  (match it.ann with
   | none => []
   | some s =>
     deferredP c s.late ++
     (if future then deferredP c s.uses
      else eagerP c (ns ++ it.binds) s.uses ++
        hideP cls it.target .body (hidB c (ns ++ it.binds)) (bndB c (ns ++ it.binds)) s.expr))

/-- the class body, statement by statement; `ns` = class namespace so far -/
def itemsP (c : Ctx) (future : Bool) (cls : Name) : List Item → List Name → List Problem
  | [], _ => []
  | it :: rest, ns => itemP c future cls ns it ++ itemsP c future cls rest (ns ++ it.binds)

def nsFinal (cls : Cls) : List Name := cls.items.flatMap (·.binds)
def nsDc (cls : Cls) : List Name := (cls.items.filter (·.keptDc)).flatMap (·.binds)

/-- one deferred annotation, evaluated in the class namespace once the class exists -/
def creationItemP (c : Ctx) (k : Kind) (cls : Cls) (it : Item) : List Problem :=
  match it.ann with
  | none => []
  | some s =>
    match k with
    | .pydV2 =>
      hideP cls.name it.target .creation (hidV2 c cls.name (nsFinal cls)) (bndV2 c cls.name (nsFinal cls)) s.expr
    | .dataclass => hideP cls.name it.target .creation (hidDc c (nsDc cls)) (fun _ => true) s.expr
    | _ => []

def creationP (c : Ctx) (k : Kind) (cls : Cls) : List Problem :=
  cls.items.flatMap (creationItemP c k cls)

def clsP (c : Ctx) (k : Kind) (future : Bool) (cls : Cls) : List Problem :=
  eagerP c [] cls.header ++ itemsP c future cls.name cls.items [] ++
  (if future then creationP c k cls else [])

def stmtP (c : Ctx) (k : Kind) (future : Bool) : Stmt → List Problem
  | .imp _ => []
  | .cls cl => clsP c k future cl
  | .assign _ v a =>
    eagerP c [] v ++ (match a with
      | none => []
      | some u => if future then deferredP c u else eagerP c [] u)
  | .expr u => eagerP c [] u
  | .fn _ u => eagerP c [] u
  | .late u => deferredP c u

def rebindP (imported : List Name) : Stmt → List Problem
  | .imp _ => []
  | s => (s.binds.filter (fun n => decide (n ∈ imported))).map .rebind

/-- statements in order; `before` / `imported` = names bound / imported by the statements already seen -/
def stmtsP (cfg : Cfg) (future : Bool) (all : List Name) : List Stmt → List Name → List Name → List Problem
  | [], _, _ => []
  | s :: rest, before, imported =>
    stmtP ⟨before, all, cfg.builtins⟩ cfg.kind future s ++ rebindP imported s ++
    stmtsP cfg future all rest (before ++ s.binds) (imported ++ s.imports)

/-- everything that is wrong with the module for output of kind `cfg.kind` -/
def problems (cfg : Cfg) (m : Module) : List Problem :=
  stmtsP cfg m.future (boundAll m) m.stmts [] []

def wellBound (cfg : Cfg) (m : Module) : Bool := (problems cfg m).isEmpty

def firstProblem (cfg : Cfg) (m : Module) : Option Problem := (problems cfg m).head?

end Dcg.Model.ClassScope
