import Dcg.Model.FieldSpec
/-!
# Union-typed members: the fourth way a schema admits null (property C05)

A member written as `anyOf` / `oneOf` admits null when one of its alternatives does:
`{"type": "null"}`, `{"type": [T, "null"]}`, or OpenAPI `{"type": T, "nullable": true}`.
The generator decides whether the rendered annotation admits `None` in the union branch of
`DataType.type_hint` (`types.py`): it walks the hints of the alternatives, skips a hint it has
already collected, turns a `None` alternative and every `… | None` / `Optional[…]` it strips into
the flag `is_optional`, and finally writes `get_optional_type(…)` when the flag is set. That flag is
what the class templates and `DataModelFieldBase.type_hint` read afterwards — the rest of the C05
model (`Dcg.Model.Field`) only depends on it and on whether the written text itself admits `None`.

This file transliterates that normalisation at the level of *hint structure* for both spellings

* operator spelling (`use_union_operator`): a hint is the list of its `|`-separated parts; joining
  hints with `" | "` concatenates the lists, which is how the text flattens;
* bracket spelling: a hint is a tree of `Optional[…]` / `Union[…, …]` over atoms.

Atoms stand for bracket-free type names (`str`, `int`, `bool`, `Any`); container types and the
character-level scanners are the subject of `Dcg.Model.Types` (property C13), not of this file.

`UVec` then places a union-typed member into the C05 space: everything except the null admission
reduces to the scalar member of `Dcg.Model.Field` whose null source is "type list" exactly when the
flag is set (`Dcg.Proofs.FieldUnion.renderU_reduces`).
-/
namespace Dcg.Model.Field

/-- bracket-free type names; `any` is `typing.Any`, which `type_hint` never wraps in `Optional` -/
inductive Atom where
  | a | b | c | any
  deriving DecidableEq, Repr, Inhabited

/-! ## Operator spelling: `X | Y | None` -/

inductive Part where
  | none
  | atom (x : Atom)
  deriving DecidableEq, Repr, Inhabited

/-- the `|`-separated parts of a hint (`[]` is the empty string) -/
abbrev PHint := List Part

/-- does a value of this part's type include `None`? (`Any` does) -/
def Part.admitsNone : Part → Bool
  | .none => true
  | .atom .any => true
  | .atom _ => false

def PHint.admitsNone (h : PHint) : Bool := h.any Part.admitsNone

/-- `_remove_none_from_union(type_, use_union_operator=True)`: unchanged without `" | "`; else the
parts that are not `None`, or `None` when nothing is left -/
def removeNoneP (h : PHint) : PHint :=
  match h with
  | [] | [_] => h
  | _ =>
    match h.filter (· != .none) with
    | [] => [.none]
    | ps => ps

/-- `get_optional_type(type_, use_union_operator=True)` -/
def getOptionalP (h : PHint) : PHint :=
  let t := removeNoneP h
  if t = [] ∨ t = [.none] then [.none] else t ++ [.none]

/-- The `for data_type in self.data_types` loop of `DataType.type_hint`;
state = (`data_types` collected so far, `self.is_optional`):
```
data_type_type = data_type.type_hint
if data_type_type in data_types: continue
if data_type_type == NONE: self.is_optional = True; continue
non_optional = _remove_none_from_union(data_type_type, …)
if non_optional != data_type_type: self.is_optional = True
data_types.append(non_optional)
``` -/
def unionLoopP : List PHint → List PHint → Bool → List PHint × Bool
  | [], acc, opt => (acc, opt)
  | h :: hs, acc, opt =>
    if acc.contains h then unionLoopP hs acc opt
    else if h = [.none] then unionLoopP hs acc true
    else
      let h' := removeNoneP h
      unionLoopP hs (acc ++ [h']) (opt || h' != h)

/-- the end of `type_hint`: `if self.is_optional and type_ != ANY: return get_optional_type(…)` -/
def finishP (ty : PHint) (opt : Bool) : PHint × Bool :=
  if opt ∧ ty ≠ [.atom .any] then (getOptionalP ty, opt) else (ty, opt)

/-- `DataType(data_types=kids, is_optional=isOpt).type_hint` for a type without name, container,
literals or reference: the hint, and `is_optional` as the call leaves it. Two or more `data_types`
make a union (`is_union`), a single one is passed through. -/
def nodeP (kids : List PHint) (isOpt : Bool) : PHint × Bool :=
  match kids with
  | _ :: _ :: _ =>
    let r := unionLoopP kids [] isOpt
    finishP (match r.1 with | [d] => d | ds => ds.flatten) r.2
  | [h] => finishP h isOpt
  | [] => finishP [] isOpt

/-! ## Bracket spelling: `Optional[X]`, `Union[X, Y]` -/

inductive BHint where
  | none
  | atom (x : Atom)
  | opt (h : BHint)              -- `Optional[h]`
  | union (hs : List BHint)      -- `Union[h1, …, hn]`
  deriving Repr, Inhabited

mutual
def BHint.beq : BHint → BHint → Bool
  | .none, .none => true
  | .atom x, .atom y => x == y
  | .opt g, .opt h => BHint.beq g h
  | .union gs, .union hs => BHint.beqL gs hs
  | _, _ => false
def BHint.beqL : List BHint → List BHint → Bool
  | [], [] => true
  | g :: gs, h :: hs => BHint.beq g h && BHint.beqL gs hs
  | _, _ => false
end

instance : BEq BHint := ⟨BHint.beq⟩

mutual
def BHint.admitsNone : BHint → Bool
  | .none => true
  | .atom .any => true
  | .atom _ => false
  | .opt _ => true
  | .union hs => BHint.admitsNoneL hs
def BHint.admitsNoneL : List BHint → Bool
  | [] => false
  | h :: hs => BHint.admitsNone h || BHint.admitsNoneL hs
end

def BHint.isNone : BHint → Bool
  | .none => true
  | _ => false

mutual
/-- `_remove_none_from_union(type_, use_union_operator=False)`: only a hint that starts with
`Union[` is touched (so `Optional[X]` stays as it is): the top-level parts that are not `None`, nested
`Union[…]` parts processed the same way; `None` when nothing is left, the part itself when one is left -/
def removeNoneB : BHint → BHint
  | .union hs =>
    match removeNoneBL hs with
    | [] => .none
    | [p] => p
    | ps => .union ps
  | h => h
def removeNoneBL : List BHint → List BHint
  | [] => []
  | .none :: hs => removeNoneBL hs
  | .union gs :: hs => removeNoneB (.union gs) :: removeNoneBL hs
  | h :: hs => h :: removeNoneBL hs
end

/-- `get_optional_type(type_, use_union_operator=False)` -/
def getOptionalB (h : BHint) : BHint :=
  let t := removeNoneB h
  if t.isNone then .none else .opt t

def unionLoopB : List BHint → List BHint → Bool → List BHint × Bool
  | [], acc, opt => (acc, opt)
  | h :: hs, acc, opt =>
    if acc.contains h then unionLoopB hs acc opt
    else if h.isNone then unionLoopB hs acc true
    else
      let h' := removeNoneB h
      unionLoopB hs (acc ++ [h']) (opt || h' != h)

def BHint.isAny : BHint → Bool
  | .atom .any => true
  | _ => false

def finishB (ty : BHint) (opt : Bool) : BHint × Bool :=
  if opt && !ty.isAny then (getOptionalB ty, opt) else (ty, opt)

/-- as `nodeP`; a type without any `data_types` has the empty hint, which `get_optional_type` turns
into `None` (and the field level into `None` as well): `.union []` stands for it -/
def nodeB (kids : List BHint) (isOpt : Bool) : BHint × Bool :=
  match kids with
  | _ :: _ :: _ =>
    let r := unionLoopB kids [] isOpt
    finishB (match r.1 with | [d] => d | ds => .union ds) r.2
  | [h] => finishB h isOpt
  | [] => finishB (.union []) isOpt

/-! ## Alternatives of an `anyOf` / `oneOf` member -/

/-- one alternative of the member's `anyOf` / `oneOf` -/
inductive Alt where
  | plain (x : Atom)      -- `{"type": T}`
  | nullable (x : Atom)   -- `{"type": [T, "null"]}`
  | flag (x : Atom)       -- OpenAPI `{"type": T, "nullable": true}`
  | null                  -- `{"type": "null"}`
  deriving DecidableEq, Repr, Inhabited

/-- the schema of this alternative admits null -/
def Alt.admitsNull : Alt → Bool
  | .plain _ => false
  | _ => true

/-- Does `get_data_type` see a type list containing "null" for this alternative?
`OpenAPIParser.get_data_type` rewrites `type: T, nullable: true` into `[T, "null"]` only under
strict-nullable; a type list gives `data_type(data_types=[T], is_optional=True)`. -/
def Alt.typeListNull (sn : Bool) : Alt → Bool
  | .nullable _ => true
  | .flag _ => sn
  | _ => false

/-- the alternative's own hint admits `None` as the generator reads the schema: `type: null`, or a
type list containing "null" -/
def Alt.effNull (sn : Bool) : Alt → Bool
  | .null => true
  | a => a.typeListNull sn

/-- an alternative that is just a type name other than `Any` -/
def Alt.isPlain : Alt → Bool
  | .plain x => x != .any
  | _ => false

/-- the alternative does not admit null, or only through the OpenAPI `nullable` keyword -/
def Alt.nullOnlyByFlag : Alt → Bool
  | .flag _ => true
  | a => !a.admitsNull

def Alt.atom? : Alt → Option Atom
  | .plain x | .nullable x | .flag x => some x
  | .null => none

/-- hint of the alternative's `DataType`, operator spelling -/
def Alt.hintP (sn : Bool) (a : Alt) : PHint :=
  match a.atom? with
  | none => [.none]                                      -- `Types.null` ↦ `None`
  | some x => (nodeP [[.atom x]] (a.typeListNull sn)).1

/-- hint of the alternative's `DataType`, bracket spelling -/
def Alt.hintB (sn : Bool) (a : Alt) : BHint :=
  match a.atom? with
  | none => .none
  | some x => (nodeB [.atom x] (a.typeListNull sn)).1

/-- The member's `DataType` is `data_type(data_types=[… one per alternative …])`; result:
(does the written hint admit `None`, `data_type.is_optional` after `type_hint` ran). -/
def unionOutcome (unionOp sn : Bool) (alts : List Alt) : Bool × Bool :=
  if unionOp then
    let r := nodeP (alts.map (Alt.hintP sn)) false
    (r.1.admitsNone, r.2)
  else
    let r := nodeB (alts.map (Alt.hintB sn)) false
    (r.1.admitsNone, r.2)

/-! ## The union-typed member in the C05 space -/

/-- `base` gives kind, `required` listing, default class, options, where the name is listed and
what it looks like; its `nullsrc`, `ty` and `constr` are not read (`asVec` overwrites them). -/
structure UVec where
  base : Vec
  alts : List Alt
  unionOp : Bool     -- use_union_operator
  deriving Repr, Inhabited

def UVec.textNull (u : UVec) : Bool := (unionOutcome u.unionOp u.base.opts.sn u.alts).1
def UVec.flag (u : UVec) : Bool := (unionOutcome u.unionOp u.base.opts.sn u.alts).2

/-- the schema admits null: some alternative does -/
def UVec.admitsNull (u : UVec) : Bool := u.alts.any Alt.admitsNull

/-- the only null-admitting alternatives are OpenAPI `nullable: true` ones and strict-nullable is
off: `nullable` is not read at all then (same family as `nullableFlagIgnored`) -/
def UVec.flagIgnored (u : UVec) : Bool :=
  !u.base.opts.sn && u.alts.all Alt.nullOnlyByFlag

/-- The scalar member this one behaves like, apart from the `None` its written hint may contain:
no constraint keyword, null source "type list" exactly when `is_optional` ends up set. -/
def UVec.asVec (u : UVec) : Vec :=
  { u.base with nullsrc := if u.flag then .typelist else .no, ty := .scalar, constr := false }

/-- a default of list/dict class does not fit a union of scalars; at least one alternative has a
type other than null (a member that can only be null is written `n: None`, which is not a union and
which pydantic 1 does not read as `Optional`: outside the space) -/
def UVec.valid (u : UVec) : Bool := u.asVec.valid && u.alts.any (fun a => a.atom?.isSome)

/-- `get_object_field` for an `anyOf`/`oneOf` member: `type_has_null` is False (`type` is not a
list), `is_constraints_field` is False (so `constraints=None`), `nullable` is the keyword's default;
`data_type.is_optional` is the flag the union loop leaves. -/
def fromUnion (u : UVec) : FieldRec :=
  let v := u.asVec.reduce
  { required := v.required
    nullable := if v.sn && (v.dflt.given || (v.required && !v.late)) then some false else none
    hasDefault := v.dflt.given
    dflt := v.dflt
    typeHasNull := false
    stripDefaultNone := v.sd
    dataTypeIsOptional := u.flag
    useAnnotated := v.an
    hasAlias := v.hasAlias
    constraints := .none
    ty := .scalar }

/-- the rendered member: the field-level decision of `DataModelFieldBase.type_hint` can only add an
`Optional[…]` around the type's own hint, never remove a `None` that hint already contains -/
def renderUD (dec : Kind → Env → Decision) (u : UVec) : Shape :=
  let s := renderFieldD dec u.base.kind (fromUnion u)
  { s with opt := s.opt || u.textNull }

def renderU (u : UVec) : Shape := renderUD tableDecision u

def semU (u : UVec) : Sem := semOf u.base.kind (renderU u)

/-- pydantic 1 reads a bare annotation that admits `None` as "not required": for a union-typed
member the `None` can sit inside the written union (`Union[str, Optional[str]]`) without
`is_optional` being set, which the scalar family `v1Bare` does not see -/
def v1BareText (u : UVec) : Bool :=
  u.base.kind == .v1 && u.textNull && !(render u.asVec).opt && (render u.asVec).asg == .none &&
    (render u.asVec).ann != .req

end Dcg.Model.Field
