import Dcg.Model.Sort
/-
C11, what happens around `sort_data_models` (/repo/src/datamodel_code_generator/parser/base.py):

* the interpreter stack. `sort_data_models` recurses once per worklist pass; the nested call sits in
  `try: … except RecursionError: pass`, so an exhausted stack falls through to the base-class bubble
  and the cycle stage of the CALLER (the escape hatch). `sortGoS hatch stack rc` is `sortGo rc` with
  `stack` = number of nested calls that still fit; `hatch = false` is the function without the
  `try/except` (the `RecursionError` leaves the function).
  Abstraction: the error strikes at the call (or in the callee before its first write to
  `sorted_data_models`), which is where it strikes for models whose attributes are plain values; the
  correspondence campaign of vlib/props/c11.py observes this on the real function.

* `Parser.__reuse_model` (option `reuse_model`), run per module AFTER the sorter: a model whose
  rendering equals that of an earlier model of the module is replaced, at its position, by
  `class <name>(<earlier>): pass` with path `<path>/reuse`; that path is APPENDED to
  `require_update_action_models` when the earlier model is in it. The forward-reference footer is
  written from the list as it is after this pass.
-/
namespace Dcg.Model.Sort

/-! ### the interpreter stack and the escape hatch -/

inductive SErr where
  | sorter (e : Err)     -- what the function raises itself
  | recursionError       -- Python's RecursionError leaving `sort_data_models`
  deriving DecidableEq, Repr

def liftS : Except Err Out → Except SErr Out
  | .ok o => .ok o
  | .error e => .error (.sorter e)

/-- `sort_data_models` with `stack` further nested calls available -/
def sortGoS (hatch : Bool) : Nat → Nat → List Model → List Model → List Path → Except SErr Out
  | _, 0, ms, s, u => liftS (sortGo 0 ms s u)
  | 0, _ + 1, ms, s, u =>
    match classify ms s u with
    | none => .error (.sorter .circularBases)
    | some c =>
      if c.unres.isEmpty then .ok ⟨[], c.sorted, c.upd⟩
      else if c.sorted.length != s.length then
        -- the nested call raises RecursionError
        if hatch then liftS (finish c) else .error .recursionError
      else liftS (finish c)
  | st + 1, rc + 1, ms, s, u =>
    match classify ms s u with
    | none => .error (.sorter .circularBases)
    | some c =>
      if c.unres.isEmpty then .ok ⟨[], c.sorted, c.upd⟩
      else if c.sorted.length != s.length then sortGoS hatch st rc c.unres c.sorted c.upd
      else liftS (finish c)

def sortDataModelsS (hatch : Bool) (stack rc : Nat) (ms : List Model) : Except SErr Out :=
  sortGoS hatch stack rc ms [] []

/-! ### `Parser.__reuse_model` and the footer -/

/-- `(p, true)` is the path `p ++ "/reuse"` -/
abbrev RPath := Path × Bool

/-- a model of one module as the post-passes see it -/
structure Rendered where
  path : RPath
  /-- `(model.render(class_name="M"), model.imports)` up to equality -/
  key : Nat
  /-- `some c`: this is the inserted `class <name>(<c>): pass` -/
  reuseOf : Option RPath := none
  deriving DecidableEq, Repr, Inhabited

/-- `for model in models.copy():` with `model_cache` (object models: the Enum and type-alias
branches of the code are not modelled) -/
def reuseGo : List (Nat × RPath) → List Rendered → List RPath → List Rendered × List RPath
  | _, [], upd => ([], upd)
  | cache, m :: ms, upd =>
    match cache.lookup m.key with
    | some c =>
      let sub : Rendered := ⟨(m.path.1, true), m.key, some c⟩
      let r := reuseGo cache ms (if upd.contains c then upd ++ [sub.path] else upd)
      (sub :: r.1, r.2)
    | none =>
      let r := reuseGo (cache ++ [(m.key, m.path)]) ms upd
      (m :: r.1, r.2)

def reusePass (ms : List Rendered) (upd : List RPath) : List Rendered × List RPath := reuseGo [] ms upd

/-- `m.reference.short_name for m in models if m.path in require_update_action_models` -/
def footer (ms : List Rendered) (upd : List RPath) : List RPath :=
  (ms.filter (fun m => upd.contains m.path)).map (·.path)

/-- what `parse()` writes for one module: the pass, then the footer from the list AS IT IS NOW -/
def emitFooter (ms : List Rendered) (upd : List RPath) : List RPath :=
  let r := reusePass ms upd
  footer r.1 r.2

/-- the footer taken from a copy of the list made before the pass (what must not be done) -/
def emitFooterStale (ms : List Rendered) (upd : List RPath) : List RPath :=
  footer (reusePass ms upd).1 upd

end Dcg.Model.Sort
