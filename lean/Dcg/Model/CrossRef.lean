import Dcg.Model.Modules
/-
Dcg.Model.CrossRef — executable model of the two passes of `Parser.parse()` that decide how a use of a
class of ANOTHER module is written, over an abstract module table:

* `changeFromImport` — `Parser.__change_from_import` for one module: every class of the module is
  registered in the module-scoped resolver, then, for every field data type / base class that refers to a
  model of another module (`Use`: module, class, base class or member), in the order they are met: the
  pair `relative()` answers (made exact under `--use-exact-imports` and for base classes), the resolver key
  (`full_path`, taken BEFORE `exact_import` rewrites the pair, AFTER it for a base class), the name the
  resolver hands out (`alias`), what is stored in `data_type.alias` (nothing when the alias is the class
  name; the alias when the imported thing is named like the class; else `alias.Class`), and the `Import`
  appended (one more dot in a package file unless the importee lies below it).
* `resolveUse` — what the written use MEANS by Python's rules over a table of modules and their classes:
  `from <dots><pkg> import <name> as <alias>` binds `alias` to the attribute `name` of the designated
  package if it has one (a class), else to the sub-module of that name; the use `alias` / `alias.Class`
  is looked up through that binding.
* `renamePass` — `Parser.__change_imported_model_name`: every class of the module whose class name is among
  the names the module's import block binds gets a new unique class name from the scoped resolver
  (`add(special path, reference.name, unique=True, class_name=True)`: dotted prefix kept, camel-case
  counter `Name1`, `Name2`, …).
* `Written.render` — the text of a use when the module is rendered AFTER the renaming: the frozen
  `data_type.alias`, else `reference.short_name` read at that moment.

NOT modelled (input file trees only): `import_.replace("-", "_")` and the `rel_path_depth` cut for module
paths whose last part contains a dot. Module names of dotted definition names have neither.
-/
namespace Dcg.Model.CrossRef
open Dcg.Py.Import Dcg.Model.Modules

/-- one foreign reference met by `__change_from_import`: `data_type.reference` is class `cls` of module
`ref`; `isBase`: the data type is a `BaseClassDataType` -/
structure Use where
  ref : MPath
  cls : Name
  isBase : Bool
  deriving DecidableEq, Repr

/-- `ModelResolver.join_path((from_, import_))` for parts without `#`: `"/".join(p for p in path if p) + "#"` -/
def joinPath2 (a b : List Char) : List Char :=
  (if a = [] then b else if b = [] then a else a ++ '/' :: b) ++ ['#']

/-- the resolver key of a use: `full_path` — for a member the pair `relative()` answers (before
`exact_import`), for a base class the exact pair. `none`: the class is in the module itself. -/
def useKey (cur : MPath) (u : Use) : Option (List Char) :=
  match relative cur u.ref u.cls with
  | none => none
  | some r0 =>
    if u.isBase then
      let e := exactImport r0 u.cls
      some (joinPath2 (renderFrom e.dots e.pkg) e.name)
    else some (joinPath2 (renderFrom r0.dots r0.pkg) r0.name)

/-- what `__change_from_import` leaves behind for one use -/
structure Written where
  use : Use
  /-- the `Import(from_, import_)` appended to the module's import block (extra dot included) -/
  imp : RelImport
  /-- `Import.alias`: the name the import line binds -/
  alias : Name
  /-- the use as spelled: `head` or `head.attr` -/
  head : Name
  attr : Option Name
  /-- `data_type.alias` (`none`: `type_hint` reads `reference.short_name` when the module is rendered) -/
  dtAlias : Option (List Char)
  deriving DecidableEq, Repr

/-- `name = reference.short_name; if from_ and import_ and alias != name:
      data_type.alias = alias if short_name == import_ else f"{alias}.{name}"` -/
def mkWritten (u : Use) (r : RelImport) (a : Name) : Written :=
  if r.name = [] ∨ a = u.cls then ⟨u, r, a, u.cls, none, none⟩
  else if u.cls = r.name then ⟨u, r, a, a, none, some a⟩
  else ⟨u, r, a, a, some u.cls, some (a ++ '.' :: u.cls)⟩

/-- second loop of `__change_from_import` over the foreign references of the module, threading the
scoped resolver; uses of classes of the module itself are skipped (`reference.source in models`) -/
def serveUses (vn : List Char → List Char) (exact : Bool) (cur : MPath) (init : Bool) :
    Scope → List Use → Option (List Written)
  | _, [] => some []
  | s, u :: rest =>
    match useKey cur u, emitted cur init exact u.isBase u.ref u.cls with
    | some key, some r =>
      match s.add vn key r.name with
      | (s', some a) => (serveUses vn exact cur init s' rest).map (mkWritten u r a :: ·)
      | (_, none) => none
    | _, _ => serveUses vn exact cur init s rest

/-- `__change_from_import(models, imports, scoped_model_resolver, init)` for module `cur`: `excl` = the member
names of the module (`ModelResolver(exclude_names=…)`), `classes` = (resolver key, class name) of every model,
`uses` = the references in the order `model.all_data_types` yields them, model after model -/
def changeFromImport (vn : List Char → List Char) (exact : Bool) (cur : MPath) (init : Bool)
    (excl : List (List Char)) (classes : List (List Char × List Char)) (uses : List Use) : Option (List Written) :=
  match preRegister vn ⟨[], excl⟩ classes with
  | some s => serveUses vn exact cur init s uses
  | none => none

/-! ### what a written use means (Python) -/

structure ModEnt where
  path : MPath
  classes : List Name
  deriving DecidableEq, Repr

/-- the modules that have a file, with the classes each defines -/
abbrev Table := List ModEnt

def classesOf (T : Table) (m : MPath) : List Name := (T.filter (fun e => e.path = m)).flatMap (·.classes)

def isModule (T : Table) (m : MPath) : Bool := T.any (fun e => e.path = m)

inductive Target where
  | module (m : MPath)
  | cls (m : MPath) (c : Name)
  deriving DecidableEq, Repr

/-- `from <dots><pkg> import <name>` executed in module `cur` (`pyInit`: its file is a package
`__init__`): the attribute `name` of the designated module if it defines a class of that name, else its
sub-module `name`, else ImportError. (Names a package file binds through its OWN imports are not in the
table: finding C12-attr-shadow stays with the oracle.) -/
def importTarget (T : Table) (cur : MPath) (pyInit : Bool) (r : RelImport) : Option Target :=
  match resolveFrom cur pyInit r.dots r.pkg with
  | none => none
  | some p =>
    if r.name ∈ classesOf T p then some (.cls p r.name)
    else if isModule T (p ++ [r.name]) then some (.module (p ++ [r.name]))
    else none

/-- the object a spelled use `head[.attr]` reaches when `imp … as alias` is the binding of `head` -/
def resolveSpelled (T : Table) (cur : MPath) (pyInit : Bool) (imp : RelImport) (alias head : Name)
    (attr : Option Name) : Option Target :=
  if head ≠ alias then none
  else match importTarget T cur pyInit imp, attr with
    | some t, none => some t
    | some (.module m), some c => if c ∈ classesOf T m then some (.cls m c) else none
    | some (.cls _ _), some _ => none
    | none, _ => none

def resolveUse (T : Table) (cur : MPath) (pyInit : Bool) (w : Written) : Option Target :=
  resolveSpelled T cur pyInit w.imp w.alias w.head w.attr

/-- decidable side condition of the module form (`from … import module` + `alias.Class`): the alias handed
out is not the class name, the module is not named like the class (else `data_type.alias` is not set, or set
to the bare alias, and the use is spelled with the name of the MODULE), and the package the module is taken
from has no class named like the module (attribute before sub-module) -/
def moduleFormOk (T : Table) (w : Written) : Bool :=
  !w.imp.isModule ||
    (decide (w.alias ≠ w.use.cls) && decide (w.use.cls ≠ w.imp.name) && decide (w.imp.name ≠ []) &&
      !(classesOf T w.use.ref.dropLast).contains w.imp.name)

/-! ### `__change_imported_model_name` -/

/-- candidates of `_get_unique_name(name, camel=True)`: `name`, `name1`, `name2`, … -/
def camelCandidate (name : List Char) : Nat → List Char
  | 0 => name
  | k + 1 => name ++ Nat.toDigits 10 (k + 1)

def firstFreeCamel (name : List Char) (tk : List (List Char)) : Nat → Nat → Option (List Char)
  | 0, _ => none
  | fuel + 1, k =>
    if tk.contains (camelCandidate name k) then firstFreeCamel name tk fuel (k + 1) else some (camelCandidate name k)

/-- `name.rsplit(".", 1)`: dotted prefix (with its dot) and last component -/
def splitLast (name : List Char) : List Char × List Char :=
  let parts := splitDot name
  (if parts.length ≤ 1 then [] else joinDot parts.dropLast ++ ['.'], parts.getLast?.getD [])

/-- `DataModel.class_name` of a model whose `reference.name` is `name` -/
def classNameOf (name : List Char) : List Char := (splitLast name).2

/-- `scoped_model_resolver.add(special path, reference.name, unique=True, class_name=True).name` for a key
the resolver does not hold yet (`none`: it holds the key, or the loop ran out of fuel — outside the model):
the dotted prefix is kept, the class part goes through the class-name generator `cn` and is made unique
against the names of the resolver and its excluded names. The new entry is filed under the FULL name. -/
def renameOne (cn : List Char → List Char) (s : Scope) (key name : List Char) : Option (Scope × List Char) :=
  if (s.refs.any (fun e => e.key = key)) then none
  else
    let (pre, c) := splitLast name
    match firstFreeCamel (cn c) s.taken (s.taken.length + 1) 0 with
    | none => none
    | some u => some ({ s with refs := s.refs ++ [⟨key, name, pre ++ u⟩] }, pre ++ u)

/-- `__change_imported_model_name(models, imports, scoped_model_resolver)`: `imported` = the names the import
block binds (alias, else imported name); `classes` = (special-path key, `reference.name`) of every model in
order. Answer: the `reference.name` of every model afterwards. -/
def renamePass (cn : List Char → List Char) (imported : List (List Char)) :
    Scope → List (List Char × List Char) → Option (List (List Char))
  | _, [] => some []
  | s, (key, name) :: rest =>
    if imported.contains (classNameOf name) then
      match renameOne cn s key name with
      | none => none
      | some (s', nn) => (renamePass cn imported s' rest).map (nn :: ·)
    else (renamePass cn imported s rest).map (name :: ·)

/-- text of a written use when its module is rendered: `data_type.alias or reference.short_name`, the
latter read at render time — `now` is the class name the referenced model has THEN -/
def Written.render (w : Written) (now : MPath → Name → Name) : List Char :=
  w.dtAlias.getD (now w.use.ref w.use.cls)

/-- the use as a (head, attribute) pair at render time -/
def Written.spelledNow (w : Written) (now : MPath → Name → Name) : Name × Option Name :=
  match w.dtAlias with
  | none => (now w.use.ref w.use.cls, none)
  | some _ => (w.head, w.attr)

/-- what the use reaches after the renaming: the import line was appended before it and is not touched -/
def resolveAfter (T : Table) (cur : MPath) (pyInit : Bool) (w : Written) (now : MPath → Name → Name) : Option Target :=
  resolveSpelled T cur pyInit w.imp w.alias (w.spelledNow now).1 (w.spelledNow now).2

end Dcg.Model.CrossRef
