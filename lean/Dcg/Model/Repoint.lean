/-
C11, folding a duplicate definition into its twin: what happens to everybody who USES the duplicate
(/repo/src/datamodel_code_generator/types.py `DataType.replace_reference`, parser/base.py
`Parser.__delete_duplicate_models` and `Parser.__reuse_model`).

Every `Reference` keeps the list `children` of the objects that refer to it (the `DataType`s of
members and base-class entries, and the `DataModel`s that inherit from it); every `DataType` keeps
its `reference`. When a model is dropped as a duplicate the passes walk over the children of its
reference and call `child.replace_reference(<reference of the twin>)`:

    for child in duplicate.reference.children[:]:        # a COPY of the list
        if <child takes part>:                           # isinstance(child, DataType) / owner in models
            child.replace_reference(original.reference)

`replace_reference` rebuilds `old.children` without the caller (by identity), rebinds
`self.reference` and appends the caller to `new.children`. The model keeps the two relations as
functions (`kids`, `refOf`); users and references are numbers (identities).
-/
namespace Dcg.Model.Repoint

abbrev Ref := Nat
abbrev User := Nat

/-- `Reference.children` for every reference, `DataType.reference` for every user -/
structure Store where
  kids : Ref → List User
  refOf : User → Option Ref

/-- `DataType.replace_reference(new)` (`remove_reference()` is `new = none`); `none` is the
`raise` for a caller that has no reference -/
def replaceReference (s : Store) (u : User) (new : Option Ref) : Option Store :=
  match s.refOf u with
  | none => none
  | some old =>
    let kids1 : Ref → List User := fun r => if r = old then (s.kids old).filter (· != u) else s.kids r
    let kids2 : Ref → List User :=
      match new with
      | none => kids1
      | some n => fun r => if r = n then kids1 n ++ [u] else kids1 r
    some ⟨kids2, fun x => if x = u then new else s.refOf x⟩

/-- the loop body over a given list of children: `p` = the child takes part -/
def repointList (p : User → Bool) (target : Ref) : List User → Store → Option Store
  | [], s => some s
  | c :: cs, s =>
    if p c then (replaceReference s c (some target)).bind (repointList p target cs)
    else repointList p target cs s

/-- `for child in dup.children[:]: if p(child): child.replace_reference(target)` — the list that
is walked is the list as it was when the loop started -/
def repoint (p : User → Bool) (dup target : Ref) (s : Store) : Option Store :=
  repointList p target (s.kids dup) s

/-- What must NOT be done: walking the live list by position (Python's list iterator: index `i`,
stop when `i` is past the end of the list AS IT IS NOW) while `replace_reference` takes the caller
out of that very list. `fuel` bounds the walk (length + 1 suffices). -/
def repointLive (p : User → Bool) (dup target : Ref) : Nat → Nat → Store → Option Store
  | 0, _, s => some s
  | f + 1, i, s =>
    match (s.kids dup)[i]? with
    | none => some s
    | some c =>
      if p c then (replaceReference s c (some target)).bind (repointLive p dup target f (i + 1))
      else repointLive p dup target f (i + 1) s

/-- the elements at the odd positions (what a walk that skips every second element never visits) -/
def everySecond : List User → List User
  | [] => []
  | [_] => []
  | _ :: b :: r => b :: everySecond r

/-- a user is settled: it refers to the twin, is registered there and no longer with the duplicate -/
def Done (dup target : Ref) (s : Store) (u : User) : Prop :=
  s.refOf u = some target ∧ u ∉ s.kids dup ∧ u ∈ s.kids target

/-! ### finite stores for the driver and for `decide` -/

def Store.ofLists (kids : List (Ref × List User)) (refs : List (User × Option Ref)) : Store :=
  ⟨fun r => (kids.lookup r).getD [], fun u => (refs.lookup u).getD none⟩

/-- the store read back at the given references and users -/
def Store.view (s : Store) (rs : List Ref) (us : List User) : List (Ref × List User) × List (User × Option Ref) :=
  (rs.map (fun r => (r, s.kids r)), us.map (fun u => (u, s.refOf u)))

end Dcg.Model.Repoint
