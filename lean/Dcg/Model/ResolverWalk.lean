/-!
Model of the walk `JsonSchemaParser.parse_ref` (parser/jsonschema.py) — C06, "every reference lands on
the model of its target": a `$ref` gets its target loaded (external file) or reserved (local pointer)
only when this walk hands it to `resolve_ref`.

    def parse_ref(self, obj, path):
        if obj.ref: self.resolve_ref(obj.ref)
        … for every keyword K the walk knows, for every subschema s standing under obj.K:
              self.parse_ref(s, path)

WHICH keywords the walk knows is data of the source: the translator reads, for `parse_ref` (through the
helper functions it hands `obj` to), the attributes of `obj` whose values reach the recursive call —
`Gen.ResolverTables.parseRefDescends`.  The model therefore takes the keyword list as a parameter.

A schema object is the list of its entries in the order the walk meets them (first-child /
next-sibling form, so that the type is a plain inductive): a `$ref` (numbered by the harness) or a
subschema standing under a keyword.  Boolean subschemas (`additionalProperties: false`,
`properties: {x: true}`) carry no reference and are left out by the harness.
-/
namespace Dcg.Model.ResolverWalk

abbrev Str := List Char

inductive Sch where
  | nil
  /-- this object has `$ref` number `r` -/
  | ref (r : Nat) (rest : Sch)
  /-- a subschema `child` stands under keyword `kw` of this object -/
  | sub (kw : Str) (child : Sch) (rest : Sch)
  deriving Repr, Inhabited

/-- the references the walk hands to `resolve_ref` when it descends exactly into the keywords `kws` -/
def collect (kws : List Str) : Sch → List Nat
  | .nil => []
  | .ref r rest => r :: collect kws rest
  | .sub kw child rest => (if kw ∈ kws then collect kws child else []) ++ collect kws rest

/-- every reference written anywhere in the schema -/
def allRefs : Sch → List Nat
  | .nil => []
  | .ref r rest => r :: allRefs rest
  | .sub _ child rest => allRefs child ++ allRefs rest

/-- every keyword under which a subschema stands, anywhere in the schema -/
def keywordsOf : Sch → List Str
  | .nil => []
  | .ref _ rest => keywordsOf rest
  | .sub kw child rest => kw :: (keywordsOf child ++ keywordsOf rest)

end Dcg.Model.ResolverWalk
