/-!
Model of `JsonSchemaParser._resolve_unparsed_json_pointer` (parser/jsonschema.py) for an input SET of
documents (directory input) — C06, "relative file with pointer, into a not-yet-parsed part".

After every document has been parsed, references that were met before their target existed sit in
`reserved_refs[file of the reference]`. The function walks the documents in `iter_source` order and,
for every pending reference of that document that is still not loaded,

    self.raw_obj = load_yaml(source.text)                      -- (*)
    self.parse_json_pointer(self.raw_obj, reserved_ref, path_parts)

and calls itself again when a pass produced new models. `self.raw_obj` is a field of the parser that
`parse_raw` leaves at the LAST document of the set; line (*) is what makes the lookup happen in the
document the pointer belongs to. The model keeps that field (`rawObj`) and records every lookup.

A reference is `(doc, ptr)`: the index of its file in `iter_source` order and the pointer.
`docs d p` = the references written inside the subschema at pointer `p` of document `d`
(`none`: no such pointer — `get_model_by_path` raises `KeyError`).
-/
namespace Dcg.Model.ResolverMultidoc

abbrev Ptr := List Char

structure Ref where
  doc : Nat
  ptr : Ptr
  deriving DecidableEq, Repr

structure MState where
  loaded : List Ref
  /-- union of the buckets `reserved_refs[file]`; the bucket of a reference is its own file -/
  reserved : List Ref
  /-- which document `self.raw_obj` holds -/
  rawObj : Nat
  /-- every `parse_json_pointer(raw, ref)` made: (document looked into, pending reference) -/
  trace : List (Nat × Ref)
  deriving DecidableEq, Repr

/-- `JsonSchemaParser.resolve_ref`: an unloaded reference is reserved in the bucket of its file -/
def reserve (st : MState) (r : Ref) : MState :=
  if r ∈ st.loaded ∨ r ∈ st.reserved then st else { st with reserved := st.reserved ++ [r] }

/-- parsing the subschema of `r` (which contains `refs`): registered as loaded first, then the members -/
def load (st : MState) (r : Ref) (refs : List Ref) : MState :=
  refs.foldl reserve { st with loaded := r :: st.loaded }

/-- body of `for reserved_ref in sorted(reserved_refs):` for the document `src` -/
def resolveOne (docs : Nat → Ptr → Option (List Ref)) (src : Nat) (st : MState) (r : Ref) :
    Option (MState × Bool) :=
  if r ∈ st.loaded then some (st, false)
  else
    let st := { st with rawObj := src }                            -- self.raw_obj = load_yaml(source.text)
    match docs st.rawObj r.ptr with                                 -- parse_json_pointer(self.raw_obj, ref, …)
    | none => none
    | some refs => some (load { st with trace := st.trace ++ [(st.rawObj, r)] } r refs, true)

def resolveBucket (docs : Nat → Ptr → Option (List Ref)) (src : Nat) :
    List Ref → MState → Bool → Option (MState × Bool)
  | [], st, ch => some (st, ch)
  | r :: rs, st, ch =>
    match resolveOne docs src st r with
    | none => none
    | some (st', c) => resolveBucket docs src rs st' (ch || c)

/-- `for source in self.iter_source:` — the bucket is read when the document is reached -/
def resolvePass (docs : Nat → Ptr → Option (List Ref)) : List Nat → MState → Bool → Option (MState × Bool)
  | [], st, ch => some (st, ch)
  | src :: srcs, st, ch =>
    match resolveBucket docs src (st.reserved.filter (fun r => r.doc == src)) st ch with
    | none => none
    | some (st', ch') => resolvePass docs srcs st' ch'

inductive Res where
  | done (st : MState)
  | keyError
  | outOfFuel
  deriving DecidableEq, Repr

/-- the function with its self-call (`if model_count != len(self.results)`); `nDocs` documents -/
def resolveUnparsed (docs : Nat → Ptr → Option (List Ref)) (nDocs : Nat) : Nat → MState → Res
  | 0, _ => .outOfFuel
  | fuel + 1, st =>
    match resolvePass docs (List.range nDocs) st false with
    | none => .keyError
    | some (st', changed) => if changed then resolveUnparsed docs nDocs fuel st' else .done st'

/-!
### Relative-file references under `current_base_path_context` (documents in a TREE of directories)

`ModelResolver.resolve_ref(ref)` for `ref = file#pointer` (not a URL, not starting with `#`), while a base path is
current:

    file_path, *object_part = joined_path.split("#", 1)
    resolved_file_path = Path(self.current_base_path, file_path).resolve()
    joined_path = get_relative_path(self._base_path, resolved_file_path).as_posix()  (+ "#" + object_part)

A directory is the list of its segments below the resolver's `_base_path`. `current_base_path_context(p)` sets the
current directory to `p` — given relative to `_base_path`, NOT to the directory that was current — and restores the
previous one on exit. The same reference string therefore names a different file in every directory, and the answer
is a function of (current directory, reference): nothing else of the resolver's history enters.
-/

abbrev Seg := List Char
abbrev Dir := List Seg

def dotdot : Seg := ['.', '.']

/-- one path segment pushed on the (reversed) normalised prefix: empty and `.` segments vanish, `..` pops;
`none` = the path leaves the base directory -/
def normPush : Option (List Seg) → Seg → Option (List Seg)
  | none, _ => none
  | some acc, s =>
    if s = [] ∨ s = ['.'] then some acc
    else if s = dotdot then (match acc with | [] => none | _ :: rest => some rest)
    else some (s :: acc)

/-- `Path(cur, file).resolve()` relative to the base path -/
def resolveFile (cur : Dir) (file : List Seg) : Option Dir :=
  ((cur ++ file).foldl normPush (some [])).map List.reverse

def splitOn (c : Char) : List Char → List (List Char)
  | [] => [[]]
  | x :: xs =>
    match splitOn c xs with
    | [] => [[]]
    | h :: t => if x = c then [] :: h :: t else (x :: h) :: t

def joinSegs : List Seg → List Char
  | [] => []
  | [s] => s
  | s :: ss => s ++ '/' :: joinSegs ss

/-- `str.split("#", 1)`: (before the first `#`, the rest after it if there is a `#`) -/
def splitHash1 : List Char → List Char × Option (List Char)
  | [] => ([], none)
  | x :: xs => if x = '#' then ([], some xs) else let r := splitHash1 xs; (x :: r.1, r.2)

inductive CRes where
  | ok (path : List Char)
  /-- the file is not below `_base_path` (answer starts with `..`): outside the model -/
  | outside
  /-- `#…` (resolved against `current_root`), URLs, no current base path: outside this model -/
  | unmodelled
  /-- `joined_path[0]` on the empty string -/
  | raised
  deriving DecidableEq, Repr

def isUrl (r : List Char) : Bool := "http://".toList.isPrefixOf r || "https://".toList.isPrefixOf r

/-- `resolve_ref(r)` with current directory `cur` -/
def resolveIn (cur : Dir) (r : List Char) : CRes :=
  match r with
  | [] => .raised
  | c :: _ =>
    if c = '#' ∨ isUrl r = true then .unmodelled
    else
      let fo := splitHash1 r
      match resolveFile cur (splitOn '/' fo.1) with
      | none => .outside
      | some segs =>
        let file := if segs = [] then ['.'] else joinSegs segs      -- `Path().as_posix()` is `.`
        .ok (file ++ '#' :: fo.2.getD [])

inductive COp where
  /-- `with current_base_path_context(p):` — `none`: the argument `None` -/
  | enter (p : Option (List Char))
  /-- leaving the innermost context -/
  | exit
  | resolve (r : List Char)
  deriving DecidableEq, Repr

def COp.isResolve : COp → Bool
  | .resolve _ => true
  | _ => false

structure CState where
  /-- `current_base_path` relative to `_base_path`; `none`: no base path (or one outside `_base_path`) -/
  cur : Option Dir
  /-- `previous_value` of the enclosing `context_variable` frames, innermost first -/
  saved : List (Option Dir)
  deriving DecidableEq, Repr

def CState.init : CState := ⟨some [], []⟩

def cstep (s : CState) : COp → CState × CRes
  | .enter p =>
    -- `(self._base_path / base_path).resolve()` — relative to the base path whatever is current
    ({ cur := p.bind (fun p => resolveFile [] (splitOn '/' p)), saved := s.cur :: s.saved }, .unmodelled)
  | .exit =>
    (match s.saved with
      | [] => s
      | prev :: rest => { cur := prev, saved := rest }, .unmodelled)
  | .resolve r =>
    (s, match s.cur with
      | none => .unmodelled
      | some cur => resolveIn cur r)

def crun (s : CState) : List COp → CState
  | [] => s
  | op :: ops => crun (cstep s op).1 ops

/-- state and answer after every operation (what the correspondence campaign compares) -/
def ctrace (s : CState) : List COp → List (CState × CRes)
  | [] => []
  | op :: ops => let r := cstep s op; r :: ctrace r.1 ops

/-- the answer of `resolve_ref(r)` after the history `ops` -/
def answerAfter (s : CState) (ops : List COp) (r : List Char) : CRes := (cstep (crun s ops) (.resolve r)).2

/-- a plain segment: a file or directory name -/
def plainSeg (s : Seg) : Bool := !(s == []) && !(s == ['.']) && !(s == dotdot)

end Dcg.Model.ResolverMultidoc
