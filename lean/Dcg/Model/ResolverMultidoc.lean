/-!
Model of `JsonSchemaParser._resolve_unparsed_json_pointer` (parser/jsonschema.py) for an input SET of
documents (directory input) — C06, "relative file with pointer, into a not-yet-parsed part".

After every document has been parsed, references that were met before their target existed sit in
`reserved_refs[file of the reference]`. The function walks the documents in `iter_source` order and,
for every pending reference of that document that is still not loaded,

    self.raw_obj = load_yaml(source.text)                      -- (*)
    self.parse_json_pointer(self.raw_obj, reserved_ref, path_parts)

and calls itself again when a pass produced new models. `self.raw_obj` is a field of the parser that
`parse_raw` leaves at the LAST document of the set; line (*) is what makes the lookup happen in the
document the pointer belongs to. The model keeps that field (`rawObj`) and records every lookup.

A reference is `(doc, ptr)`: the index of its file in `iter_source` order and the pointer.
`docs d p` = the references written inside the subschema at pointer `p` of document `d`
(`none`: no such pointer — `get_model_by_path` raises `KeyError`).
-/
namespace Dcg.Model.ResolverMultidoc

abbrev Ptr := List Char

structure Ref where
  doc : Nat
  ptr : Ptr
  deriving DecidableEq, Repr

structure MState where
  loaded : List Ref
  /-- union of the buckets `reserved_refs[file]`; the bucket of a reference is its own file -/
  reserved : List Ref
  /-- which document `self.raw_obj` holds -/
  rawObj : Nat
  /-- every `parse_json_pointer(raw, ref)` made: (document looked into, pending reference) -/
  trace : List (Nat × Ref)
  deriving DecidableEq, Repr

/-- `JsonSchemaParser.resolve_ref`: an unloaded reference is reserved in the bucket of its file -/
def reserve (st : MState) (r : Ref) : MState :=
  if r ∈ st.loaded ∨ r ∈ st.reserved then st else { st with reserved := st.reserved ++ [r] }

/-- parsing the subschema of `r` (which contains `refs`): registered as loaded first, then the members -/
def load (st : MState) (r : Ref) (refs : List Ref) : MState :=
  refs.foldl reserve { st with loaded := r :: st.loaded }

/-- body of `for reserved_ref in sorted(reserved_refs):` for the document `src` -/
def resolveOne (docs : Nat → Ptr → Option (List Ref)) (src : Nat) (st : MState) (r : Ref) :
    Option (MState × Bool) :=
  if r ∈ st.loaded then some (st, false)
  else
    let st := { st with rawObj := src }                            -- self.raw_obj = load_yaml(source.text)
    match docs st.rawObj r.ptr with                                 -- parse_json_pointer(self.raw_obj, ref, …)
    | none => none
    | some refs => some (load { st with trace := st.trace ++ [(st.rawObj, r)] } r refs, true)

def resolveBucket (docs : Nat → Ptr → Option (List Ref)) (src : Nat) :
    List Ref → MState → Bool → Option (MState × Bool)
  | [], st, ch => some (st, ch)
  | r :: rs, st, ch =>
    match resolveOne docs src st r with
    | none => none
    | some (st', c) => resolveBucket docs src rs st' (ch || c)

/-- `for source in self.iter_source:` — the bucket is read when the document is reached -/
def resolvePass (docs : Nat → Ptr → Option (List Ref)) : List Nat → MState → Bool → Option (MState × Bool)
  | [], st, ch => some (st, ch)
  | src :: srcs, st, ch =>
    match resolveBucket docs src (st.reserved.filter (fun r => r.doc == src)) st ch with
    | none => none
    | some (st', ch') => resolvePass docs srcs st' ch'

inductive Res where
  | done (st : MState)
  | keyError
  | outOfFuel
  deriving DecidableEq, Repr

/-- the function with its self-call (`if model_count != len(self.results)`); `nDocs` documents -/
def resolveUnparsed (docs : Nat → Ptr → Option (List Ref)) (nDocs : Nat) : Nat → MState → Res
  | 0, _ => .outOfFuel
  | fuel + 1, st =>
    match resolvePass docs (List.range nDocs) st false with
    | none => .keyError
    | some (st', changed) => if changed then resolveUnparsed docs nDocs fuel st' else .done st'

end Dcg.Model.ResolverMultidoc
