import Dcg.Model.Repoint
/-
C14, reference bookkeeping under the options that rewrite the uses of a model
(/repo/src/datamodel_code_generator/parser/base.py `Parser.__reuse_model`, `Parser.__delete_duplicate_models`,
`Parser.__collapse_root_models`; types.py `DataType.__init__`, `DataType.replace_reference`).

`Reference.children` is the ONLY way these passes find the uses of a model: `--reuse-model` drops an enum that renders
like an earlier one and re-points the children of its reference to the kept one

    for child in model.reference.children[:]:
        data_model = get_most_of_parent(child)
        if data_model in models:
            child.replace_reference(cached_model_reference)

(`Dcg.Model.Repoint.repoint`, the loop and `replace_reference` as C11 models them). What a written class SHOWS,
however, is found the other way round: from the model through its members (and base-class list) down to every
`DataType` that has a `reference` — the USES. A `DataType` is put into `reference.children` by `DataType.__init__`
and by `replace_reference`; one made by `.copy()` (a pydantic copy does not run `__init__`) is not.
The two views agree iff every use is REGISTERED — that is the invariant the passes rely on, and it is observed on
the real parser after `parse_raw()` and after every pass (vlib/props/c14_refkids.py).
-/
namespace Dcg.Model.RefChildren
open Dcg.Model.Repoint

/-- every use that has a reference is among the children of that reference -/
def registered (s : Store) (uses : List User) : Bool :=
  uses.all fun u => match s.refOf u with
    | none => true
    | some r => (s.kids r).contains u

/-- the uses that are not registered (empty iff `registered`) -/
def unregistered (s : Store) (uses : List User) : List User :=
  uses.filter fun u => match s.refOf u with
    | none => false
    | some r => !(s.kids r).contains u

/-- the uses that name `r`: what the written module shows of the class of `r` -/
def naming (s : Store) (uses : List User) (r : Ref) : List User :=
  uses.filter fun u => s.refOf u == some r

/-- one dropped model: the children of `dup` that take part (`p`: the owner of the child is one of the models
of the module) are re-pointed to `target` -/
def redirect (p : User → Bool) (dup target : Ref) (s : Store) : Option Store :=
  repoint p dup target s

/-- the drops of one run of the pass, in order: (dropped, kept, the children that take part) -/
def redirectAll : List (Ref × Ref × List User) → Store → Option Store
  | [], s => some s
  | (d, t, m) :: ops, s => (redirect (fun u => m.contains u) d t s).bind (redirectAll ops)

/-- after each drop: which uses still name the dropped model -/
def leftBehind (uses : List User) : List (Ref × Ref × List User) → Store → List (List User)
  | [], _ => []
  | (d, t, m) :: ops, s =>
    match redirect (fun u => m.contains u) d t s with
    | none => []
    | some s1 => naming s1 uses d :: leftBehind uses ops s1

end Dcg.Model.RefChildren
