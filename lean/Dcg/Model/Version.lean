import Dcg.Model.Key
import Dcg.Gen.Versions
import Dcg.Gen.KwSites
import Dcg.Model.KwFlow
/-
Dcg.Model.Version — AUTHORED (trusted) table of when the standard library started to provide the
names and constructs the generator can emit. Source: the "New in version X.Y" notes of the Python
library reference (typing, dataclasses, collections.abc, enum, pathlib, ipaddress, __future__).
Versions are minor numbers of Python 3 (`9` = 3.9); `0` = present in every Python 3.
Only Python 3.12 is installed in the sandbox, so this table cannot be validated by execution; it is
cross-checked on every run against an independently authored Python table (vlib/props/c19.py) and,
for 3.12, against the running interpreter.
-/
namespace Dcg.Model.Version

inductive Avail where
  | thirdParty          -- not part of the standard library: outside the property (dependency of the output)
  | since (minor : Nat) -- standard library, first provided by Python 3.<minor>
  | unknown             -- a standard-library-looking module/name the table does not know: treated as unavailable
  deriving Repr, DecidableEq

/-- top-level packages that are dependencies of the generated code, not standard library -/
def thirdPartyModules : List Nat :=
  [k! "pydantic", k! "pydantic.dataclasses", k! "msgspec", k! "typing_extensions", k! "pendulum"]

/-- ((module, name), first minor version) -/
def stdlibSince : List ((Nat × Nat) × Nat) :=
  [((k! "typing", k! "Any"), 5), ((k! "typing", k! "Optional"), 5), ((k! "typing", k! "Union"), 5),
   ((k! "typing", k! "List"), 5), ((k! "typing", k! "Dict"), 5), ((k! "typing", k! "Set"), 5),
   ((k! "typing", k! "FrozenSet"), 5), ((k! "typing", k! "Sequence"), 5), ((k! "typing", k! "Mapping"), 5),
   ((k! "typing", k! "ClassVar"), 5),
   ((k! "typing", k! "Literal"), 8), ((k! "typing", k! "TypedDict"), 8),
   ((k! "typing", k! "Annotated"), 9),
   ((k! "typing", k! "TypeAlias"), 10),
   ((k! "typing", k! "NotRequired"), 11),
   -- names the generator does not use on the pinned tree, authored so that a source that starts to use one is judged by
   -- its real version instead of `unknown` (typing: PEP 544/591 3.8, 612/613/647 3.10, 655/673/675/646 3.11, 698 3.12, 705/742 3.13)
   ((k! "typing", k! "Final"), 8), ((k! "typing", k! "Protocol"), 8),
   ((k! "typing", k! "ParamSpec"), 10), ((k! "typing", k! "Concatenate"), 10), ((k! "typing", k! "TypeGuard"), 10),
   ((k! "typing", k! "Required"), 11), ((k! "typing", k! "Self"), 11), ((k! "typing", k! "LiteralString"), 11),
   ((k! "typing", k! "Never"), 11), ((k! "typing", k! "Unpack"), 11),
   ((k! "typing", k! "override"), 12),
   ((k! "typing", k! "ReadOnly"), 13), ((k! "typing", k! "TypeIs"), 13), ((k! "typing", k! "NoDefault"), 13),
   ((k! "dataclasses", k! "KW_ONLY"), 10), ((k! "enum", k! "IntEnum"), 4), ((k! "enum", k! "StrEnum"), 11),
   ((k! "__future__", k! "annotations"), 7),
   ((k! "collections.abc", k! "Sequence"), 3), ((k! "collections.abc", k! "Mapping"), 3),
   ((k! "collections.abc", k! "Set"), 3),
   ((k! "dataclasses", k! "dataclass"), 7), ((k! "dataclasses", k! "field"), 7),
   ((k! "enum", k! "Enum"), 4),
   ((k! "datetime", k! "date"), 0), ((k! "datetime", k! "datetime"), 0), ((k! "datetime", k! "time"), 0),
   ((k! "datetime", k! "timedelta"), 0),
   ((k! "decimal", k! "Decimal"), 0), ((k! "uuid", k! "UUID"), 0),
   ((k! "pathlib", k! "Path"), 4),
   ((k! "ipaddress", k! "IPv4Address"), 3), ((k! "ipaddress", k! "IPv6Address"), 3),
   ((k! "ipaddress", k! "IPv4Network"), 3), ((k! "ipaddress", k! "IPv6Network"), 3)]

def avail (m n : Nat) : Avail :=
  if thirdPartyModules.contains m then .thirdParty
  else match stdlibSince.lookup (m, n) with
    | some v => .since v
    | none => .unknown

def okFor : Avail → Nat → Bool
  | .thirdParty, _ => true
  | .since v, ver => decide (v ≤ ver)
  | .unknown, _ => false

theorem okFor_mono (a : Avail) {v w : Nat} (h : v ≤ w) (ha : okFor a v = true) : okFor a w = true := by
  cases a with
  | thirdParty => rfl
  | since s => simp [okFor] at *; omega
  | unknown => simp [okFor] at ha

/-- constructs that are not imports: first minor version in which they work at run time -/
def constructSince : List (Nat × Nat) :=
  [(k! "dataclass(kw_only=True)", 10),     -- dataclasses: "Changed in version 3.10: added kw_only"
   (k! "X | Y evaluated at run time", 10), -- PEP 604
   (k! "typing.NotRequired", 11)]          -- PEP 655

/-- which construct each `PythonVersion.has_*` predicate stands for (reviewed) -/
def predicateConstruct : List (Nat × Nat) :=
  [(k! "has_kw_only_dataclass", k! "dataclass(kw_only=True)"),
   (k! "has_union_operator", k! "X | Y evaluated at run time"),
   (k! "has_typed_dict_non_required", k! "typing.NotRequired")]

/-- `IMPORT_*` constants naming something newer than the oldest supported target, hence in need of a
version guard where they are used (reviewed; `stdlib constants newer than the minimum are exactly these`) -/
def versionDependent : List (Nat × Nat) :=
  [(k! "typing", k! "NotRequired"), (k! "typing", k! "TypeAlias")]

/-- the guard each `has_*` predicate is expected to have somewhere in the code: (function, predicate) -/
def expectedGuards : List (Nat × Nat) :=
  [(k! "validate_keyword_only", k! "has_kw_only_dataclass"),
   (k! "get_data_model_types", k! "has_typed_dict_non_required")]

/-! ### What a run for (model type, version) can import -/
open Dcg.Gen.Versions

/-- the generic pool: every `IMPORT_*` constant that is not version dependent (typing.Optional, List, …,
Literal, Annotated, datetime.*, pydantic.*, …) — usable with any model type and target -/
def sharedPool : List (Nat × Nat) :=
  (importConstants.map (fun c => (c.2.2.1, c.2.2.2))).filter (fun i => !versionDependent.contains i)

/-- DEFAULT_IMPORTS of the classes `get_data_model_types` selected -/
def selectedImports (roles : List (Nat × Cls)) : List (Nat × Nat) := roles.flatMap (fun r => r.2.imports)

def typeMapOf (key : Nat × Nat) : List (Nat × Nat) := (typeMapImports.lookup key).getD []

/-- everything a JSON-Schema/OpenAPI run for this selection can import from a fixed place:
DEFAULT_IMPORTS of the selected classes and of the enum model, the selected type map, the shared pool -/
def possibleImports (key : Nat × Nat) (roles : List (Nat × Cls)) : List (Nat × Nat) :=
  selectedImports roles ++ enumClass.imports ++ typeMapOf key ++ sharedPool

/-- every Import held by a class-level attribute (DEFAULT_IMPORTS and every other Import / tuple of Imports, as the class
resolves it) of the classes `get_data_model_types` selected for `key`: the fixed places a field or model object of that
selection can take a version-dependent import from -/
def classAttrImports (key : Nat × Nat) : List (Nat × Nat) :=
  ((classImportAttrs.lookup key).getD []).flatMap (fun a => a.2.2.2)

/-- where the tables know an import from, for a run with this selection -/
inductive Origin where
  | classAttr | typeMap | pool | enumModel | outside
  deriving Repr, DecidableEq

def origin (key : Nat × Nat) (i : Nat × Nat) : Origin :=
  if (classAttrImports key).contains i then .classAttr
  else if (typeMapOf key).contains i then .typeMap
  else if enumClass.imports.contains i then .enumModel
  else if (importConstants.map (fun c => (c.2.2.1, c.2.2.2))).contains i then .pool
  else .outside

/-- the oldest supported target -/
def minMinor : Nat := (versions.map (·.2)).foldl min 99

/-! ### The keyword-only flag (sites of `Dcg/Gen/KwSites`, language of `Dcg/Model/KwFlow`) -/
open Dcg.Model.KwFlow Dcg.Gen.KwSites

/-- first minor version for which a `has_*` predicate holds, by the authored tables -/
def predSince (p : Nat) : Option Nat := (predicateConstruct.lookup p).bind (fun c => constructSince.lookup c)

/-- `dataclass(kw_only=True)` / `field(kw_only=…)` / `KW_ONLY` exist from this minor version on
(checked equal to the authored `constructSince` entry in `Props/C19.kw_only_sites_guarded`) -/
def kwOnlyBound : Nat := 10

/-- a site that cannot switch keyword-only on by itself for a target below `kwOnlyBound`.
Field-key sites (a schema's own `kw_only` entry forwarded to `field(...)`) are judged separately. -/
def siteOk (s : Site) : Bool := s.kind == .fieldKey || safe predSince kwOnlyBound s.expr

def filesOf (kind : Nat) : List Nat := (kindFiles.lookup kind).getD []

def isText (s : Site) : Bool := s.kind == .textPy || s.kind == .textTemplate

/-- prediction for one run: is `kw_only` written at class level for this output model type, when every read of the flag
yields `flag` (the user's option) and what the translator does not understand is false -/
def writesClassLevel (kind : Nat) (flag : Bool) (target : Nat) : Bool :=
  (sites.filter (fun s => isText s && (filesOf kind).contains s.file)).any
    (fun s => eval predSince { flag := flag, target := target, free := fun _ => false } s.expr)

/-- can a schema's own `kw_only` entry reach a field of this output model type -/
def fieldLevelPossible (kind : Nat) : Bool :=
  sites.any (fun s => s.kind == .fieldKey && (filesOf kind).contains s.file)

end Dcg.Model.Version
