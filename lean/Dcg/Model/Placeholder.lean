/-
Dcg.Model.Placeholder — the life of the name-less placeholder members that `required` entries leave
behind (`parser/jsonschema.py _parse_object_common_part`, `parser/base.py __override_required_field`).

An `allOf` schema may list in `required` a member it does not declare itself (it re-declares a member
of a base class as required).  `_parse_object_common_part` appends, for every such entry, a member
WITHOUT A NAME that only carries the wire name (`original_name`) and an empty type.  After all
models are parsed, `__override_required_field` visits every class model (not enums, not root types)
and, for every member that has a wire name (`original_name is not None`; the empty string is a wire
name like any other) and an empty type, looks the wire name up in the base classes (breadth first):
found — the member is replaced by a copy of the base member, marked required; not found — the member
is dropped.  A placeholder that survived this pass would be rendered with the name `None`
(`None: None` does not parse): `Props/C01.override_leaves_only_named` says none does.
-/
namespace Dcg.Model.Placeholder

/-- what matters of a member here: its Python name, its wire name, whether its type is non-empty -/
structure Fld where
  name : Option (List Char)
  orig : Option (List Char)
  typed : Bool
  required : Bool
  deriving DecidableEq, Repr

/-- a model with its base classes (the part of the class graph reachable from it) -/
inductive Mdl where
  | mk (fields : List Fld) (bases : List Mdl)
  deriving Repr

def Mdl.fields : Mdl → List Fld
  | .mk fs _ => fs
def Mdl.bases : Mdl → List Mdl
  | .mk _ bs => bs

/-- the test of `__override_required_field`: the member has a wire name (`original_name is not
None` — ANY string, the empty one included: `required: [""]` is an ordinary entry) and an empty type. -/
def pending (f : Fld) : Bool :=
  f.orig.isSome && !f.typed

/-- `_find_field(original_name, base classes)`: breadth-first over the base classes, the first
member whose wire name is the one looked for (`fuel` bounds the walk; `Proofs` never needs more than
the number of models reachable) -/
def findField (n : List Char) : Nat → List Mdl → Option Fld
  | 0, _ => none
  | _, [] => none
  | k + 1, m :: rest =>
    match m.fields.find? (fun f => f.orig == some n) with
    | some f => some f
    | none => findField n k (rest ++ m.bases)

/-- one member under `__override_required_field`, given the lookup in the base classes: a member
with a wire name `n` and an empty type is replaced by the required copy of what the lookup returns
for `n`, or dropped; every other member stays -/
def overrideOne (find : List Char → Option Fld) (f : Fld) : Option Fld :=
  match f.orig, f.typed with
  | some n, false => (find n).map (fun o => { o with required := true })
  | _, _ => some f

/-- the members of a class model after the pass — as a list in declaration order; the real pass
re-inserts a copy at the member's index in the pre-pass list, so that a copy can end up behind later
members when earlier placeholders were dropped: the model (and the correspondence campaign) is about
WHICH members remain, not about their positions -/
def overrideFields (find : List Char → Option Fld) (fs : List Fld) : List Fld :=
  fs.filterMap (overrideOne find)

/-- `__override_required_field` on one model; `skip` = an enum or a root type (left alone) -/
def overrideModel (fuel : Nat) (skip : Bool) (m : Mdl) : List Fld :=
  if skip then m.fields else overrideFields (fun n => findField n fuel m.bases) m.fields

end Dcg.Model.Placeholder
