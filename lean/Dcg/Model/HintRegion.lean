import Dcg.Model.HintExpr
/-
Dcg.Model.HintRegion — the decidable region of the union-operator half of C13's spelling claim.

`opRegion o t` holds when, at every node of `t` that renders as a union (no type of its own, at
least two members):
* no member renders as `Any` (in either spelling; `Any` is exempt from the optional wrapper, which
  the two spellings decide on different texts), and
* if the node is itself a list / set / dict (tuple-style items), every member is `None` or has no
  `None` alternative, and not all members are `None` (known findings C13-F4 and C13-F3 live outside).

The hints of the members are the structural ones (`hintE`), in the container spelling of `o`.
-/
namespace Dcg.Model.HintExpr
open Dcg.Model.Types
open Dcg.Sem.Typing hiding Str sNone sComma sPipe

def withOp (o : Opts) : Opts := { o with unionOp := true }
def withoutOp (o : Opts) : Opts := { o with unionOp := false }

def isCont (a : Attrs) : Bool := a.isList || a.isSet || a.isDict

/-- the condition on the member hints of one union node: `ts` in the `Union[…]` spelling, `bs` in the `|` spelling -/
def membersRegion (a : Attrs) (ts bs : List TExpr) : Bool :=
  ts.all (fun k => print k != sAny) && bs.all (fun k => print (rmB k) != sAny) &&
  (!isCont a ||
    (ts.all (fun k => isNoneE k || !hasNone k) && ts.any (fun k => !isNoneE k)))

def nodeRegion (o : Opts) (a : Attrs) (kids : List DT) : Bool :=
  if a.ty = [] ∧ 2 ≤ kids.length then
    membersRegion a (hintEL (withoutOp o) kids) (hintEL (withOp o) kids)
  else true

mutual
def opRegion (o : Opts) : DT → Bool
  | .mk a key kids => nodeRegion o a kids && opRegionO o key && opRegionL o kids
def opRegionO (o : Opts) : Option DT → Bool
  | none => true
  | some k => opRegion o k
def opRegionL (o : Opts) : List DT → Bool
  | [] => true
  | t :: ts => opRegion o t && opRegionL o ts
end

/-- the four container spellings -/
def containerSpellings : List Opts :=
  [{}, { stdColl := true }, { genericCont := true }, { stdColl := true, genericCont := true }]

/-- the region of the full eight-spelling statement -/
def opRegionAll (t : DT) : Bool := containerSpellings.all (fun o => opRegion o t)

end Dcg.Model.HintExpr
