import Dcg.Model.HintExpr
/-
Dcg.Model.HintRegion — the decidable region of the union-operator half of C13's spelling claim.

`opRegion o t` holds when, at every node of `t` that renders as a union (no type of its own, at
least two members):
* no member renders as `Any` (in either spelling; `Any` is exempt from the optional wrapper, which
  the two spellings decide on different texts), and
* if the node is itself a list / set / dict (tuple-style items), every member is `None` or has no
  `None` alternative, and not all members are `None` (known findings C13-F4 and C13-F3 live outside).

The hints of the members are the structural ones (`hintE`), in the container spelling of `o`.
-/
namespace Dcg.Model.HintExpr
open Dcg.Model.Types
open Dcg.Sem.Typing hiding Str sNone sComma sPipe

def withOp (o : Opts) : Opts := { o with unionOp := true }
def withoutOp (o : Opts) : Opts := { o with unionOp := false }

def isCont (a : Attrs) : Bool := a.isList || a.isSet || a.isDict

/-- the condition on the member hints of one union node: `ts` in the `Union[…]` spelling, `bs` in the `|` spelling -/
def membersRegion (a : Attrs) (ts bs : List TExpr) : Bool :=
  ts.all (fun k => print k != sAny) && bs.all (fun k => print (rmB k) != sAny) &&
  (!isCont a ||
    (ts.all (fun k => isNoneE k || !hasNone k) && ts.any (fun k => !isNoneE k)))

def nodeRegion (o : Opts) (a : Attrs) (kids : List DT) : Bool :=
  if a.ty = [] ∧ 2 ≤ kids.length then
    membersRegion a (hintEL (withoutOp o) kids) (hintEL (withOp o) kids)
  else true

mutual
def opRegion (o : Opts) : DT → Bool
  | .mk a key kids => nodeRegion o a kids && opRegionO o key && opRegionL o kids
def opRegionO (o : Opts) : Option DT → Bool
  | none => true
  | some k => opRegion o k
def opRegionL (o : Opts) : List DT → Bool
  | [] => true
  | t :: ts => opRegion o t && opRegionL o ts
end

/-- the four container spellings -/
def containerSpellings : List Opts :=
  [{}, { stdColl := true }, { genericCont := true }, { stdColl := true, genericCont := true }]

/-- the region of the full eight-spelling statement -/
def opRegionAll (t : DT) : Bool := containerSpellings.all (fun o => opRegion o t)

/-! ### why a tree is outside the region (reported by the driver, not used in theorems) -/

/-- (some member renders as `Any`, a container-union has a member with a `None` alternative, a container-union of `None`s) -/
def membersWhy (a : Attrs) (ts bs : List TExpr) : Bool × Bool × Bool :=
  (!(ts.all (fun k => print k != sAny) && bs.all (fun k => print (rmB k) != sAny)),
   isCont a && !ts.all (fun k => isNoneE k || !hasNone k),
   isCont a && !ts.any (fun k => !isNoneE k))

def or3 (x y : Bool × Bool × Bool) : Bool × Bool × Bool := (x.1 || y.1, x.2.1 || y.2.1, x.2.2 || y.2.2)

mutual
def whyOutside (o : Opts) : DT → Bool × Bool × Bool
  | .mk a key kids =>
    or3 (if a.ty = [] ∧ 2 ≤ kids.length then membersWhy a (hintEL (withoutOp o) kids) (hintEL (withOp o) kids)
         else (false, false, false))
      (or3 (whyOutsideO o key) (whyOutsideL o kids))
def whyOutsideO (o : Opts) : Option DT → Bool × Bool × Bool
  | none => (false, false, false)
  | some k => whyOutside o k
def whyOutsideL (o : Opts) : List DT → Bool × Bool × Bool
  | [] => (false, false, false)
  | t :: ts => or3 (whyOutside o t) (whyOutsideL o ts)
end

/-! ### `None` at most once per union (the statement of `none_once`, any spelling) -/

mutual
/-- how often `None` is mentioned among the alternatives of the union whose root is `e`, flattened
through `Optional[…]` / `Union[…]` / `|` -/
def noneCount : TExpr → Nat
  | .atom s => if s = sNone then 1 else 0
  | .app h args => if h = sOptional then noneCountL args + 1 else if h = sUnion then noneCountL args else 0
  | .bor args => noneCountL args
def noneCountL : List TExpr → Nat
  | [] => 0
  | e :: es => noneCount e + noneCountL es
end

mutual
/-- `e` starts a union level: `None` at most once among its flattened alternatives, and the levels inside are fine -/
def rootOK : TExpr → Bool
  | .atom _ => true
  | .app h args =>
    if h = sOptional ∨ h = sUnion then decide (noneCount (.app h args) ≤ 1) && innerOKL args else rootOKL args
  | .bor args => decide (noneCountL args ≤ 1) && innerOKL args
/-- `e` belongs to a level counted at its root: only the levels strictly inside are checked -/
def innerOK : TExpr → Bool
  | .atom _ => true
  | .app h args => if h = sOptional ∨ h = sUnion then innerOKL args else rootOKL args
  | .bor args => innerOKL args
def rootOKL : List TExpr → Bool
  | [] => true
  | e :: es => rootOK e && rootOKL es
def innerOKL : List TExpr → Bool
  | [] => true
  | e :: es => innerOK e && innerOKL es
end

mutual
/-- no `Optional[…]` / `Union[…]` subscription anywhere -/
def opFree : TExpr → Bool
  | .atom _ => true
  | .app h args => h != sOptional && h != sUnion && opFreeL args
  | .bor args => opFreeL args
def opFreeL : List TExpr → Bool
  | [] => true
  | e :: es => opFree e && opFreeL es
end

end Dcg.Model.HintExpr
