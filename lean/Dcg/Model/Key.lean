/-
Dcg.Model.Key — names as natural numbers.

`decide +kernel` over tables of Lean `String`s is slow (every comparison re-encodes both
literals; ≈ 4 ms per comparison of 20-character names, measured), while comparison of `Nat`
literals is done by the kernel's big-number arithmetic. Tables that are only ever *compared*
therefore carry names as keys: `k! "typing"` is notation for the numeral obtained by reading
the code points of the text as digits in base 1114112 (injective on strings that do not start
with U+0000). The macro runs at elaboration time; what the kernel sees is the numeral.
`vlib/keyenc.py` is the same encoding in Python (used to print names in messages).
-/
namespace Dcg.Model.Key

/-- the encoding, as a Lean function (used by the model driver to decode requests) -/
def keyOf (cs : List Char) : Nat := cs.foldl (fun a c => a * 1114112 + c.toNat) 0

/-- inverse of `keyOf` on non-zero keys (fuel = the key itself is more than enough) -/
def unkeyAux : Nat → Nat → List Char → List Char
  | 0, _, acc => acc
  | _, 0, acc => acc
  | fuel + 1, n, acc => unkeyAux fuel (n / 1114112) (Char.ofNat (n % 1114112) :: acc)

def unkey (n : Nat) : List Char := unkeyAux 64 n []

end Dcg.Model.Key

/-- `k! "text"` ↦ the numeral `keyOf "text".toList` -/
macro:max "k!" s:str : term => do
  let n := s.getString.toList.foldl (fun a c => a * 1114112 + c.toNat) 0
  return Lean.Syntax.mkNumLit (toString n)

example : k! "ab" = 97 * 1114112 + 98 := rfl
example : Dcg.Model.Key.keyOf "typing".toList = k! "typing" := by decide
