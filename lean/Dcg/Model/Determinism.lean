import Dcg.Model.Key
/-
Dcg.Model.Determinism — the REVIEWED side of C08: which order-sensitive uses of a set, which
memoised functions and which class-level mutable objects have been looked at, and why each is
harmless. The sites themselves are regenerated from the source (Dcg/Gen/SetSites); a site that is
not sorted at the point of use, not consumed by an order-insensitive call and not listed here
breaks `setSites_all_justified`. Every tag names the lemma of Dcg/Props/C08.lean that backs it.
Also: small generic definitions (memo table, stable sort by key, function update) the lemmas use.
-/
namespace Dcg.Model.Determinism

inductive Tag where
  | sortedLater        -- the order only decides insertion order into a dict that is sorted before use (`sorted_unique`)
  | removalsCommute    -- the order only decides in which order elements are removed (`erase_fold_perm_invariant`)
  | independentWrites  -- one assignment per element to a distinct key (`update_fold_perm_invariant`)
  | errorMessageOnly   -- the text only appears in the message of a raised exception, never in a file
  | buildsASet         -- the result is again a set / consumed by all/any/membership (`fold_comm_perm_invariant`, `Perm.map`)
  deriving Repr, DecidableEq

/-- calls whose result does not depend on the order of the iterable they consume -/
def orderFreeConsumers : List Nat :=
  [k! "sorted", k! "set", k! "frozenset", k! "any", k! "all", k! "len", k! "min", k! "max", k! "sum"]

/-- reviewed unsorted set-iteration sites: ((file, function, iterated expression, kind), tag) -/
def reviewedSetSites : List ((Nat × Nat × Nat × Nat) × Tag) :=
  [-- `for folder in folders: … results.update({init_file: init_result})`: only the insertion order of the
   -- `__init__.py` keys depends on it; generate() writes `sorted(results.items())` (also a generated, sorted site)
   ((k! "parser/base.py", k! "Parser.__postprocess_result_modules", k! "folders", k! "for"), .sortedLater),
   -- `unused_imports = [(from_, import_) for … in imports_ if …]` then `imports.remove(...)` for each
   ((k! "parser/base.py", k! "Parser.parse", k! "imports_", k! "comp:list"), .removalsCommute),
   -- `for pass_field_name in self._pass_fields: setattr(self, pass_field_name, values[pass_field_name])`
   ((k! "reference.py", k! "_BaseModel.__init__", k! "self._pass_fields", k! "for"), .independentWrites),
   -- f-string inside the "circular reference" exception text
   ((k! "parser/base.py", k! "sort_data_models", k! "item.reference_classes", k! "format"), .errorMessageOnly)]

/-- what may bind a free name of a memoised function without making it impure -/
def pureBindings : List Nat := [k! "import", k! "def", k! "class", k! "constant"]

/-- reviewed free names that the classifier cannot prove constant: (function, name).
`inflect_engine = inflect.engine()` is only ever asked `singular_noun(word)`, which does not depend on
earlier calls (inflect's own caches are keyed by the word). -/
def reviewedFree : List (Nat × Nat) := [(k! "get_singular_name", k! "inflect_engine")]

inductive CacheTag where
  | perRunInstance          -- cached_property on an object created during one generate() call; dies with it
  | enumSingletonImmutable  -- cached_property on an Enum member; reads only the member's immutable value
  deriving Repr, DecidableEq

/-- every `cached_property`: ((file, function), tag) -/
def reviewedCachedProperties : List ((Nat × Nat) × CacheTag) :=
  [
   ((k! "format.py", k! "PythonVersion._is_py_310_or_later"), .enumSingletonImmutable),
   ((k! "format.py", k! "PythonVersion._is_py_311_or_later"), .enumSingletonImmutable),
   ((k! "model/base.py", k! "ConstraintsBase.has_constraints"), .perRunInstance),
   ((k! "model/base.py", k! "TemplateBase.template_file_path"), .perRunInstance),
   ((k! "model/base.py", k! "TemplateBase.template"), .perRunInstance),
   ((k! "model/base.py", k! "DataModel.template_file_path"), .perRunInstance),
   ((k! "model/base.py", k! "DataModel.path"), .perRunInstance),
   ((k! "model/pydantic/base_model.py", k! "BaseModelBase.template_file_path"), .perRunInstance),
   ((k! "parser/jsonschema.py", k! "JsonSchemaObject.is_object"), .perRunInstance),
   ((k! "parser/jsonschema.py", k! "JsonSchemaObject.is_array"), .perRunInstance),
   ((k! "parser/jsonschema.py", k! "JsonSchemaObject.ref_object_name"), .perRunInstance),
   ((k! "parser/jsonschema.py", k! "JsonSchemaObject.has_default"), .perRunInstance),
   ((k! "parser/jsonschema.py", k! "JsonSchemaObject.has_constraint"), .perRunInstance),
   ((k! "parser/jsonschema.py", k! "JsonSchemaObject.ref_type"), .perRunInstance),
   ((k! "parser/jsonschema.py", k! "JsonSchemaObject.type_has_null"), .perRunInstance),
   ((k! "parser/jsonschema.py", k! "JsonSchemaParser.schema_paths"), .perRunInstance)]

inductive ReturnTag where
  | enumMember              -- the result is a member of an Enum: one immutable singleton per value
  | sharedClassNeverWritten -- an instance of a class of `knownSharedClasses`: `memoised_values_never_mutated` covers every store
  | templateOnlyRendered    -- a compiled Jinja2 Template: callers only call `.render(**kwargs)`, which keeps no state on it
  | noCaller                -- a mutable result, but the function is called from nowhere (checked: `callers = 0`)
  deriving Repr, DecidableEq

/-- return annotations of process-wide memoised functions that denote immutable values -/
def immutableReturns : List Nat := [k! "str", k! "bool", k! "int", k! "float", k! "bytes"]

/-- every process-wide memoised function (`lru_cache` / `cache`) whose result is not of an immutable type: ((file, function), tag).
A cache hands the SAME object to every caller in every later generate() call: a result that a caller writes to (a dict, a
list, a loaded document) makes a later call see what an earlier call left (the premise `Sound` of `cache_transparent`).
Checked at run time as well: every object handed out by such a function is compared with its snapshot after the calls. -/
def reviewedCacheReturns : List ((Nat × Nat) × ReturnTag) :=
  [((k! "imports.py", k! "Import.from_full_path"), .sharedClassNeverWritten),
   ((k! "model/base.py", k! "get_template"), .templateOnlyRendered),
   ((k! "parser/jsonschema.py", k! "get_ref_type"), .enumMember),
   -- `-> list[str]`, dead code since the union handling was rewritten
   ((k! "types.py", k! "_remove_none_from_type"), .noCaller)]

inductive ListingTag where
  | sortedByBasenameThenPath   -- `sorted(…, key=lambda p: (p.name, p.as_posix()))`: the second component of the key is the entry
                               -- itself, so the key is injective and the order is independent of the listing order for EVERY
                               -- directory (`iterSource_perm_invariant`, unconditional since the repair of C08-basename)
  deriving Repr, DecidableEq

/-- every directory-listing call that is not `sorted(` in the natural (total) order of its entries: ((file, function, call), tag).
`get_first_file` is no longer here: since the repair of C08-auto-dir it is `sorted(path.rglob("*"))` without a key, the shape
every listing call has by default (`perm_invariant_of_sorted`). -/
def reviewedListingSites : List ((Nat × Nat × Nat) × ListingTag) :=
  [((k! "parser/base.py", k! "Parser.iter_source", k! "self.source.rglob"), .sortedByBasenameThenPath)]

/-- the two directory-listing sites of the package with the shape each must have: (file, function, call, key shape).
A site that disappears (the listing is done some other way) or changes its shape breaks `listing_sites_sorted`. -/
def expectedListingSites : List (Nat × Nat × Nat × Nat) :=
  [(k! "__init__.py", k! "get_first_file", k! "path.rglob", k! "natural"),
   (k! "parser/base.py", k! "Parser.iter_source", k! "self.source.rglob", k! "basename-then-path")]

inductive StateTag where
  | pydanticFieldDefault   -- default of a pydantic field: copied for every instance, the class-level object is never handed out
  | constantNeverMutated   -- used for membership / iteration only (checked at run time: unchanged after generate() calls)
  | reboundPerRun          -- GraphQLParser.references: `parse_raw` rebinds `self.references = {}` before any use
  deriving Repr, DecidableEq

/-- every mutable object assigned in a class body: ((file, class, attribute), tag) -/
def reviewedClassMutables : List ((Nat × Nat × Nat) × StateTag) :=
  [
   ((k! "__main__.py", k! "Config", k! "strict_types"), .pydanticFieldDefault),
   ((k! "__main__.py", k! "Config", k! "openapi_scopes"), .pydanticFieldDefault),
   ((k! "model/base.py", k! "ConstraintsBase", k! "_exclude_fields"), .constantNeverMutated),
   ((k! "model/base.py", k! "DataModelFieldBase", k! "extras"), .pydanticFieldDefault),
   ((k! "model/base.py", k! "DataModelFieldBase", k! "_exclude_fields"), .constantNeverMutated),
   ((k! "model/base.py", k! "DataModelFieldBase", k! "_pass_fields"), .constantNeverMutated),
   ((k! "model/dataclass.py", k! "DataModelField", k! "_FIELD_KEYS"), .constantNeverMutated),
   ((k! "model/msgspec.py", k! "DataModelField", k! "_FIELD_KEYS"), .constantNeverMutated),
   ((k! "model/msgspec.py", k! "DataModelField", k! "_META_FIELD_KEYS"), .constantNeverMutated),
   ((k! "model/msgspec.py", k! "DataModelField", k! "_COMPARE_EXPRESSIONS"), .constantNeverMutated),
   ((k! "model/pydantic/base_model.py", k! "DataModelField", k! "_EXCLUDE_FIELD_KEYS"), .constantNeverMutated),
   ((k! "model/pydantic/base_model.py", k! "DataModelField", k! "_COMPARE_EXPRESSIONS"), .constantNeverMutated),
   ((k! "model/pydantic_v2/base_model.py", k! "DataModelField", k! "_EXCLUDE_FIELD_KEYS"), .constantNeverMutated),
   ((k! "model/pydantic_v2/base_model.py", k! "DataModelField", k! "_DEFAULT_FIELD_KEYS"), .constantNeverMutated),
   ((k! "model/pydantic_v2/base_model.py", k! "BaseModel", k! "CONFIG_ATTRIBUTES"), .constantNeverMutated),
   ((k! "parser/graphql.py", k! "GraphQLParser", k! "references"), .reboundPerRun),
   ((k! "parser/graphql.py", k! "GraphQLParser", k! "parse_order"), .constantNeverMutated),
   ((k! "parser/jsonschema.py", k! "JsonSchemaObject", k! "__constraint_fields__"), .constantNeverMutated),
   ((k! "parser/jsonschema.py", k! "JsonSchemaObject", k! "oneOf"), .pydanticFieldDefault),
   ((k! "parser/jsonschema.py", k! "JsonSchemaObject", k! "anyOf"), .pydanticFieldDefault),
   ((k! "parser/jsonschema.py", k! "JsonSchemaObject", k! "allOf"), .pydanticFieldDefault),
   ((k! "parser/jsonschema.py", k! "JsonSchemaObject", k! "enum"), .pydanticFieldDefault),
   ((k! "parser/jsonschema.py", k! "JsonSchemaObject", k! "required"), .pydanticFieldDefault),
   ((k! "parser/jsonschema.py", k! "JsonSchemaParser", k! "SCHEMA_PATHS"), .constantNeverMutated),
   ((k! "parser/openapi.py", k! "ParameterObject", k! "content"), .pydanticFieldDefault),
   ((k! "parser/openapi.py", k! "HeaderObject", k! "content"), .pydanticFieldDefault),
   ((k! "parser/openapi.py", k! "RequestBodyObject", k! "content"), .pydanticFieldDefault),
   ((k! "parser/openapi.py", k! "ResponseObject", k! "headers"), .pydanticFieldDefault),
   ((k! "parser/openapi.py", k! "ResponseObject", k! "content"), .pydanticFieldDefault),
   ((k! "parser/openapi.py", k! "Operation", k! "tags"), .pydanticFieldDefault),
   ((k! "parser/openapi.py", k! "Operation", k! "parameters"), .pydanticFieldDefault),
   ((k! "parser/openapi.py", k! "Operation", k! "responses"), .pydanticFieldDefault),
   ((k! "parser/openapi.py", k! "ComponentsObject", k! "schemas"), .pydanticFieldDefault),
   ((k! "parser/openapi.py", k! "ComponentsObject", k! "responses"), .pydanticFieldDefault),
   ((k! "parser/openapi.py", k! "ComponentsObject", k! "examples"), .pydanticFieldDefault),
   ((k! "parser/openapi.py", k! "ComponentsObject", k! "requestBodies"), .pydanticFieldDefault),
   ((k! "parser/openapi.py", k! "ComponentsObject", k! "headers"), .pydanticFieldDefault),
   ((k! "parser/openapi.py", k! "OpenAPIParser", k! "SCHEMA_PATHS"), .constantNeverMutated),
   ((k! "reference.py", k! "_BaseModel", k! "_exclude_fields"), .constantNeverMutated),
   ((k! "reference.py", k! "_BaseModel", k! "_pass_fields"), .constantNeverMutated),
   ((k! "reference.py", k! "Reference", k! "children"), .pydanticFieldDefault),
   ((k! "reference.py", k! "Reference", k! "_exclude_fields"), .constantNeverMutated),
   ((k! "types.py", k! "DataType", k! "data_types"), .pydanticFieldDefault),
   ((k! "types.py", k! "DataType", k! "literals"), .pydanticFieldDefault),
   ((k! "types.py", k! "DataType", k! "children"), .pydanticFieldDefault),
   ((k! "types.py", k! "DataType", k! "_exclude_fields"), .constantNeverMutated),
   ((k! "types.py", k! "DataType", k! "_pass_fields"), .constantNeverMutated)]

inductive WriteTag where
  | fieldOfOtherClass         -- the attribute belongs to another class that happens to use the same field name
  | rebindsFieldOfOtherClass  -- assigns a fresh object to a field of another class; the shared instance is not touched
  | dynamicOnOtherObject      -- setattr with a computed name on an object that is not an instance of a shared class
  deriving Repr, DecidableEq

/-- the classes whose instances are process-wide (memoised results / module-level constants) that the review knows about -/
def knownSharedClasses : List Nat := [k! "Import"]

/-- every store to an attribute named like a field of a shared class (`Import.from_/import_/alias/reference_path`) and every
dynamic `setattr`: ((file, function, target), tag). None of them writes INTO a shared instance — which is the premise of
`cache_transparent` (a cache only ever holds pairs `(x, f x)`; mutating a cached value in place breaks it). Checked at run
time as well: every module-level `Import` object is compared before/after the generate() calls of each batch process. -/
def reviewedMemoWrites : List ((Nat × Nat × Nat) × WriteTag) :=
  [
   -- debugging decorator: setattr on a class being decorated (pysnooper), never an Import
   ((k! "__init__.py", k! "snooper_to_methods.inner", k! "cls"), .dynamicOnOtherObject),
   -- setattr on the Config instance of this run
   ((k! "__main__.py", k! "Config.merge_args", k! "self"), .dynamicOnOtherObject),
   -- the per-run Imports collection has its own `alias` dict
   ((k! "imports.py", k! "Imports.__init__", k! "self.alias"), .fieldOfOtherClass),
   -- enum Member
   ((k! "model/enum.py", k! "Member.__init__", k! "self.alias"), .fieldOfOtherClass),
   -- REBINDS DataType.import_ to a NEW Import(..., alias=…); the shared Import object is left alone
   ((k! "parser/base.py", k! "Parser.__alias_shadowed_imports", k! "data_type.import_"), .rebindsFieldOfOtherClass),
   -- DataModelFieldBase.alias
   ((k! "parser/base.py", k! "Parser.__change_field_name", k! "field.alias"), .fieldOfOtherClass),
   -- DataType.alias
   ((k! "parser/base.py", k! "Parser.__change_from_import", k! "data_type.alias"), .fieldOfOtherClass),
   -- DataType.alias
   ((k! "parser/base.py", k! "Parser.__collapse_root_models", k! "d.alias"), .fieldOfOtherClass),
   -- DataType.alias
   ((k! "parser/base.py", k! "Parser.__set_default_enum_member", k! "enum_member.alias"), .fieldOfOtherClass),
   -- DataType.alias
   ((k! "parser/base.py", k! "Parser.__set_default_enum_member", k! "enum_member_.alias"), .fieldOfOtherClass),
   -- setattr on the Reference/DataType being constructed (Import does not derive from reference._BaseModel)
   ((k! "reference.py", k! "_BaseModel.__init__", k! "self"), .dynamicOnOtherObject)]

inductive CwdTag where
  | insideChdirOutput   -- runs in the dynamic extent of `Parser.parse()`, which `generate()` calls inside `with chdir(output)`
                        -- (Props/C08.formatting_runs_in_output_directory, decided on Gen/GenerateSteps): the directory it sees is the
                        -- output directory, whatever directory the caller is in. Observed at run time as well (the working directory
                        -- at `CodeFormatter.__init__` is recorded in every child process of the project-directory campaign).
  | inputLocation       -- completes the location of the input (a relative input path, the directory against which a TEXT input's
                        -- relative `$ref`s are resolved, the absolute form of a document's path used as its identity): WHICH document is
                        -- read is part of the input; the path never reaches the output (differential runs from several directories)
  | savedAndRestored    -- the context manager `chdir` itself: saves the directory, switches, restores in `finally` (Props/C20.cwd_restored)
  | cliLayer            -- `__main__`: conversion of path arguments, discovery of the pyproject.toml that supplies OPTIONS (Props/C18)
  deriving Repr, DecidableEq

/-- every call in the source that reads or sets the process's working directory, or starts a child process that inherits it:
((file, function, called expression), tag). A new reader of the working directory — a formatter handed `Path.cwd()` outside
the `with chdir(output)` region, a tool started from somewhere else — is not on this list and breaks `cwd_reads_reviewed`. -/
def reviewedCwdSites : List ((Nat × Nat × Nat) × CwdTag) :=
  [((k! "__init__.py", k! "chdir", k! "Path.cwd"), .savedAndRestored),
   ((k! "__init__.py", k! "chdir", k! "os.chdir"), .savedAndRestored),
   ((k! "__init__.py", k! "generate", k! "input_.expanduser().resolve"), .inputLocation),
   ((k! "__main__.py", k! "Config.validate_file", k! "Path(value).expanduser().resolve"), .cliLayer),
   ((k! "__main__.py", k! "Config.validate_path", k! "Path(value).expanduser().resolve"), .cliLayer),
   ((k! "__main__.py", k! "main", k! "Path.cwd"), .cliLayer),
   -- `settings_path = Path.cwd()` when no settings path is given: black's project root / pyproject.toml, isort's settings
   ((k! "format.py", k! "CodeFormatter.__init__", k! "Path.cwd"), .insideChdirOutput),
   -- `ruff check --fix -` / `ruff format -`: the child discovers ruff.toml / pyproject.toml from the directory it inherits
   ((k! "format.py", k! "CodeFormatter.apply_ruff_lint", k! "subprocess.run"), .insideChdirOutput),
   ((k! "format.py", k! "CodeFormatter.apply_ruff_formatter", k! "subprocess.run"), .insideChdirOutput),
   ((k! "parser/base.py", k! "Parser.__init__", k! "source.absolute"), .inputLocation),
   ((k! "parser/base.py", k! "Parser.__init__", k! "Path.cwd"), .inputLocation),
   ((k! "parser/graphql.py", k! "GraphQLParser._get_context_source_path_parts", k! "self.base_path.joinpath(s.path).resolve"), .inputLocation),
   ((k! "parser/jsonschema.py", k! "JsonSchemaParser._get_context_source_path_parts", k! "self.base_path.joinpath(s.path).resolve"), .inputLocation),
   ((k! "reference.py", k! "ModelResolver.__init__", k! "Path.cwd"), .inputLocation),
   ((k! "reference.py", k! "ModelResolver.current_base_path_context", k! "(self._base_path / base_path).resolve"), .inputLocation),
   ((k! "reference.py", k! "ModelResolver.resolve_ref", k! "Path(self.current_base_path, file_path).resolve"), .inputLocation),
   ((k! "reference.py", k! "ModelResolver.resolve_ref", k! "target_path.resolve"), .inputLocation),
   ((k! "reference.py", k! "ModelResolver.is_after_load", k! "Path(self._base_path, file_part).resolve"), .inputLocation)]

/-- the sites of the formatting stage that look at the working directory: they must still exist (otherwise the review above
talks about nothing) and carry the tag `insideChdirOutput` -/
def expectedFormatterCwdSites : List (Nat × Nat × Nat) :=
  [(k! "format.py", k! "CodeFormatter.__init__", k! "Path.cwd"),
   (k! "format.py", k! "CodeFormatter.apply_ruff_lint", k! "subprocess.run"),
   (k! "format.py", k! "CodeFormatter.apply_ruff_formatter", k! "subprocess.run")]

/-! ### module-level mutable objects (Gen/ModuleState) -/

inductive EscapeTag where
  | defaultOnlyTested      -- default value of a `formatters` parameter: handed down to `CodeFormatter.__init__`, where every use is
                           -- `Formatter.X in formatters`; stored as `self.formatters`, an attribute nothing mutates (the table's `mutated`)
  | calleeOnlyTestsMembership -- `transform_kwargs(kwargs, filter_)`: the callee's only use of the argument is `k in filter_`
  deriving Repr, DecidableEq

/-- every place where a module-level dict / list / set itself is handed on other than by an assignment to an attribute / a
local / a class attribute: ((file, function, kind, target, constant), tag). An assignment row needs no entry as long as the new
name is never mutated in place (`mutated = false`, recomputed from the source on every run). -/
def reviewedModuleEscapes : List ((Nat × Nat × Nat × Nat × Nat) × EscapeTag) :=
  [((k! "__init__.py", k! "generate", k! "default", k! "", k! "DEFAULT_FORMATTERS"), .defaultOnlyTested),
   ((k! "format.py", k! "CodeFormatter.__init__", k! "default", k! "", k! "DEFAULT_FORMATTERS"), .defaultOnlyTested),
   ((k! "parser/base.py", k! "Parser.__init__", k! "default", k! "", k! "DEFAULT_FORMATTERS"), .defaultOnlyTested),
   ((k! "parser/graphql.py", k! "GraphQLParser.__init__", k! "default", k! "", k! "DEFAULT_FORMATTERS"), .defaultOnlyTested),
   ((k! "parser/jsonschema.py", k! "JsonSchemaParser.__init__", k! "default", k! "", k! "DEFAULT_FORMATTERS"), .defaultOnlyTested),
   ((k! "parser/openapi.py", k! "OpenAPIParser.__init__", k! "default", k! "", k! "DEFAULT_FORMATTERS"), .defaultOnlyTested),
   ((k! "model/pydantic/types.py", k! "DataTypeManager.get_data_bytes_type", k! "arg", k! "self.transform_kwargs", k! "byes_kwargs"), .calleeOnlyTestsMembership),
   ((k! "model/pydantic/types.py", k! "DataTypeManager.get_data_decimal_type", k! "arg", k! "self.transform_kwargs", k! "number_kwargs"), .calleeOnlyTestsMembership),
   ((k! "model/pydantic/types.py", k! "DataTypeManager.get_data_float_type", k! "arg", k! "self.transform_kwargs", k! "number_kwargs"), .calleeOnlyTestsMembership),
   ((k! "model/pydantic/types.py", k! "DataTypeManager.get_data_int_type", k! "arg", k! "self.transform_kwargs", k! "number_kwargs"), .calleeOnlyTestsMembership),
   ((k! "model/pydantic/types.py", k! "DataTypeManager.get_data_str_type", k! "arg", k! "self.transform_kwargs", k! "string_kwargs"), .calleeOnlyTestsMembership)]

/-- aliases of a module-level mutable object whose new name IS mutated in place somewhere, reviewed as harmless: none.
(`self.field_keys = DEFAULT_FIELD_KEYS` + `self.field_keys.update(…)` would be one: every later parser sees the keys.) -/
def reviewedMutatedAliases : List (Nat × Nat × Nat × Nat × Nat) := []

/-- in-place mutations of a module-level mutable object under its own name, reviewed as harmless
((file, function, constant, operation)): none — the unchanged tree has no such statement. -/
def reviewedModuleWrites : List (Nat × Nat × Nat × Nat) := []

/-- module-level objects the review is about, which must still be in the regenerated table (otherwise it talks about nothing) -/
def expectedModuleMutables : List (Nat × Nat × Nat) :=
  [(k! "parser/jsonschema.py", k! "DEFAULT_FIELD_KEYS", k! "set"),
   (k! "parser/jsonschema.py", k! "EXCLUDE_FIELD_KEYS", k! "set"),
   (k! "format.py", k! "DEFAULT_FORMATTERS", k! "list"),
   (k! "reference.py", k! "DEFAULT_FIELD_NAME_RESOLVERS", k! "dict")]

inductive OutsideTag where
  | packageTemplateFile   -- `get_template(template_file_path)`: compiles the Jinja2 template FILE of that path once per process. For
                          -- the package's own templates the file is installation data. With `custom_template_dir` the path lies in
                          -- the user's directory: a template edited between two generate() calls of one interpreter is not re-read
                          -- (a genuine history dependence of the unchanged code: known finding C08-template-cache, met by the history-pair runs)
  deriving Repr, DecidableEq

/-- process-wide memoised functions whose result depends on state OUTSIDE their arguments (file content, environment, clock):
((file, function), tag). A cache keyed by a PATH returns what the file held at the first call — `cache_transparent` needs `f` to
be a function of its argument. -/
def reviewedOutsideCaches : List ((Nat × Nat) × OutsideTag) :=
  [((k! "model/base.py", k! "get_template"), .packageTemplateFile)]

/-- process-wide memoised functions reviewed as functions of their arguments only (strings, flags, a compiled pattern): the
translator finds no path-like parameter and no call that reads the file system / environment / clock in them. A NEW memoised
function is on neither list. -/
def reviewedPureCaches : List (Nat × Nat) :=
  [(k! "imports.py", k! "Import.from_full_path"),
   (k! "parser/jsonschema.py", k! "get_ref_type"),
   (k! "reference.py", k! "camel_to_snake"),
   (k! "reference.py", k! "get_singular_name"),
   (k! "reference.py", k! "snake_to_upper_camel"),
   (k! "types.py", k! "_remove_none_from_type"),
   (k! "types.py", k! "get_optional_type")]

/-! ### generic definitions used by the lemmas -/

/-- a memo table and lookup-or-compute (`functools.lru_cache` without eviction) -/
abbrev Cache (α β : Type) := List (α × β)

def cached [BEq α] (f : α → β) (c : Cache α β) (x : α) : β × Cache α β :=
  match c.lookup x with
  | some y => (y, c)
  | none => (f x, (x, f x) :: c)

/-- a cache only ever holds pairs `(x, f x)` -/
def Sound (f : α → β) (c : Cache α β) : Prop := ∀ p ∈ c, p.2 = f p.1

/-- a whole history of calls through the cache: results in call order, final cache -/
def runCalls [BEq α] (f : α → β) : Cache α β → List α → List β × Cache α β
  | c, [] => ([], c)
  | c, x :: xs =>
    let r := cached f c x
    let rest := runCalls f r.2 xs
    (r.1 :: rest.1, rest.2)

/-- the text of a path (`p.as_posix()`) or of one of its components (`p.name`): its code points -/
abbrev Str := List Nat

/-- Python's `<=` on `str`: lexicographic by code point, a proper prefix is smaller -/
def strLe : Str → Str → Bool
  | [], _ => true
  | _ :: _, [] => false
  | a :: as, b :: bs => a < b || (a == b && strLe as bs)

/-- Python's `<=` on the tuples `(p.name, p.as_posix())` built by the key of `Parser.iter_source`: the first components
decide unless they are equal, then the second ones do. `name` is whatever maps a path to its last component — nothing below
depends on which function it is. -/
def keyLe (name : Str → Str) (a b : Str) : Bool :=
  if name a = name b then strLe a b else strLe (name a) (name b)

/-- `sorted(listing, key=lambda p: (p.name, p.as_posix()))`: a stable sort comparing these tuples only (for a total order
`not (key b < key a)`, which is what the sort asks, is `key a <= key b`) -/
def iterSourceOrder (name : Str → Str) (listing : List Str) : List Str := listing.mergeSort (keyLe name)

/-- the sort of the code before the repair of C08-basename, `key=lambda p: p.name` — kept ONLY to state that the repair
leaves the order of directories with pairwise distinct basenames as it was; nothing in the code has this shape any more -/
def basenameOnlyOrder (name : Str → Str) (listing : List Str) : List Str :=
  listing.mergeSort (fun a b => strLe (name a) (name b))

/-- `get_first_file` on a directory: `for child in sorted(path.rglob("*")): if child.is_file(): return child` (`none` = the
loop ends without a file: "File not found"). `le` is the natural order of the entries (for `Path` objects the comparison of
their component lists, a total order like `strLe`; nothing below depends on which one). -/
def firstFile (le : α → α → Bool) (isFile : α → Bool) (listing : List α) : Option α := (listing.mergeSort le).find? isFile

/-- `PurePath.name` on the text of a path: what follows the last `/` (code point 47) -/
def basename (p : Str) : Str := (p.reverse.takeWhile (· != 47)).reverse

/-- function update (`setattr` / `d[k] = v`) -/
def update [DecidableEq κ] (m : κ → ν) (k : κ) (v : ν) : κ → ν := fun k' => if k' = k then v else m k'

end Dcg.Model.Determinism
