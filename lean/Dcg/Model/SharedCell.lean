/-
Where `Parser.__change_from_import` keeps the spelling of a cross-module use: in `DataType.alias` of the data-type
OBJECT. The modules are processed one after the other (deepest first) and rendered only after ALL of them were
processed, so a use reads whatever its object holds at the end.

  for model in models: for data_type in model.all_data_types:      # module `mod`
      …  alias = scoped_model_resolver.add(full_path, import_).name
      name = data_type.reference.short_name
      if from_ and import_ and alias != name:
          data_type.alias = alias if … else f"{alias}.{name}"       # written; NOT reset when alias == name

A cell = one data-type object (by identity). Objects are copied between models by `__override_required_field` /
`_copy_data_types` (a child naming an inherited member in `required` only), `__reuse_model`, `__collapse_root_models`;
a copy that is not deep leaves a cell reachable from two modules.
-/
namespace Dcg.Model.SharedCell

/-- the spelling of a use: `none` = the plain class name (the code writes nothing), `some a` = alias / `module.Class` -/
abbrev Spelling := Option (List Char)

/-- one cross-module use met while module `mod` is processed: the object it sits in and the spelling that module's
own import block gives it (computed per (module, use)) -/
structure Use where
  mod : Nat
  cell : Nat
  sp : Spelling
  deriving DecidableEq, Repr

/-- `DataType.alias` of every object -/
abbrev Store := Nat → Spelling

/-- the assignment guarded by `alias != name`: a plain spelling writes nothing (a stale alias stays) -/
def write (st : Store) (u : Use) : Store :=
  match u.sp with
  | none => st
  | some a => fun c => if c = u.cell then some a else st c

def run (st : Store) : List Use → Store
  | [] => st
  | u :: us => run (write st u) us

def empty : Store := fun _ => none

/-- what a use reads when its module is rendered: the object's alias after ALL modules were processed -/
def render (hist : List Use) (u : Use) : Spelling := run empty hist u.cell

/-- no object is reachable from two different modules (decidable) -/
def unshared (hist : List Use) : Bool :=
  hist.all (fun u => hist.all (fun v => u.cell != v.cell || u.mod == v.mod))

/-- inside one module the uses sitting in one object get one spelling (an object carries ONE reference and the
spelling is a function of (module, reference)) -/
def coherent (hist : List Use) : Bool :=
  hist.all (fun u => hist.all (fun v => u.cell != v.cell || u.mod != v.mod || u.sp == v.sp))

/-- the history a per-(module, reference) spelling function produces: `uses` = (module, object), `refOf` = the
reference an object carries -/
def histOf (sp : Nat → Nat → Spelling) (refOf : Nat → Nat) (uses : List (Nat × Nat)) : List Use :=
  uses.map (fun mc => { mod := mc.1, cell := mc.2, sp := sp mc.1 (refOf mc.2) })

end Dcg.Model.SharedCell
