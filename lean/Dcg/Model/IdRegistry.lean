import Dcg.Model.Resolver
/-!
Model of the `$id` registry of `ModelResolver` (reference.py) and of the walk `JsonSchemaParser.parse_id`
(parser/jsonschema.py) — C06, "every `$ref` — also an `$id`/anchor reference — lands on the model of the
referenced subschema".

    def parse_id(self, obj, path):
        if obj.id: self.model_resolver.add_id(obj.id, path)
        … for every keyword K the walk knows, for every subschema s under obj.K: self.parse_id(s, path)   # SAME path

    def add_id(self, id_, path):
        self.ids["/".join(self.current_root)][id_] = self.resolve_ref(path)

    def resolve_ref(self, path): …            # modelled by `resolveRefId` below, step by step

`_parse_file` runs `parse_id(root_obj, path_parts)` and then, for every entry of every container of named
schemas, `parse_id(entry, [*path_parts, "#/definitions", key])`, before any `$ref` is resolved.

WHICH keywords the walk knows is data of the source (`Gen.ResolverTables.parseIdDescends`, regenerated on every
run); the model takes the list as a parameter.

Modelled region of `resolve_ref` (everything else answers `Res.unmodelled`; the decidable predicate is `InScope`):
`current_base_path = base_path` (the input directory), no `base_url`; `current_root`, `root_id` (`None` or any
string) and the set of regular files of the input directory are fields of `Env`; references `#`, `#/pointer`,
`#anchor`, `file`, `file#…` with a plain relative `file` (no `.`/`..`/empty segments) and URLs. For a URL that is
not the root id while the root id is a URL too, `urlparse` is modelled for URLs over letters, digits and
`. - _ ~ : /` with a plain path; the file-system probe `target_path.exists()` is answered from `Env.files` when the
target lies in or below the URL directory of the root id; a target elsewhere is probed at a path that leaves the input
directory through `..` — ASSUMPTION of the model (and of the harness): nothing exists there, the URL is returned.
-/
namespace Dcg.Model.IdRegistry
open Dcg.Model.Resolver

/-! ### the schema tree `parse_id` walks -/

/-- A schema object as the list of its entries (first-child / next-sibling form): an `$id` or a subschema standing
under keyword `kw`; `seg` is what the JSON pointer of the child adds below the keyword (`x` for `properties/x`, `0` for
`anyOf/0`, empty for a single `items` / `additionalProperties`). -/
inductive ISch where
  | nil
  /-- this object has `$id: s` (`s` non-empty: `if obj.id:`) -/
  | id (s : Str) (rest : ISch)
  | sub (kw seg : Str) (child : ISch) (rest : ISch)
  deriving Repr, Inhabited

/-- the `$id`s the walk hands to `add_id` when it descends exactly into the keywords `kws` -/
def collectIds (kws : List Str) : ISch → List Str
  | .nil => []
  | .id s rest => s :: collectIds kws rest
  | .sub kw _ child rest => (if kw ∈ kws then collectIds kws child else []) ++ collectIds kws rest

/-- every `$id` written anywhere in the schema -/
def allIds : ISch → List Str
  | .nil => []
  | .id s rest => s :: allIds rest
  | .sub _ _ child rest => allIds child ++ allIds rest

def keywordsOf : ISch → List Str
  | .nil => []
  | .id _ rest => keywordsOf rest
  | .sub kw _ child rest => kw :: (keywordsOf child ++ keywordsOf rest)

/-- JSON pointer of a child: `ptr/kw` or `ptr/kw/seg` -/
def childPtr (ptr kw seg : Str) : Str := ptr ++ ['/'] ++ kw ++ (if seg = [] then [] else '/' :: seg)

/-- every `$id` written in the schema together with the JSON pointer of the object that declares it,
`ptr` being the pointer of the walked object -/
def idsWithPtr (ptr : Str) : ISch → List (Str × Str)
  | .nil => []
  | .id s rest => (s, ptr) :: idsWithPtr ptr rest
  | .sub kw seg child rest => idsWithPtr (childPtr ptr kw seg) child ++ idsWithPtr ptr rest

/-- the `$id`s declared on the walked object itself -/
def topIds : ISch → List Str
  | .nil => []
  | .id s rest => s :: topIds rest
  | .sub _ _ _ rest => topIds rest

/-! ### a Python `dict[str, str]` in insertion order -/

def idGet : List (Str × Str) → Str → Option Str
  | [], _ => none
  | (k', v') :: m, k => if k' = k then some v' else idGet m k

/-- `m[k] = v` -/
def idPut : List (Str × Str) → Str → Str → List (Str × Str)
  | [], k, v => [(k, v)]
  | (k', v') :: m, k, v => if k' = k then (k, v) :: m else (k', v') :: idPut m k v

/-! ### resolver environment -/

structure Env where
  /-- `current_root` -/
  root : List Str
  /-- `root_id` (`root_id_context` stores `root_raw.get("$id") or None`) -/
  rootId : Option Str
  /-- the relative paths `f` with `Path(base_path, f).is_file()` -/
  files : List Str
  /-- `ids["/".join(current_root)]` -/
  ids : List (Str × Str)
  deriving DecidableEq, Repr

def rootJ (e : Env) : Str := joinWith ['/'] e.root

/-- `s.rsplit("/", 1)[0]` for an `s` that contains `/` -/
def beforeLastSlash (s : Str) : Str := ((s.reverse.dropWhile (· != '/')).drop 1).reverse

/-- `root_id_base_path` as `resolve_ref` uses it (`if self.root_id_base_path`: `None` and `""` are both false) -/
def rootIdBase (e : Env) : Option Str :=
  match e.rootId with
  | none => none
  | some r =>
    if r.contains '/' then (let b := beforeLastSlash r; if b = [] then none else some b) else none

/-! ### `urlparse` on the modelled URLs -/

def urlChar (c : Char) : Bool :=
  isAsciiLetter c || isAsciiDigit c || c == '.' || c == '-' || c == '_' || c == '~' || c == ':' || c == '/'

structure Url where
  scheme : Str
  netloc : Str
  /-- directory part of the path, without the leading and the trailing `/` (`[]` = the URL root) -/
  dir : Str
  name : Str
  deriving DecidableEq, Repr

/-- `urlparse(u)` + `Path(.path).parent` / `.name` for `u = http(s)://netloc/plain/path` over `urlChar`;
`none` = outside the modelled URLs -/
def parseUrl (u : Str) : Option Url :=
  let go (scheme rest : Str) : Option Url :=
    if rest.all urlChar then
      let netloc := rest.takeWhile (· != '/')
      match rest.dropWhile (· != '/') with
      | '/' :: p0 =>
        let p := if p0.getLast? = some '/' then p0.dropLast else p0     -- `Path("/a/b/")` is `/a/b`
        if p = [] then some { scheme := scheme, netloc := netloc, dir := [], name := [] }   -- `Path("/")`
        else if plainRel p then
          some { scheme := scheme, netloc := netloc, dir := beforeLastSlash p, name := afterLastSlash p }
        else none
      | _ => none
    else none
  if startsWith "https://".toList u then go "https".toList (u.drop 8)
  else if startsWith "http://".toList u then go "http".toList (u.drop 7)
  else none

/-- `Path(base_path, p).exists()`: a regular file of the input directory or a directory above one -/
def existsIn (files : List Str) (p : Str) : Bool :=
  files.contains p || files.any (fun f => (p ++ ['/']).isPrefixOf f)

/-- `get_relative_path(Path(root dir), Path(target dir))` when the target directory is the root-id directory or lies
below it (`some []` / `some rest`); `none` = the relative path begins with `..` (it leaves the input directory) -/
def below (rootDir targetDir : Str) : Option Str :=
  if targetDir = rootDir then some []
  else if rootDir = [] then some targetDir
  else if (rootDir ++ ['/']).isPrefixOf targetDir then some (targetDir.drop (rootDir.length + 1))
  else none

/-! ### `resolve_ref` -/

/-- first step: a reference that neither begins with `#` nor is a URL is a file reference relative to
`current_base_path` (= the input directory in the model) and is normalised; `none` = not a plain relative path -/
def pre (r : Str) : Option Str :=
  if r.head? ≠ some '#' ∧ isUrl r = false then
    let fo := splitHash r
    if plainRel fo.1 then some (fo.1 ++ (match fo.2 with | some o => '#' :: o | none => [])) else none
  else some r

/-- second step: an id reference is looked up (`KeyError` when it is not registered); anything else gets its `#`,
a local pointer gets the current root in front, and under a root id with a directory part a file that is not a
regular file of the input directory gets that directory in front -/
def mid (e : Env) (j : Str) : Res :=
  if isIdRef j then
    match idGet e.ids j with
    | some v => .ok v
    | none => .raised
  else
    let j := if j.contains '#' = false then j ++ ['#'] else if j.head? = some '#' then rootJ e ++ j else j
    match rootIdBase e with
    | some b => if isUrl j || e.files.contains (splitHash j).1 then .ok j else .ok (b ++ ['/'] ++ j)
    | none => .ok j

/-- last step (no `base_url`): a URL whose file part is the root id is the current document; a URL of the host and
directory of the root id that exists as a file of the input directory is that file -/
def urlStep (e : Env) (ref : Str) : Res :=
  if isUrl ref then
    match splitHash ref with
    | (_, none) => .raised                      -- `file_part, path_part = ref.split("#", 1)`
    | (fp, some pp) =>
      if some fp = e.rootId then .ok (rootJ e ++ ['#'] ++ pp)
      else match e.rootId with
        | none => .ok ref
        | some rid =>
          if isUrl rid then
            match parseUrl fp, parseUrl rid with
            | some t, some r =>
              if t.scheme = r.scheme ∧ t.netloc = r.netloc then
                match below r.dir t.dir with
                | some rel =>
                  let cand := (if rel = [] then [] else rel ++ ['/']) ++ t.name
                  -- an empty `cand` is the input directory itself: it exists, and `str(Path())` is `.`
                  (if cand = [] then .ok ('.' :: '#' :: pp)
                   else if existsIn e.files cand then .ok (cand ++ ['#'] ++ pp) else .ok ref)
                | none => .ok ref       -- assumption: nothing outside the input directory is met by `..`
              else .ok ref
            | _, _ => .unmodelled
          else if rid.contains ':' then .unmodelled   -- `urlparse` may find a scheme
          else .ok ref
  else .ok ref

/-- `ModelResolver.resolve_ref(r)` for a string `r` -/
def resolveRefId (e : Env) (r : Str) : Res :=
  if r = ['#'] then .ok (rootJ e ++ ['#'])
  else if r = [] then .raised                       -- `joined_path[0]`
  else match pre r with
    | none => .unmodelled
    | some j =>
      match mid e j with
      | .ok ref => urlStep e ref
      | x => x

/-- the decidable region in which the model answers -/
def InScope (e : Env) (r : Str) : Bool := resolveRefId e r != .unmodelled

/-! ### `add_id`, `parse_id` -/

/-- `add_id(id_, path)`; `none` = `resolve_ref(path)` raised or is outside the model -/
def addId (e : Env) (path : List Str) (i : Str) : Option Env :=
  match resolveRefId e (joinPath path) with
  | .ok v => some { e with ids := idPut e.ids i v }
  | _ => none

def addIds (e : Env) (path : List Str) : List Str → Option Env
  | [] => some e
  | i :: is => match addId e path i with
    | some e' => addIds e' path is
    | none => none

/-- `parse_id(obj, path)` for a walk that descends into `kws` -/
def parseId (kws : List Str) (e : Env) (path : List Str) (t : ISch) : Option Env :=
  addIds e path (collectIds kws t)

/-- the `parse_id` prelude of `_parse_file`: the root object, then every entry of the containers -/
def parseIds (kws : List Str) (e : Env) : List (List Str × ISch) → Option Env
  | [] => some e
  | (path, t) :: rest => match parseId kws e path t with
    | some e' => parseIds kws e' rest
    | none => none

end Dcg.Model.IdRegistry
