/-
Dcg.Model.GraphqlOrder — which names a GraphQL union alias evaluates when the generated module is
executed, and in which order the GraphQL front end emits its definitions.

A union becomes `Name: TypeAlias = <right-hand side>`; unlike the annotations of class members (the
module starts with `from __future__ import annotations`, so they are never evaluated at import) the
right-hand side of an alias IS evaluated at import. A member written between quotes is a forward
reference (a string), a member written bare is a name lookup that needs the member class to exist.

* `UTpl`, `UCond`, `USite`  abstract syntax of `model/template/Union.jinja2` as far as the alias
                            statement goes; regenerated from the template on every run
                            (`Dcg/Gen/GraphqlTables.unionTemplate`, vlib/translate/graphql_tables.py):
                            the `{% if %}` tree, its conditions, every `{{ … }}` site with the Python
                            lexical state (code / inside a string literal / inside a comment) it sits in
* `occs`                    the member-name occurrences of the rendered alias for given members and
                            template variables, each with "is it evaluated eagerly?"
* `safeFrom`, `safeOther`   decidable side conditions on a template (checked by the kernel on the
                            generated value)
* `Def`, `refs`             a named GraphQL type as the parser sees it; its `reference_classes`
                            (interfaces, and the fields whose named type is an enum — `parse_field`
                            attaches a `Reference` to enum leaves only)
* `results`                 `parse_raw`: for every kind of `parse_order`, the types of that kind in
                            `schema.type_map` order
* `pass`, `sortLoop`, `emitOrder`   `sort_data_models` on those results (a model is placed when all
                            its reference classes are placed, otherwise it waits for the next pass)
-/
namespace Dcg.Model.GraphqlOrder

abbrev Name := List Char

/-! ### the alias template -/

/-- Python lexical state at a `{{ … }}` site -/
inductive Lex where
  | code | str | comment
  deriving Repr, DecidableEq, Inhabited

inductive UCond where
  | tt
  /-- `fields | length > k` -/
  | lenGt (k : Nat)
  /-- truthiness of a template variable (an entry of `extra_template_data[<union name>]`) -/
  | var (name : String)
  | not (c : UCond)
  | and (a b : UCond)
  | or (a b : UCond)
  /-- a test the translator has no word for -/
  | unknown (text : String)
  deriving Repr, Inhabited

inductive USite where
  /-- `{{ class_name }}` -/
  | className
  /-- `{{ fields[0].name }}` -/
  | firstMember
  /-- every `field.name` in order: `{% for field in fields %}…{{ field.name }}…{% endfor %}` or
  `{{ fields | map(attribute='name') | join(sep) }}` -/
  | eachMember
  /-- any other expression -/
  | other (expr : String)
  deriving Repr, DecidableEq, Inhabited

/-- the template as a sequence: a site followed by the rest, or an `if` followed by the rest -/
inductive UTpl where
  | done
  | site (s : USite) (lex : Lex) (rest : UTpl)
  | ite (c : UCond) (t e rest : UTpl)
  deriving Repr, Inhabited

/-- a `{{ … }}` occurrence in the rendered alias statement -/
inductive Occ where
  | member (n : Name) (eager : Bool)
  | other (expr : String) (eager : Bool)
  deriving Repr, DecidableEq

def Occ.eager : Occ → Bool
  | .member _ e => e
  | .other _ e => e

/-- jinja2 truthiness of a condition; `none` = the model does not know -/
def evalCond (env : String → Bool) (n : Nat) : UCond → Option Bool
  | .tt => some true
  | .lenGt k => some (decide (k < n))
  | .var v => some (env v)
  | .not c => (evalCond env n c).map (fun b => !b)
  | .and a b =>
    match evalCond env n a, evalCond env n b with
    | some x, some y => some (x && y)
    | _, _ => none
  | .or a b =>
    match evalCond env n a, evalCond env n b with
    | some x, some y => some (x || y)
    | _, _ => none
  | .unknown _ => none

/-- occurrences one site contributes (`none`: jinja2 raises — `fields[0]` of an empty list) -/
def siteOccs (members : List Name) : USite → Lex → Option (List Occ)
  | _, .comment => some []
  | .className, _ => some []
  | .firstMember, l =>
    match members with
    | [] => none
    | m :: _ => some [.member m (l == .code)]
  | .eachMember, l => some (members.map (fun m => .member m (l == .code)))
  | .other e, l => some [.other e (l == .code)]

/-- the occurrences of the rendered alias, in text order -/
def occs (env : String → Bool) (members : List Name) : UTpl → Option (List Occ)
  | .done => some []
  | .site s l rest =>
    match siteOccs members s l, occs env members rest with
    | some a, some b => some (a ++ b)
    | _, _ => none
  | .ite c t e rest =>
    match evalCond env members.length c with
    | none => none
    | some true =>
      match occs env members t, occs env members rest with
      | some a, some b => some (a ++ b)
      | _, _ => none
    | some false =>
      match occs env members e, occs env members rest with
      | some a, some b => some (a ++ b)
      | _, _ => none

/-- the member names the alias statement looks up when the module is executed -/
def eagerMembers (os : List Occ) : List Name :=
  os.filterMap (fun o => match o with | .member n true => some n | _ => none)

/-- the member names written as forward references -/
def quotedMembers (os : List Occ) : List Name :=
  os.filterMap (fun o => match o with | .member n false => some n | _ => none)

/-- what is known of a condition when only `lo ≤ fields|length` is known (`lo = 1`: the union has a
member, which GraphQL requires; `lo = 2`: two or more) -/
def condFrom (lo : Nat) : UCond → Option Bool
  | .tt => some true
  | .lenGt k => if k < lo then some true else none
  | .var _ => none
  | .not c => (condFrom lo c).map (fun b => !b)
  | .and a b =>
    match condFrom lo a, condFrom lo b with
    | some false, _ => some false
    | _, some false => some false
    | some true, some true => some true
    | _, _ => none
  | .or a b =>
    match condFrom lo a, condFrom lo b with
    | some true, _ => some true
    | _, some true => some true
    | some false, some false => some false
    | _, _ => none
  | .unknown _ => none

/-- a site that cannot make the alias evaluate a name: the alias target, or not in code -/
def siteDeferred : USite → Lex → Bool
  | .className, _ => true
  | _, .code => false
  | _, _ => true

/-- SIDE CONDITION: on every path a union of `lo` or more members can take — whatever the template
variables are — every member (and every other expression) is outside code. `safeFrom 1`: no union
alias evaluates anything; `safeFrom 2` is what held of the template before the one-member form quoted
its member. -/
def safeFrom (lo : Nat) : UTpl → Bool
  | .done => true
  | .site s l rest => siteDeferred s l && safeFrom lo rest
  | .ite c t e rest =>
    (match condFrom lo c with
      | some true => safeFrom lo t
      | some false => safeFrom lo e
      | none => safeFrom lo t && safeFrom lo e) && safeFrom lo rest

/-- SIDE CONDITION: no expression other than the class name and the member names is in code, on any path -/
def safeOther : UTpl → Bool
  | .done => true
  | .site (.other _) .code _ => false
  | .site _ _ rest => safeOther rest
  | .ite _ t e rest => safeOther t && safeOther e && safeOther rest

/-- SIDE CONDITION: the translator understood every test of the template -/
def condKnown : UCond → Bool
  | .unknown _ => false
  | .not c => condKnown c
  | .and a b => condKnown a && condKnown b
  | .or a b => condKnown a && condKnown b
  | _ => true

def tplKnown : UTpl → Bool
  | .done => true
  | .site _ _ rest => tplKnown rest
  | .ite c t e rest => condKnown c && tplKnown t && tplKnown e && tplKnown rest

/-- the template variables a template looks at -/
def condVars : UCond → List String
  | .var v => [v]
  | .not c => condVars c
  | .and a b => condVars a ++ condVars b
  | .or a b => condVars a ++ condVars b
  | _ => []

def tplVars : UTpl → List String
  | .done => []
  | .site _ _ rest => tplVars rest
  | .ite c t e rest => condVars c ++ tplVars t ++ tplVars e ++ tplVars rest

/-- REFUTER of `safeFrom 1`: a set of true template variables and a member count (from 1 up to the
smallest count above every `length >` bound) under which some member is evaluated eagerly. -/
def maxLen : UCond → Nat
  | .lenGt k => k + 1
  | .not c => maxLen c
  | .and a b => max (maxLen a) (maxLen b)
  | .or a b => max (maxLen a) (maxLen b)
  | _ => 0

def tplMaxLen : UTpl → Nat
  | .done => 0
  | .site _ _ rest => tplMaxLen rest
  | .ite c t e rest => max (max (maxLen c) (tplMaxLen t)) (max (tplMaxLen e) (tplMaxLen rest))

def subsets : List String → List (List String)
  | [] => [[]]
  | v :: vs => (subsets vs) ++ (subsets vs).map (fun s => v :: s)

def probeMembers (n : Nat) : List Name := (List.range n).map (fun i => 'M' :: (toString i).toList)

def findEagerBranch (tpl : UTpl) : Option (List String × Nat) :=
  let vars := (tplVars tpl).eraseDups
  let counts := (List.range (tplMaxLen tpl + 2)).filter (fun n => 1 ≤ n)
  (counts.flatMap (fun n => (subsets vars).map (fun s => (s, n)))).find? (fun (s, n) =>
    match occs (fun v => s.contains v) (probeMembers n) tpl with
    | some os => os.any Occ.eager
    | none => true)

/-! ### which members the alias lists -/

/-- what is known of `k < fields|length`: `some b` = it is `b` -/
abbrev LenKnow := Nat → Option Bool

/-- two or more members -/
def know2 : LenKnow := fun k => if k < 2 then some true else none

/-- exactly one member -/
def know1 : LenKnow := fun k => some (decide (k < 1))

/-- a condition under partial knowledge of the member count (template variables unknown) -/
def condA (a : LenKnow) : UCond → Option Bool
  | .tt => some true
  | .lenGt k => a k
  | .var _ => none
  | .not c => (condA a c).map (fun b => !b)
  | .and x y =>
    match condA a x, condA a y with
    | some false, _ => some false
    | _, some false => some false
    | some true, some true => some true
    | _, _ => none
  | .or x y =>
    match condA a x, condA a y with
    | some true, _ => some true
    | _, some true => some true
    | some false, some false => some false
    | _, _ => none
  | .unknown _ => none

/-- the sites that end up in the alias statement: not the alias target, not in a comment -/
def liveSite : USite → Lex → List USite
  | _, .comment => []
  | .className, _ => []
  | s, _ => [s]

/-- the sequence of live sites of the rendered alias when it is THE SAME on every path the knowledge
allows (`none`: paths differ) -/
def shapeA (a : LenKnow) : UTpl → Option (List USite)
  | .done => some []
  | .site s l rest => (shapeA a rest).map (fun r => liveSite s l ++ r)
  | .ite c t e rest =>
    match shapeA a rest with
    | none => none
    | some r =>
      match condA a c with
      | some true => (shapeA a t).map (fun x => x ++ r)
      | some false => (shapeA a e).map (fun x => x ++ r)
      | none =>
        match shapeA a t, shapeA a e with
        | some x, some y => if x = y then some (x ++ r) else none
        | _, _ => none

/-- an occurrence without its lexical state: the member it names, or `none` for another expression -/
def Occ.forget : Occ → Option Name
  | .member n _ => some n
  | .other _ _ => none

def siteForget (members : List Name) : USite → List (Option Name)
  | .className => []
  | .firstMember => [members.head?]
  | .eachMember => members.map some
  | .other _ => [none]

/-! ### emission order -/

inductive Kind where
  | scalar | enum | interface | object | input | union
  deriving Repr, DecidableEq, Inhabited

/-- the `TypeKind` member names of graphql-core -/
def Kind.ofString : String → Option Kind
  | "SCALAR" => some .scalar
  | "ENUM" => some .enum
  | "INTERFACE" => some .interface
  | "OBJECT" => some .object
  | "INPUT_OBJECT" => some .input
  | "UNION" => some .union
  | _ => none

/-- a named type of the schema -/
structure Def where
  name : Name
  kind : Kind
  /-- `obj.interfaces` (object and interface types) -/
  interfaces : List Name := []
  /-- the named type of every field, in field order (object-like types) -/
  fieldTypes : List Name := []
  /-- `union_object.types` -/
  members : List Name := []
  deriving Repr, DecidableEq, Inhabited

def isEnum (defs : List Def) (n : Name) : Bool := defs.any (fun d => d.name == n && d.kind == .enum)

/-- `DataModel.reference_classes` of the model built for `d`: the base classes, and the data types
that carry a `Reference` — `parse_field` sets one on enum leaves only; a scalar, an enum and a union
model have none (`parse_union` gives its members `DataType()` without reference). -/
def refs (defs : List Def) (d : Def) : List Name :=
  match d.kind with
  | .interface | .object | .input => d.interfaces ++ d.fieldTypes.filter (isEnum defs)
  | _ => []

/-- what `sort_data_models` looks at -/
structure Node where
  name : Name
  refs : List Name
  deriving Repr, DecidableEq, Inhabited

/-- `parse_raw`: `for next_type in parse_order: for obj in support_graphql_types[next_type]: parse(obj)`;
`defs` is in `schema.type_map` order -/
def results (order : List Kind) (defs : List Def) : List Def :=
  order.flatMap (fun k => defs.filter (fun d => d.kind == k))

def nodes (order : List Kind) (defs : List Def) : List Node :=
  (results order defs).map (fun d => { name := d.name, refs := refs defs d })

/-- `not model.reference_classes - {model.path} - set(sorted_data_models)` -/
def ready (sorted : List Name) (d : Node) : Bool :=
  d.refs.all (fun r => r == d.name || sorted.contains r)

/-- one call of `sort_data_models`: walk the unsorted models in order; a ready one is placed at once
(and counts as placed for the models after it), the others are kept for the next call -/
def pass : List Name → List Node → List Name × List Node
  | sorted, [] => (sorted, [])
  | sorted, d :: ds =>
    if ready sorted d then pass (sorted ++ [d.name]) ds
    else
      let r := pass sorted ds
      (r.1, d :: r.2)

/-- the recursion of `sort_data_models`: another pass as long as the last one placed something.
`complete = false`: nothing could be placed although models are left — the real code then falls back
to its base-class / circular-reference handling (never for a valid GraphQL schema, whose interface
graph is acyclic); the model lists the rest in their order. -/
def sortLoop : Nat → List Name → List Node → List Name × Bool
  | _, sorted, [] => (sorted, true)
  | 0, sorted, todo => (sorted ++ todo.map (·.name), false)
  | fuel + 1, sorted, todo =>
    let r := pass sorted todo
    if r.1.length == sorted.length then (sorted ++ todo.map (·.name), false)
    else sortLoop fuel r.1 r.2

/-- order of the top-level definitions of the generated module -/
def emit (order : List Kind) (defs : List Def) : List Name × Bool :=
  sortLoop (nodes order defs).length [] (nodes order defs)

def emitOrder (order : List Kind) (defs : List Def) : List Name := (emit order defs).1

/-- placed by the very first pass (`early`) or only later (`late`) -/
def firstPass (order : List Kind) (defs : List Def) : List Name × List Node := pass [] (nodes order defs)

def early (order : List Kind) (defs : List Def) (n : Name) : Bool := (firstPass order defs).1.contains n

def late (order : List Kind) (defs : List Def) (n : Name) : Bool :=
  (firstPass order defs).2.any (fun d => d.name == n)

/-- `a` is bound when the line that defines `b` is executed -/
def definedBefore (l : List Name) (a b : Name) : Bool := (l.takeWhile (fun x => x != b)).contains a

/-- every name the alias of union `u` looks up at import is bound by then -/
def aliasResolves (tpl : UTpl) (env : String → Bool) (order : List Kind) (defs : List Def) (u : Def) : Bool :=
  match occs env u.members tpl with
  | none => false
  | some os => (eagerMembers os).all (fun m => definedBefore (emitOrder order defs) m u.name)

end Dcg.Model.GraphqlOrder
