/-
Dcg.Model.CodeSites — reviewed value classes of code-state sites whose text is produced by Python
code of the generator rather than by a template (the site list itself is generated:
`Dcg/Gen/CodeSites`, translator `vlib/translate/code_sites.py`).
-/
namespace Dcg.Model.CodeSites

/-- expressions that may stand between hand-written single quotes in the value of a class keyword
(`{{ key }}={{ value }}` of msgspec.jinja2): `field_name` is the first component of
`ModelResolver.get_valid_field_name_and_alias`, a sanitised Python identifier (C07) — it contains
neither a quote nor a backslash.  The wire name (`alias`, `property_name`, `original_name`) is raw
input and must go through `repr` instead. -/
def reviewedQuotedExprs : List String := ["field_name"]

/-- forms of a class keyword value: generator-authored constant text, a `repr`-rendered default, or
an expression between single quotes (allowed for the reviewed expressions only) -/
def safeForm (form : String) : Bool :=
  form == "const" || form == "represented_default" || form == "single-quoted"

def kwargSiteOK (s : String × String × String × List String) : Bool :=
  safeForm s.2.2.1 && s.2.2.2.all (fun e => reviewedQuotedExprs.contains e)

/-! ### the extra-key sanitiser (`JsonSchemaParser.get_field_extra_key`)

An extra schema key becomes a keyword NAME of `Field(...)` exactly for the field models with
`can_have_extra_keys` (pydantic v1); for the others it is a key of a `repr`-rendered dict (a string
literal: C10's literal theorems).  Under the `can_have_extra_keys` guard — or under no guard at all —
the ONLY reviewed form of a return path is `resolver`: the first component of
`ModelResolver.get_valid_field_name_and_alias` applied to the untouched key, which C07 proves to be an
identifier that is not a keyword.  `identity` (the key handed back as it came, e.g. behind
`key.isidentifier()` — true of every Python keyword) is accepted only where keys stay data. -/

def sanitiserPathOK (p : String × String × String) : Bool :=
  if p.1 == "not can_have_extra_keys" then p.2.1 == "resolver" || p.2.1 == "identity"
  else p.2.1 == "resolver"

/-- there is a binding for the field models that write keys as keyword names -/
def sanitiserBindsKeywordCase (p : String × String × String) : Bool :=
  p.1 == "can_have_extra_keys" || p.1 == "always"

end Dcg.Model.CodeSites
