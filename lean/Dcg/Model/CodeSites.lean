/-
Dcg.Model.CodeSites — reviewed value classes of code-state sites whose text is produced by Python
code of the generator rather than by a template (the site list itself is generated:
`Dcg/Gen/CodeSites`, translator `vlib/translate/code_sites.py`).
-/
namespace Dcg.Model.CodeSites

/-- expressions that may stand between hand-written single quotes in the value of a class keyword
(`{{ key }}={{ value }}` of msgspec.jinja2): `field_name` is the first component of
`ModelResolver.get_valid_field_name_and_alias`, a sanitised Python identifier (C07) — it contains
neither a quote nor a backslash.  The wire name (`alias`, `property_name`, `original_name`) is raw
input and must go through `repr` instead. -/
def reviewedQuotedExprs : List String := ["field_name"]

/-- forms of a class keyword value: generator-authored constant text, a `repr`-rendered default, or
an expression between single quotes (allowed for the reviewed expressions only) -/
def safeForm (form : String) : Bool :=
  form == "const" || form == "represented_default" || form == "single-quoted"

def kwargSiteOK (s : String × String × String × List String) : Bool :=
  safeForm s.2.2.1 && s.2.2.2.all (fun e => reviewedQuotedExprs.contains e)

end Dcg.Model.CodeSites
