import Dcg.Model.InferBridge
import Dcg.Model.Translate
/-
Dcg.Model.InferText — the seam of C16 once more, at the resolution of the TEXT (C16, type lists).

`InferBridge.toSchema` reads `{"type": [a, b, "null"]}` and `{"anyOf": [...]}` as one flattened `anyOf`
(the same JSON-Schema constraint). For the PARSER they are different inputs:

* `SchemaNode.to_schema()` (genson/schema/node.py) collects every strategy whose schema is nothing but
  `{"type": t}` — null, boolean, integer/number, string, an array without `items`, an object without
  `properties`/`required` — into ONE schema `{"type": t}` / `{"type": sorted([...])}`, puts it FIRST and
  the schemas with keywords after it; one schema stands alone, several are `{"anyOf": [...]}`;
* `JsonSchemaParser.get_data_type` on a type LIST: `data_type(data_types=[table[t] for t in type if t != "null"],
  is_optional="null" in type)` — the `null` entry exists only as the `is_optional` flag of that data type;
* `parse_item` on `anyOf`: `data_type(data_types=parse_combined_schema(...))`, every member through
  `parse_item`, the member's data type kept AS IT IS (a nested `Union`, with its flag):
      [null, 1, "a", {"k": 1}]  ↦  Union[Optional[Union[int, str]], K]

`TSchema` is the text, `toText` is `to_schema()`, `trT` the parser on these texts. Both are compared with the
code on every run without flattening (vlib/props/c16_hetero.py: `text.schema`, `text.tr`).
-/
namespace Dcg.Model.InferText
open Dcg.Sem Dcg.Model.Infer Dcg.Model.InferBridge Dcg.Model.Translate Dcg.Model.Constraints

/-- the names a `type` keyword can hold, in the order `sorted()` puts them -/
inductive TName where
  | array | boolean | integer | null | number | object | string
  deriving DecidableEq, Repr, Inhabited

/-- the schema text inference writes -/
inductive TSchema where
  /-- `{}` -/
  | empty
  /-- `{"type": t}` for one name, `{"type": [t1, t2, …]}` for several; no other keyword -/
  | types (ts : List TName)
  /-- `{"type": "array", "items": …}` -/
  | array (items : TSchema)
  /-- `{"type": "object", "properties": …, "required": …}` -/
  | object (props : List (Key × TSchema)) (req : List Key)
  | anyOf (members : List TSchema)
  deriving Repr, Inhabited

/-- the keyword-less strategies of a node as type names, sorted -/
def typeNames (nu bo st : Bool) (nm : Option NumT) (bareArr bareObj : Bool) : List TName :=
  (if bareArr then [.array] else []) ++ (if bo then [.boolean] else []) ++
  (if nm == some .integer then [.integer] else []) ++ (if nu then [.null] else []) ++
  (if nm == some .number then [.number] else []) ++ (if bareObj then [.object] else []) ++
  (if st then [.string] else [])

/-- `to_schema()`'s last step: the type list first, then the schemas with keywords -/
def joinText (ts : List TName) (others : List TSchema) : TSchema :=
  match (if ts.isEmpty then [] else [TSchema.types ts]) ++ others with
  | [] => .empty
  | [s] => s
  | ms => .anyOf ms

/-- the list strategy is active and its items node has no strategy: `{"type": "array"}` -/
def bareArr : Option Node → Bool
  | none => false
  | some items => items.isEmpty

mutual
def toText : Node → TSchema
  | .mk nu bo st nm ar ho ps rq =>
    joinText (typeNames nu bo st nm (bareArr ar) (ho && ps.isEmpty && rq.isEmpty))
      (arrText ar ++ (if ho && !(ps.isEmpty && rq.isEmpty) then [.object (toTextProps ps) rq] else []))
def arrText : Option Node → List TSchema
  | none => []
  | some items => if items.isEmpty then [] else [.array (toText items)]
def toTextProps : List (Key × Node) → List (Key × TSchema)
  | [] => []
  | (k, n) :: r => (k, toText n) :: toTextProps r
end

/-! ### the parser on these texts -/

/-- `DataTypeManager.get_data_type(Types.x)` through the type table, no keyword set -/
def tyOfName : TName → Ty
  | .array => .list .any           -- `List[Any]`
  | .boolean => .scalar .boolean {}
  | .integer => .scalar .integer {}
  | .null => .null
  | .number => .scalar .number {}
  | .object => .dict .any          -- `Dict[str, Any]`
  | .string => .scalar .string {}

/-- a data type with one alternative is rendered as that alternative -/
def mkUnion : List Ty → Ty
  | [t] => t
  | ts => .union ts

/-- `{"type": t}`: `parse_item` (array ↦ `parse_array_fields`, object ↦ the table, else `get_data_type`);
`{"type": [..]}`: `get_data_type` on a list — the `null` entry is the `is_optional` flag and nothing else -/
def typesTy : List TName → Ty
  | [t] => tyOfName t
  | ts =>
    let core := mkUnion ((ts.filter (· != .null)).map tyOfName)
    if ts.contains .null then .opt core else core

mutual
/-- `parse_item` in a nested place (no keyword of these texts is a constraint: no root types) -/
def trT (st : Style) : TSchema → Ty
  | .empty => .any
  | .types ts => typesTy ts
  | .array items => .list (trT st items)
  | .object ps rq => .model (trTProps st rq ps) (extraOf st .absent)
  -- `parse_combined_schema`: every member's data type as `parse_item` returned it
  | .anyOf ms => .union (trTAlts st ms)
def trTProps (st : Style) (rq : List Key) : List (Key × TSchema) → List (List Char × Bool × Cons × Ty)
  | [] => []
  | p :: ps => (p.1, rq.contains p.1, {}, trT st p.2) :: trTProps st rq ps
def trTAlts (st : Style) : List TSchema → List Ty
  | [] => []
  | s :: ss => trT st s :: trTAlts st ss
end

/-- a whole document with an object at its root (`parse_obj`: `{"type": "object"}` alone is an empty class) -/
def trTRoot (st : Style) (n : Node) : Ty :=
  if onlyEmptyObject n then .model [] (extraOf st .absent) else trT st (toText n)

/-! ### the other design: members that are unions are dissolved into the enclosing union -/

/-- the alternatives a member contributes when a member that is itself a plain union is replaced by ITS
alternatives: the member's data type — and with it its `is_optional` flag — is gone -/
def dissolveMember : Ty → List Ty
  | .opt (.union ts) => ts
  | .union ts => ts
  | t => [t]

def dissolveAlts : List Ty → List Ty
  | [] => []
  | t :: ts => dissolveMember t ++ dissolveAlts ts

/-- the repaired variant of that design: dissolve, but keep the flag as an alternative `None` -/
def dissolveMemberKeeping : Ty → List Ty
  | .opt (.union ts) => ts ++ [.null]
  | .union ts => ts
  | t => [t]

def dissolveAltsKeeping : List Ty → List Ty
  | [] => []
  | t :: ts => dissolveMemberKeeping t ++ dissolveAltsKeeping ts

/-- the enclosing union rebuilt by the other design / by its repaired variant -/
def dissolve : Ty → Ty
  | .union ts => .union (dissolveAlts ts)
  | t => t
def dissolveKeeping : Ty → Ty
  | .union ts => .union (dissolveAltsKeeping ts)
  | t => t

end Dcg.Model.InferText
