import Dcg.Py.Import
/-
Dcg.Model.Modules — executable model of how the generator spreads models over modules:

* `sanitizeModuleName`, `getModulePath`         (model/base.py)
* `relative`, `exactImportStr`                  (parser/base.py, transliterated on lists of names)
* `emitted` — the import `__change_from_import` writes (exact form, base classes, the extra
  dot for a package `__init__`)
* `procOrder`, `assign`, `fileMap`, `postTreatDot` — the module → file map of `Parser.parse()`
  (deepest first, gap filling, parent `__init__` creation, `__init__` promotion) and
  `__postprocess_result_modules`.

A name is a `List Char`; a module path is a list of names (a dotted string split at ".").
Agreement with the code is tested by the correspondence campaigns of `vlib/props/c12.py`.
-/
namespace Dcg.Model.Modules
open Dcg.Py.Import

/-! ### str.split(".") / ".".join -/

/-- `s.split(".")` (never empty: `"".split(".") = [""]`) -/
def splitDot : List Char → List Name
  | [] => [[]]
  | c :: cs =>
    if c = '.' then [] :: splitDot cs
    else match splitDot cs with
      | [] => [[c]]
      | h :: t => (c :: h) :: t

/-- `".".join(parts)` -/
def joinDot : List Name → List Char
  | [] => []
  | [a] => a
  | a :: b :: rest => a ++ '.' :: joinDot (b :: rest)

/-! ### sanitize_module_name / get_module_path -/

def isAsciiAlnum (c : Char) : Bool :=
  decide (('0' ≤ c ∧ c ≤ '9') ∨ ('a' ≤ c ∧ c ≤ 'z') ∨ ('A' ≤ c ∧ c ≤ 'Z'))

def isAsciiDigit (c : Char) : Bool := decide ('0' ≤ c ∧ c ≤ '9')

/-- `re.sub(r"[^0-9a-zA-Z_.]" | r"[^0-9a-zA-Z_]", "_", name)`, then `_` in front of a digit -/
def sanitizeModuleName (treatDot : Bool) (name : List Char) : List Char :=
  let s := name.map (fun c => if isAsciiAlnum c || c == '_' || (treatDot && c == '.') then c else '_')
  match s with
  | c :: _ => if isAsciiDigit c then '_' :: s else s
  | [] => s

/-- shape of an ASCII identifier: nonempty, `[A-Za-z_][A-Za-z0-9_]*` (keywords are not excluded) -/
def isAsciiIdentShape (s : List Char) : Bool :=
  match s with
  | [] => false
  | c :: _ => !isAsciiDigit c && s.all (fun c => isAsciiAlnum c || c == '_')

/-- `get_module_path(name, file_path, treat_dot_as_module=…)`.  `file` is `none` for a document
given as text, else `(file_path.parts[:-1], file_path.stem)` (pathlib is trusted). -/
def getModulePath (treatDot : Bool) (name : List Char) (file : Option (List Name × Name)) : MPath :=
  match file with
  | some (dirParts, stem) => dirParts ++ [sanitizeModuleName treatDot stem] ++ (splitDot name).dropLast
  | none => (splitDot name).dropLast

def getModuleName (treatDot : Bool) (name : List Char) (file : Option (List Name × Name)) : List Char :=
  joinDot (getModulePath treatDot name file)

/-! ### relative / exact_import -/

/-- every component is a nonempty string (dotted names never have empty components) -/
def namesNonempty (l : MPath) : Bool := l.all (fun x => !x.isEmpty)

/-- the loop `for x, y in zip(cur, ref): if x != y: break; i += 1` -/
def commonLen : MPath → MPath → Nat
  | x :: xs, y :: ys => if x = y then commonLen xs ys + 1 else 0
  | _, _ => 0

/-- A relative import in structured form: `from <dots × "."><pkg joined by "."> import <name>`.
`isModule`: the imported name is a submodule (the class is then used as `name.Class`);
otherwise the imported name is the class itself. -/
structure RelImport where
  dots : Nat
  pkg : List Name
  name : Name
  isModule : Bool
  deriving DecidableEq, Repr

/-- `relative(current_module, reference)` with `current_module = ".".join(cur)` and
`reference = ".".join(refPath ++ [name])`.  `none` is the `("", "")` answer (same module). -/
def relative (cur refPath : MPath) (name : Name) : Option RelImport :=
  if cur = refPath then none
  else
    let i := commonLen cur refPath
    let nDots := cur.length - i            -- left = "." * (len(current_module_path) - i)
    let r := refPath.drop i                -- right = ".".join(reference_path[i:])
    let dots := if nDots = 0 then 1 else nDots        -- if not left: left = "."
    -- if not right: right = name
    -- elif "." in right: extra, right = right.rsplit(".", 1); left += extra
    if joinDot r = [] then some ⟨dots, [], name, false⟩
    else some ⟨dots, r.dropLast, r.getLast?.getD [], true⟩

/-- the two strings `relative` returns -/
def renderFrom (dots : Nat) (pkg : List Name) : List Char := List.replicate dots '.' ++ joinDot pkg

def renderRel : Option RelImport → List Char × List Char
  | none => ([], [])
  | some r => (renderFrom r.dots r.pkg, r.name)

/-- string level: `relative(current_module: str, reference: str)` -/
def relativeStr (cur ref : List Char) : List Char × List Char :=
  let curPath := if cur = [] then [] else splitDot cur
  let parts := splitDot ref
  renderRel (relative curPath parts.dropLast (parts.getLast?.getD []))

/-- `exact_import(from_, import_, short_name)` on strings, literally -/
def exactImportStr (from_ import_ short : List Char) : List Char × List Char :=
  if from_.all (· == '.') then (from_ ++ import_, short)
  else (from_ ++ '.' :: import_, short)

/-- `exact_import` on the structured form: the imported name joins the package, the class is
imported from there. -/
def exactImport (r : RelImport) (cls : Name) : RelImport :=
  ⟨r.dots, r.pkg ++ [r.name], cls, false⟩

/-- The import `__change_from_import` appends for a model of module `cur` that refers to class
`cls` of module `refPath`: `relative`, made exact under `--use-exact-imports` and always for a
base class; one more dot when the importer was decided to be a package `__init__` — unless the
importee lies below that package (`f"{importee}.".startswith(f"{importer}.")`: `relative` already
answers with the single dot that addresses the package's own sub-modules). On dotted strings the
test is never true for an importer with the empty module name (`"."` is no prefix of `"a."`);
the root is processed with `init = False` anyway. -/
def emitted (cur : MPath) (codeInit exact isBase : Bool) (refPath : MPath) (cls : Name) :
    Option RelImport :=
  match relative cur refPath cls with
  | none => none
  | some r =>
    let r := if exact || isBase then exactImport r cls else r
    some { r with dots := r.dots + (if codeInit && !(!cur.isEmpty && cur.isPrefixOf refPath) then 1 else 0) }

/-- the module a structured import designates, by Python's rule, from the importer's location -/
def designated (importer : MPath) (pyInit : Bool) (r : RelImport) : Option MPath :=
  Dcg.Py.Import.resolveFrom importer pyInit r.dots (if r.isModule then r.pkg ++ [r.name] else r.pkg)

/-! ### module → file map of `Parser.parse()` -/

inductive FileKey where
  | init (dir : MPath)               -- dir/__init__.py
  | py (dir : MPath) (stem : Name)   -- dir/stem.py
  deriving DecidableEq, Repr

def FileKey.isInit : FileKey → Bool
  | .init _ => true
  | .py _ _ => false

/-- directory the file lives in -/
def FileKey.dir : FileKey → MPath
  | .init d => d
  | .py d _ => d

/-- the module name Python gives the file -/
def FileKey.modulePath : FileKey → MPath
  | .init d => d
  | .py d s => d ++ [s]

/-- one entry of `module_models`: a module path and whether it has models (gap fillers have none) -/
structure Proc where
  mod : MPath
  hasModels : Bool
  deriving DecidableEq, Repr

/-- `previous_module[:parts] for parts in range(len(previous_module) - 1, len(module), -1)` -/
def fillGap (prev next : MPath) : List MPath :=
  ((List.range (prev.length - 1 - next.length)).map (fun j => prev.take (prev.length - 1 - j)))

/-- `module_models`, from the module paths in the order `groupby(sorted(…, reverse=True))` yields -/
def procFrom (prev : MPath) : List MPath → List Proc
  | [] => []
  | m :: rest => (fillGap prev m).map (⟨·, false⟩) ++ ⟨m, true⟩ :: procFrom m rest

def procOrder (mods : List MPath) : List Proc := procFrom [] mods

structure Assigned where
  mod : MPath
  hasModels : Bool
  key : FileKey
  init : Bool        -- the `init` flag handed to `__change_from_import`
  deriving DecidableEq, Repr

def addParent (res : List FileKey) (m : MPath) : List FileKey :=
  if m = [] then res
  else if FileKey.init m.dropLast ∈ res then res else res ++ [FileKey.init m.dropLast]

/-- first loop over `module_models`: `results` holds the parent `__init__.py` keys created so far -/
def assignOne (res : List FileKey) (p : Proc) : Assigned :=
  if p.mod = [] then ⟨p.mod, p.hasModels, .init [], false⟩
  else if FileKey.init p.mod ∈ addParent res p.mod then ⟨p.mod, p.hasModels, .init p.mod, true⟩
  else ⟨p.mod, p.hasModels, .py p.mod.dropLast (p.mod.getLast?.getD []), false⟩

def assign (res : List FileKey) : List Proc → List Assigned
  | [] => []
  | p :: ps => assignOne res p :: assign (addParent res p.mod) ps

def parentsAfter (res : List FileKey) : List Proc → List FileKey
  | [] => res
  | p :: ps => parentsAfter (addParent res p.mod) ps

/-- body of a file: the module whose models it holds, `none` = empty body -/
abbrev FileMap := List (FileKey × Option MPath)

def upsert (fm : FileMap) (k : FileKey) (v : Option MPath) : FileMap :=
  match fm with
  | [] => [(k, v)]
  | (k', v') :: rest => if k' = k then (k, v) :: rest else (k', v') :: upsert rest k v

/-- last loop: `if not result and not init: continue; results[module] = Result(body=…)` -/
def renderLoop (fm : FileMap) : List Assigned → FileMap
  | [] => fm
  | a :: as =>
    if a.hasModels || a.init then renderLoop (upsert fm a.key (if a.hasModels then some a.mod else none)) as
    else renderLoop fm as

/-- the dict `parse()` builds before the final renaming (names without "-" and "." are kept) -/
def fileMap (mods : List MPath) : FileMap :=
  let procs := procOrder mods
  renderLoop ((parentsAfter [] procs).map (·, none)) (assign [] procs)

def keys (fm : FileMap) : List FileKey := fm.map (·.1)

/-- the `init` flag and file of module `m` -/
def assignedOf (mods : List MPath) (m : MPath) : Option Assigned :=
  (assign [] (procOrder mods)).find? (·.mod = m)

/-- nonempty proper prefixes -/
def properPrefixes (m : MPath) : List MPath :=
  (List.range (m.length - 1)).map (fun j => m.take (j + 1))

/-- every package between the root and a processed module is processed as well (the gap filler
reached it).  Decidable; it is FALSE on some inputs of the pinned tree, see `Props/C12`. -/
def covered (mods : List MPath) : Bool :=
  (procOrder mods).all (fun p => (properPrefixes p.mod).all (fun q => (procOrder mods).any (·.mod = q)))

/-- deepest first: what `sorted(key=(len, path), reverse=True)` guarantees and the proofs use -/
def deepestFirst : List MPath → Bool
  | [] => true
  | m :: rest => rest.all (fun x => x.length ≤ m.length) && deepestFirst rest

/-! ### `__postprocess_result_modules` (treat_dot_as_module) -/

def nonemptyPrefixes (d : MPath) : List MPath :=
  (List.range d.length).map (fun j => d.take (j + 1))

/-- every `__init__.py` of every (nonempty) folder prefix is set to the *first* `__init__.py`
result of the dict -/
def postTreatDot (fm : FileMap) : FileMap :=
  match fm.find? (·.1.isInit) with
  | none => fm
  | some (_, body) =>
    (fm.flatMap (fun e => nonemptyPrefixes e.1.dir)).foldl (fun acc d => upsert acc (.init d) body) fm

def fileMapOpt (treatDot : Bool) (mods : List MPath) : FileMap :=
  if treatDot then postTreatDot (fileMap mods) else fileMap mods

/-- never both `x.py` and a file below `x/` -/
def shadowFree (ks : List FileKey) : Bool :=
  ks.all (fun k => match k with
    | .py d s => ks.all (fun k' => !((d ++ [s]).isPrefixOf k'.dir))
    | .init _ => true)

/-- every package directory between the output root and a file has an `__init__.py` -/
def parentsHaveInit (ks : List FileKey) : Bool :=
  ks.all (fun k => (nonemptyPrefixes k.dir).all (fun d => ks.contains (.init d)))

/-! ### the names `__change_from_import` gives to imports (the module-scoped `ModelResolver`)

`parse()` creates one `ModelResolver(exclude_names = all member names of the module)` per module.
`__change_from_import` first registers every class of the module under its own name
(`scoped_model_resolver.add([model.path], model.class_name)` for ALL models), and only then walks the
models again and asks the resolver for a name for every foreign reference
(`alias = scoped_model_resolver.add(full_path, import_).name`). A name differing from the class name
becomes `import … as alias`. That the first pass is complete before the second starts is what keeps an
import from taking the name of a class that is defined later in the same module. -/

/-- one `Reference` of the scoped resolver: joined path (the dict key), `original_name`, `name` -/
structure ScopeEnt where
  key : List Char
  orig : List Char
  name : List Char
  deriving DecidableEq, Repr

/-- `ModelResolver.references` (insertion order) and `exclude_names` -/
structure Scope where
  refs : List ScopeEnt
  excl : List (List Char)
  deriving DecidableEq, Repr

/-- `{r.name for r in self.references.values()} | self.exclude_names` -/
def Scope.taken (s : Scope) : List (List Char) := s.refs.map (·.name) ++ s.excl

/-- what `_get_unique_name(name)` tries at the `k`-th test of its loop condition: `name`, `name_1`,
`name_2`, … (`"_".join(str(p) for p in [name, count] if p)`; no `duplicate_name_suffix`, `camel=False`) -/
def aliasCandidate (name : List Char) : Nat → List Char
  | 0 => name
  | k + 1 => (if name = [] then [] else name ++ ['_']) ++ Nat.toDigits 10 (k + 1)

/-- `while unique_name in reference_names: …` -/
def firstFree (name : List Char) (tk : List (List Char)) : Nat → Nat → Option (List Char)
  | 0, _ => none
  | fuel + 1, k => if tk.contains (aliasCandidate name k) then firstFree name tk fuel (k + 1) else some (aliasCandidate name k)

/-- `_get_unique_name(name)`; `none` = the loop did not finish within `|taken| + 1` rounds (it always
does: the candidates are pairwise different — shown for the same candidate sequence in property C06) -/
def Scope.uniqueName (s : Scope) (name : List Char) : Option (List Char) :=
  firstFree name s.taken (s.taken.length + 1) 0

/-- `ModelResolver.add(path, original_name)` with the defaults `class_name=False, singular_name=False,
unique=True`: the state after the call and the `.name` of the `Reference` returned. `vn` is
`get_valid_field_name(·, model_type=CLASS)`. -/
def Scope.add (vn : List Char → List Char) (s : Scope) (key orig : List Char) : Scope × Option (List Char) :=
  match s.refs.find? (fun e => e.key = key) with
  | some r =>
    if orig = [] ∨ orig = r.orig ∨ orig = r.name then (s, some r.name)
    else match s.uniqueName (vn orig) with
      | none => (s, none)
      | some u => ({ s with refs := s.refs.map (fun e => if e.key = key then { e with orig := orig, name := u } else e) }, some u)
  | none =>
    match s.uniqueName (vn orig) with
    | none => (s, none)
    | some u => ({ s with refs := s.refs ++ [⟨key, if orig = [] then u else orig, u⟩] }, some u)

/-- first loop of `__change_from_import`: every class of the module, `(join_path([model.path]), class_name)`;
`none` = some unique-name loop ran out of fuel -/
def preRegister (vn : List Char → List Char) : Scope → List (List Char × List Char) → Option Scope
  | s, [] => some s
  | s, (key, cls) :: rest =>
    match s.add vn key cls with
    | (s', some _) => preRegister vn s' rest
    | (_, none) => none

/-- second loop: the foreign references in the order they are met, `(join_path(full_path), import_)` →
the names handed out -/
def allocate (vn : List Char → List Char) : Scope → List (List Char × List Char) → Option (List (List Char))
  | _, [] => some []
  | s, (key, imp) :: rest =>
    match s.add vn key imp with
    | (s', some n) => (allocate vn s' rest).map (n :: ·)
    | (_, none) => none

/-- the names `__change_from_import` gives the imports of one module -/
def importNames (vn : List Char → List Char) (excl : List (List Char))
    (classes reqs : List (List Char × List Char)) : Option (List (List Char)) :=
  match preRegister vn ⟨[], excl⟩ classes with
  | some s => allocate vn s reqs
  | none => none

/-- serve a list of references in order, threading the resolver state -/
def serve (vn : List Char → List Char) : Scope → List (List Char × List Char) → Option (Scope × List (List Char))
  | s, [] => some (s, [])
  | s, (k, imp) :: more =>
    match s.add vn k imp with
    | (s', some n) => (serve vn s' more).map (fun r => (r.1, n :: r.2))
    | (_, none) => none

/-- NOT what the code does — the two loops merged into one: each model's class is registered right
before that model's own references are served (`models`: class key, class name, its references) -/
def importNamesMerged (vn : List Char → List Char) :
    Scope → List (List Char × List Char × List (List Char × List Char)) → Option (List (List Char))
  | _, [] => some []
  | s, (key, cls, reqs) :: rest =>
    match s.add vn key cls with
    | (_, none) => none
    | (s1, some _) =>
      match serve vn s1 reqs with
      | none => none
      | some (s2, names) => (importNamesMerged vn s2 rest).map (names ++ ·)

end Dcg.Model.Modules
