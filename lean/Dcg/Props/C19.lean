import Dcg.Model.Version
import Dcg.Proofs.KwFlow
import Dcg.Gen.HeaderFlow
/-
C19 — output only uses what the chosen target Python version provides.
`Dcg/Gen/Versions` is regenerated from /repo on every run; `Dcg/Model/Version` is the authored
(trusted) "first version that provides X" table. Names are `k!` keys (Dcg/Model/Key.lean).
-/
namespace Dcg.Props.C19
open Dcg.Model.Version Dcg.Gen.Versions Dcg.Model.KwFlow Dcg.Gen.KwSites

def okImp (ver : Nat) (i : Nat × Nat) : Bool := okFor (avail i.1 i.2) ver

/-! ### Imports -/

/-- kernel-checked on the regenerated tables: the shared pool exists in the oldest target; for each of
the 25 (model type, version) pairs what is selected for it exists in that version -/
theorem tables_ok :
    sharedPool.all (okImp minMinor) = true ∧
    selection.all (fun e => (selectedImports e.2 ++ enumClass.imports ++ typeMapOf e.1).all (okImp e.1.2)
      && decide (minMinor ≤ e.1.2)) = true ∧
    selection.length = 5 * versions.length ∧ versions.isEmpty = false := by decide +kernel

/-- For every model type and target version: every import a JSON-Schema/OpenAPI run can take from
the selected classes' DEFAULT_IMPORTS, the enum model, the selected type map or the shared pool of
`IMPORT_*` constants names something the target's standard library has (or a third-party
dependency). -/
theorem stdlib_imports_available (key : Nat × Nat) (roles : List (Nat × Cls))
    (h : (key, roles) ∈ selection) (i : Nat × Nat) (hi : i ∈ possibleImports key roles) :
    okImp key.2 i = true := by
  obtain ⟨hpool, hsel, _, _⟩ := tables_ok
  have he := List.all_eq_true.mp hsel (key, roles) h
  simp only [Bool.and_eq_true, decide_eq_true_eq] at he
  obtain ⟨hall, hmin⟩ := he
  unfold possibleImports at hi
  rcases List.mem_append.mp hi with hi | hi
  · exact List.all_eq_true.mp hall i (by simpa using hi)
  · exact okFor_mono _ hmin (List.all_eq_true.mp hpool i hi)

/-- non-vacuity: TypedDict for 3.9 is in the table and can import `typing_extensions.NotRequired` -/
example : ∃ roles, ((k! "typing.TypedDict", 9), roles) ∈ selection ∧
    (k! "typing_extensions", k! "NotRequired") ∈ possibleImports (k! "typing.TypedDict", 9) roles := by
  refine ⟨(selection.lookup (k! "typing.TypedDict", 9)).getD [], ?_, ?_⟩ <;> decide +kernel

/-- kernel-checked on the regenerated table of CLASS-LEVEL IMPORT ATTRIBUTES (every attribute of every selected class — data
model, root model, field model, type manager; as the class resolves it — whose value is an Import or a tuple of Imports, not
only DEFAULT_IMPORTS): each name they hold exists in the target the class was selected for; the table has a row for every
selection pair and contains what `tables_ok` judges (DEFAULT_IMPORTS). A second import tuple next to DEFAULT_IMPORTS that
rides on the same class selection but names something newer than the selection boundary (a `typing` name of 3.13 on the
class chosen for 3.11+) breaks this. -/
theorem class_import_attrs_ok :
    classImportAttrs.all (fun e => e.2.all (fun a => a.2.2.2.all (okImp e.1.2))) = true ∧
    classImportAttrs.map (·.1) = selection.map (·.1) ∧
    selection.all (fun e => (selectedImports e.2).all (fun i => (classAttrImports e.1).contains i)) = true := by
  decide +kernel

/-- For every model type and target version, every class-level import attribute of a selected class, every name in it:
the target's standard library has it (or it is a third-party dependency). -/
theorem class_level_imports_available (key : Nat × Nat) (attrs : List (Nat × Nat × Nat × List (Nat × Nat)))
    (h : (key, attrs) ∈ classImportAttrs) (a : Nat × Nat × Nat × List (Nat × Nat)) (ha : a ∈ attrs)
    (i : Nat × Nat) (hi : i ∈ a.2.2.2) : okImp key.2 i = true := by
  have he := List.all_eq_true.mp class_import_attrs_ok.1 (key, attrs) h
  exact List.all_eq_true.mp (List.all_eq_true.mp he a ha) i hi

/-- non-vacuity: the TypedDict field class selected for 3.9 holds `typing_extensions.NotRequired` in such an attribute, the
one selected for 3.11 holds `typing.NotRequired` -/
example : (∃ attrs a, ((k! "typing.TypedDict", 9), attrs) ∈ classImportAttrs ∧ a ∈ attrs ∧
      (k! "typing_extensions", k! "NotRequired") ∈ a.2.2.2) ∧
    (classAttrImports (k! "typing.TypedDict", 11)).contains (k! "typing", k! "NotRequired") = true := by
  refine ⟨⟨(classImportAttrs.lookup (k! "typing.TypedDict", 9)).getD [],
    (((classImportAttrs.lookup (k! "typing.TypedDict", 9)).getD []).find?
      (fun a => a.2.2.2.contains (k! "typing_extensions", k! "NotRequired"))).getD (0, 0, 0, []), ?_, ?_, ?_⟩, ?_⟩ <;>
    decide +kernel

/-- Every `IMPORT_*` constant is classified (none is `unknown`), and the standard-library ones that
are newer than the oldest target are exactly the reviewed version-dependent ones. -/
theorem import_constants_classified :
    importConstants.all (fun c =>
      let i := (c.2.2.1, c.2.2.2)
      avail i.1 i.2 != .unknown && (okImp minMinor i == !versionDependent.contains i)) = true ∧
    literalImports.all (fun l => okImp minMinor (l.2.1, l.2.2)) = true := by decide +kernel

/-- `typing.NotRequired` is the TypedDict field model's import exactly for the targets that have it
(3.11+); every other target gets `typing_extensions.NotRequired`. -/
theorem notRequired_backport_iff :
    (selection.filter (fun e => e.1.1 == k! "typing.TypedDict")).all (fun e =>
      let imps := selectedImports e.2
      let native := imps.contains (k! "typing", k! "NotRequired")
      let backport := imps.contains (k! "typing_extensions", k! "NotRequired")
      (native == okImp e.1.2 (k! "typing", k! "NotRequired")) && (backport == !native)) = true ∧
    (selection.filter (fun e => e.1.1 == k! "typing.TypedDict")).length = versions.length := by
  decide +kernel

/-! ### Version predicates -/

/-- every `has_*` predicate is monotone: once a version has the feature, every later one has it -/
theorem has_predicates_monotone :
    hasTable.all (fun p => p.2.all (fun a => p.2.all (fun b =>
      !(decide (a.1 ≤ b.1) && a.2) || b.2))) = true ∧ hasTable.isEmpty = false := by decide +kernel

/-- every `has_*` predicate agrees, on every `PythonVersion` member, with the authored first version
of the construct it stands for (and every predicate has such a reviewed construct) -/
theorem has_predicates_match_since :
    hasTable.all (fun p =>
      match predicateConstruct.lookup p.1 with
      | some c => match constructSince.lookup c with
        | some v => p.2.all (fun a => a.2 == decide (v ≤ a.1)) && p.2.length == versions.length
        | none => false
      | none => false) = true := by decide +kernel

/-- the keyword-only guard of the CLI and the NotRequired selection consult their predicate -/
theorem guards_present :
    expectedGuards.all (fun g => guardSites.any (fun s => s.2.1 == g.1 && s.2.2 == g.2)) = true := by
  decide +kernel

/-! ### The keyword-only flag -/

/-- kernel-checked on the regenerated site table (every place of the source that gives the keyword-only flag a value,
forwards it, or writes `kw_only` / `keyword_only` as text — Python and templates): each one is, by the sound abstract
evaluation, false whenever every read of the flag is false and the target is older than `kwOnlyBound`; the bound is
the authored first version of `dataclass(kw_only=True)`; the flag does reach a template (the table is not empty of
what it is about). -/
theorem kw_only_sites_guarded :
    sites.all siteOk = true ∧
    constructSince.lookup (k! "dataclass(kw_only=True)") = some kwOnlyBound ∧
    predSince (k! "has_kw_only_dataclass") = some kwOnlyBound ∧
    sites.any (fun s => s.kind == .textTemplate && s.expr == .flag) = true := by decide +kernel

/-- INDUCTIVE STEP of "the flag is false everywhere unless the user asked": at every site (other than a schema's own
per-field key), in every environment — any valuation of the parts the translator does not understand included — the
deciding expression can only be true if a read of the flag yields true or the target has keyword-only dataclasses.
Hence no site turns keyword-only on by itself for a target below 3.10 (a source doing so, e.g. "a member without
default after inherited defaults", makes `kw_only_sites_guarded` fail). -/
theorem keyword_only_needs_option_or_target (s : Site) (hs : s ∈ sites) (hk : (s.kind == .fieldKey) = false)
    (env : Env) (h : eval predSince env s.expr = true) :
    env.flag = true ∨ kwOnlyBound ≤ env.target := by
  have hok := List.all_eq_true.mp kw_only_sites_guarded.1 s hs
  simp only [siteOk, hk, Bool.false_or] at hok
  exact Dcg.Proofs.KwFlow.safe_true_needs predSince kwOnlyBound env s.expr hok h

/-- non-vacuity: the template site is such a site, and with the option on it does write `(kw_only=True)` -/
example : ∃ s ∈ sites, (s.kind == .fieldKey) = false ∧
    eval predSince { flag := true, target := 9, free := fun _ => false } s.expr = true := by
  refine ⟨(sites.find? (fun s => s.kind == .textTemplate)).getD ⟨0, 0, 0, .fieldKey, .const false⟩, ?_, ?_, ?_⟩ <;>
    decide +kernel

/-- class-level prediction used by the correspondence campaign: without the option nothing is written for a target
below the bound, for every output model type -/
theorem no_class_level_kw_only_unasked :
    kindFiles.all (fun kf => (List.range kwOnlyBound).all (fun t => !writesClassLevel kf.1 false t)) = true ∧
    kindFiles.length = 5 := by decide +kernel

/-- REFUTATION kept for the pinned tree (known finding D16-kwonly-field): `kw_only` is one of the dataclass field keys
that a schema's own entry may set (`--field-include-all-keys`, `--field-extra-keys kw_only`), and nothing ties it to
the target: `field(kw_only=True)` (3.10) can be emitted for target 3.9. -/
theorem field_kw_only_unguarded :
    sites.any (fun s => s.kind == .fieldKey && s.file == k! "model/dataclass.py" &&
      !safe predSince kwOnlyBound s.expr) = true ∧
    fieldLevelPossible (k! "dataclasses.dataclass") = true := by decide +kernel

/-! ### The file header and the module's `from __future__ import annotations`
`X | Y` in class-body annotations of dataclasses / class-syntax TypedDicts is legal for targets < 3.10 only because the module
starts with the future import. What generate() prints in front of the module decides whether that is still so. -/
section Header
open Dcg.Model.Header

/-- REVIEWED: how the names printed into the output file are bound in generate(): the header is the parameter or the text of
`custom_file_header_path`; the default header a literal plus appended text; body and filename the loop variables over
`modules.items()`; `modules` built from the parser's results. Nothing re-binds them in between. -/
def reviewedBindings : List (Nat × Src) := [
  (k! "custom_file_header", .param),
  (k! "modules", .fromResults), (k! "modules", .fromResults),
  (k! "custom_file_header", .readPath),
  (k! "header", .literal), (k! "header", .appendText), (k! "header", .appendText),
  (k! "body", .loopVar), (k! "filename", .loopVar),
  (k! "body", .loopVar), (k! "filename", .loopVar)]

def filePrints : List (Out × Bool) := (Dcg.Gen.HeaderFlow.prints.map (·.2)).filter (fun p => p.1 != .console)

/-- kernel-checked on the table regenerated from generate(): into an output file go the header expression, and under
`if body:` a blank line and `body.rstrip()` — nothing else; every name these read is bound as reviewed (a helper that takes
the future import out of the body, a re-bound body or header, another printed name all change the table). -/
theorem header_flow_reviewed :
    filePrints = reviewedPrints ∧ Dcg.Gen.HeaderFlow.bindings.map (·.2) = reviewedBindings := by decide +kernel

/-- UNBOUNDED over headers and bodies: the module written for ANY header `h` in front of a body that starts with its future
import (and has no other) is `h ++ body`: the future import is still there; it is effective (annotations stay strings) exactly
when the header is a docstring and future imports at most, and misplaced (SyntaxError at compile time) otherwise. -/
theorem future_import_survives_header (h r : List Item) (hr : Item.future ∉ r) :
    ∃ out, emit filePrints h (.future :: r) = some out ∧ Item.future ∈ out ∧
      effective out = headerClean h ∧ misplaced out = !(headerClean h) := by
  rw [header_flow_reviewed.1]
  exact ⟨_, emit_reviewed h r .future, by simp, effective_iff h r hr, misplaced_iff h r hr⟩

/-- non-vacuity: a docstring-only header keeps the import effective; comments only (no statement) as well -/
example : effective ([.doc] ++ .future :: [.code]) = true ∧ effective ([] ++ .future :: [.code]) = true ∧
    effective ([.doc, .future] ++ .future :: [.code]) = true := by decide

/-- REFUTATION kept for the pinned tree (known finding C19-header-code-future-import): a header with a statement of its own
leaves the module's future import behind that statement — the emitted module does not compile, on any target. -/
theorem header_code_future_misplaced (h r : List Item) (hr : Item.future ∉ r) (hc : headerClean h = false) :
    ∃ out, emit filePrints h (.future :: r) = some out ∧ misplaced out = true ∧ effective out = false := by
  obtain ⟨out, he, _, heff, hmis⟩ := future_import_survives_header h r hr
  exact ⟨out, he, by rw [hmis, hc]; rfl, by rw [heff, hc]⟩

example : headerClean [.code] = false ∧ headerClean [.doc, .code] = false ∧ headerClean [.future, .code] = false := by decide

end Header

/-! ### Refutations kept for the pinned tree (known finding D16) -/

/-- FULL STRENGTH for GraphQL input (false): the default scalar/union alias models only import what
every target has. -/
def GraphqlImportsAvailable : Prop :=
  ∀ ver ∈ versions.map (·.2), ∀ c ∈ graphqlClasses, ∀ i ∈ c.2.imports, okImp ver i = true

/-- witness: `typing.TypeAlias` (3.10) is a DEFAULT_IMPORT of both GraphQL alias models, which are
selected for every target — 3.9 included. -/
theorem graphql_typeAlias_unguarded :
    graphqlClasses.all (fun c => c.2.imports.contains (k! "typing", k! "TypeAlias")) = true ∧
    graphqlClasses.isEmpty = false ∧
    avail (k! "typing") (k! "TypeAlias") = .since 10 ∧ (versions.map (·.2)).contains 9 = true := by
  decide +kernel

theorem graphql_imports_available_false : ¬ GraphqlImportsAvailable := by
  intro h
  have := h 9 (by decide +kernel) (graphqlClasses.head (by decide +kernel)) (by decide +kernel)
    (k! "typing", k! "TypeAlias") (by decide +kernel)
  revert this
  decide +kernel

/-- PARTIAL: for targets ≥ 3.10 the GraphQL alias models import only available names -/
theorem graphql_imports_available_partial :
    ((versions.map (·.2)).filter (fun v => decide (10 ≤ v))).all (fun ver =>
      graphqlClasses.all (fun c => c.2.imports.all (okImp ver))) = true ∧
    ((versions.map (·.2)).filter (fun v => decide (10 ≤ v))).isEmpty = false := by decide +kernel

/-- `has_union_operator` is never consulted: nothing ties `--use-union-operator` to the target -/
theorem union_operator_unguarded :
    guardSites.any (fun s => s.2.2 == k! "has_union_operator") = false := by decide +kernel

end Dcg.Props.C19
