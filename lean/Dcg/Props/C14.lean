import Dcg.Proofs.Sem
import Dcg.Props.C03
import Dcg.Props.C04
/-
C14 — representation-only options do not change what the models accept.

Stage 1 (`Dcg.Model.Translate.tr`) takes the whole option vector `Opts`; the theorems below say
which of its fields can influence the verdict `acceptsTy` of the generated model.
Every option of the property text is a field of `Opts`. Options that act after stage 1: the order of the
classes (`keep_model_order`) is proved immaterial, a `reuse_model` merge is proved sound for identical
classes (that the real pass merges only those is a run-time campaign), `collapse_root_models` is proved for
unconstrained root models and refuted for constrained ones (D39); target version, formatters and quotes
change text only — differential oracle between two real runs (vlib/props/c14.py).
-/
namespace Dcg.Props.C14
open Dcg.Sem Dcg.Sem.Pyd Dcg.Model.Constraints Dcg.Model.Translate Dcg.Proofs.Sem

/-- The spelling options — `use_standard_collections`, `use_generic_container_types`,
`use_union_operator`, `use_double_quotes` — do not enter the IR: for EVERY schema (no subset
restriction), place and style, stage 1 produces the same IR whatever their values. -/
theorem spelling_invariant (st : Style) (o : Opts) (a b c d : Bool) (ctx : Ctx) (s : Schema) :
    tr st { o with useStandardCollections := a, useGenericContainerTypes := b,
                   useUnionOperator := c, useDoubleQuotes := d } ctx s = tr st o ctx s :=
  tr_congr st { o with useStandardCollections := a, useGenericContainerTypes := b,
                       useUnionOperator := c, useDoubleQuotes := d } o rfl ctx s

/-- …hence the models accept and reject exactly the same values (equality of verdicts, all fuels). -/
theorem spelling_verdict_invariant (st : Style) (re : Regex) (o : Opts) (a b c d : Bool)
    (defs : Defs) (g : Nat) (ctx : Ctx) (s : Schema) (v : Json) :
    acceptsTy st re g
      (trDefs st { o with useStandardCollections := a, useGenericContainerTypes := b,
                          useUnionOperator := c, useDoubleQuotes := d } defs)
      (tr st { o with useStandardCollections := a, useGenericContainerTypes := b,
                      useUnionOperator := c, useDoubleQuotes := d } ctx s) v =
    acceptsTy st re g (trDefs st o defs) (tr st o ctx s) v := by
  rw [spelling_invariant,
    trDefs_congr st { o with useStandardCollections := a, useGenericContainerTypes := b,
                             useUnionOperator := c, useDoubleQuotes := d } o rfl]

/-- `use_annotated` (given `field_constraints`) does not change the IR either: it only changes how
the `Field()` call is written. -/
theorem annotated_invariant (st : Style) (o : Opts) (a : Bool) (ctx : Ctx) (s : Schema) :
    tr st { o with useAnnotated := a } ctx s = tr st o ctx s :=
  tr_congr st { o with useAnnotated := a } o rfl ctx s

/-! ### the remaining options of the property text

`keep_model_order`, `reuse_model`, `collapse_root_models`, `target_python_version` and the choice of
formatters act AFTER stage 1 (model post-processing passes, the writer). What can be said in the model:
stage 1 does not read them (necessary, not sufficient); the order of the classes is immaterial to the
verdicts; two names bound to one class are interchangeable (what `reuse_model` produces when — and only
when — it merges classes with identical IR: the run-time campaign `reuse merges ⇒ identical IR` checks the
"only when" on the real pass); inlining a root model is sound exactly when its constraints travel along.
`target_python_version`, the formatters and `use_double_quotes` only change text: DIFFERENTIAL ONLY. -/

/-- stage 1 does not read the options of the later passes, the target version or the formatters: same
IR for every schema, place and style -/
theorem later_options_not_in_stage1 (st : Style) (o : Opts) (a b c f : Bool) (m : Nat) (ctx : Ctx) (s : Schema) :
    tr st { o with keepModelOrder := a, reuseModel := b, collapseRootModels := c, targetMinor := m,
                   formatters := f } ctx s = tr st o ctx s :=
  tr_congr st { o with keepModelOrder := a, reuseModel := b, collapseRootModels := c, targetMinor := m,
                       formatters := f } o rfl ctx s

theorem trDefs_eq_map (st : Style) (o : Opts) (defs : Defs) :
    trDefs st o defs = defs.map (fun p => (p.1, tr st o .top p.2)) := by
  induction defs with
  | nil => rfl
  | cons p ps ih => simp [trDefs, ih]

/-- `keep_model_order` / the sorting passes: the ORDER of the definitions (distinct names) is immaterial —
for every permutation of the definitions, every type, value and fuel the verdict is the same.
(What the option does break on the pinned tree — a class written before a class it uses eagerly, known
finding D38 — is an import-time error of the written module, outside the IR.) -/
theorem keep_model_order_invariant (st : Style) (re : Regex) (o : Opts) (defs defs' : Defs)
    (hp : defs.Perm defs') (hn : namesNodup (defs.map (·.1)) = true) (g : Nat) (t : Ty) (v : Json) :
    acceptsTy st re g (trDefs st o defs) t v = acceptsTy st re g (trDefs st o defs') t v := by
  apply acceptsTy_congr_defs
  intro n
  rw [trDefs_eq_map, trDefs_eq_map]
  refine lookup_perm (hp.map _) ?_ n
  rw [List.map_map]
  exact hn

/-- non-vacuity: two definitions in either order -/
example : [("A".toList, Schema.any), ("B".toList, Schema.null)].Perm [("B".toList, Schema.null), ("A".toList, Schema.any)] ∧
    namesNodup ([("A".toList, Schema.any), ("B".toList, Schema.null)].map (·.1)) = true :=
  ⟨List.Perm.swap _ _ _, by decide⟩

/-- `reuse_model`, soundness of a merge: when two names are bound to the SAME class (identical IR: fields,
required flags, constraints, types and `extra`), a reference to one accepts exactly what a reference to
the other accepts, and `class B(A): pass` (how the pass writes the duplicate) accepts an object exactly as
`A` does. -/
theorem reuse_merge_sound (st : Style) (re : Regex) (D : IRDefs) (a b : List Char)
    (h : D.lookup a = D.lookup b) (g : Nat) (v : Json) (kvs : List (List Char × Json)) (e : Extra) :
    acceptsTy st re g D (.ref a) v = acceptsTy st re g D (.ref b) v ∧
    acceptsTy st re (g + 1) D (.derived [a] [] e) (.obj kvs) = acceptsTy st re (g + 1) D (.ref a) (.obj kvs) := by
  constructor
  · cases g with
    | zero => rfl
    | succ g => simp only [acceptsTy, h]
  · simp only [acceptsTy, List.map, Tri.all, List.foldr, and_accept]

/-- WITNESS that the key of the merge must include the whole class: twins that differ only in `extra`
(`additionalProperties: false` vs `true`) or only in a constant do NOT accept the same values -/
theorem reuse_must_distinguish :
    acceptsTy .v2 (fun _ _ => true) 3 [] (tr .v2 {} .top (.object [("n".toList, .scalar .integer false {})] [] .forbid))
      (.obj [("zz".toList, .num ⟨1, 0⟩)]) = .reject ∧
    acceptsTy .v2 (fun _ _ => true) 3 [] (tr .v2 {} .top (.object [("n".toList, .scalar .integer false {})] [] .allow))
      (.obj [("zz".toList, .num ⟨1, 0⟩)]) = .accept ∧
    acceptsTy .v2 (fun _ _ => true) 3 [] (tr .v2 {} .top (.object [("kind".toList, .const (.str "Cat".toList))] ["kind".toList] .absent))
      (.obj [("kind".toList, .str "Dog".toList)]) = .reject ∧
    acceptsTy .v2 (fun _ _ => true) 3 [] (tr .v2 {} .top (.object [("kind".toList, .const (.str "Dog".toList))] ["kind".toList] .absent))
      (.obj [("kind".toList, .str "Dog".toList)]) = .accept := by decide +kernel

/-- `collapse_root_models`, the sound case: a reference to a root model WITHOUT constraints of its own may
be replaced by the root type (two levels of fuel shallower) -/
theorem collapse_unconstrained_root (st : Style) (re : Regex) (D : IRDefs) (n : List Char) (inner : Ty)
    (h : D.lookup n = some (.root {} inner)) (g : Nat) (v : Json) :
    acceptsTy st re (g + 2) D (.ref n) v = acceptsTy st re g D inner v := by
  simp only [acceptsTy, h, checkCons_empty, and_accept]

/-- REFUTATION for a root model WITH constraints (known finding D39): the definition
`L = {"type":"array","items":{"type":"integer"},"minItems":2}` is a root model carrying `min_length=2`;
`--collapse-root-models` (without `--field-constraints`) writes the member as `List[int]`, and `[1]`, rejected
through the reference, is accepted by the collapsed type. -/
theorem collapse_constrained_root_D39 :
    let D := trDefs .v2 {} [("L".toList, .array (.scalar .integer false {}) (some 2) none)]
    (match D.lookup "L".toList with
      | some (.root c (.list _)) => c.minLength == some 2   -- the root model carries `min_length=2`
      | _ => false) = true ∧
    acceptsTy .v2 (fun _ _ => true) 5 D (.ref "L".toList) (.arr [.num ⟨1, 0⟩]) = .reject ∧
    acceptsTy .v2 (fun _ _ => true) 3 D (.list (.scalar .integer {})) (.arr [.num ⟨1, 0⟩]) = .accept := by
  decide +kernel

/-- Constraint routing does not change the keyword pydantic reports (from C04.keyword_roundtrip). -/
theorem routing_reports_same_keywords :
    ∀ st ∈ allStyles, ∀ r ∈ allRoutings, ∀ fam ∈ allFams, ∀ kw ∈ supported fam,
      roundTrip st r fam kw = some kw ∧ roundTrip st r fam kw = roundTrip st .conType fam kw :=
  fun st hst r hr fam hf kw hk =>
    ⟨C04.keyword_roundtrip st hst r hr fam hf kw hk, C04.routing_irrelevant st hst r hr fam hf kw hk⟩

/-- FULL STRENGTH: any two option vectors give models whose verdicts never contradict each other
(`Compat`: not accept/reject or reject/accept; `laxZone` — pydantic's coercions, exhausted fuel —
is "unknown"). Kept visible; FALSE on the pinned tree, see the two refutations. -/
def OptsSemanticsInvariant : Prop :=
  ∀ (st : Style) (re : Regex) (o o' : Opts) (defs : Defs) (g : Nat) (ctx : Ctx) (s : Schema) (v : Json),
    Compat (acceptsTy st re g (trDefs st o defs) (tr st o ctx s) v)
           (acceptsTy st re g (trDefs st o' defs) (tr st o' ctx s) v)

/-- PARTIAL (unbounded: all schemas of `InSubset ∩ routingSafe`, all values, all fuels, both
styles, every regex oracle): `field_constraints` / `use_annotated` — and therefore ANY pair of
option vectors of the model — never turn an accepted value into a rejected one or vice versa.
`routingSafe` excludes a constrained scalar as `additionalProperties` value (D11) and item-count
constraints on an array nested in an array / union (D31). -/
theorem opts_semantics_invariant_partial (st : Style) (re : Regex) (o o' : Opts) (defs : Defs)
    (hd : defsInSubset defs = true) (hds : defsRoutingSafe defs = true) (g : Nat) (ctx : Ctx)
    (s : Schema) (v : Json) (hs : s.inSubset = true) (hrs : routingSafe ctx s = true) :
    Compat (acceptsTy st re g (trDefs st o defs) (tr st o ctx s) v)
           (acceptsTy st re g (trDefs st o' defs) (tr st o' ctx s) v) := by
  cases hF : o.fieldConstraints <;> cases hC : o'.fieldConstraints
  · rw [tr_congr st o o' (by rw [hF, hC]), trDefs_congr st o o' (by rw [hF, hC])]
    exact compat_refl _
  · exact compat_symm
      (rc_all st re o' o defs (C03.tableOK st) hC hF hd hds g g (Nat.le_refl _) ctx s v hs hrs)
  · exact rc_all st re o o' defs (C03.tableOK st) hF hC hd hds g g (Nat.le_refl _) ctx s v hs hrs
  · rw [tr_congr st o o' (by rw [hF, hC]), trDefs_congr st o o' (by rw [hF, hC])]
    exact compat_refl _

/-- non-vacuity: the demo document of C03 (closed object, bounded integer member, nullable string
with lengths, array of a recursive definition) satisfies every hypothesis -/
example : C03.demoSchema.inSubset = true ∧ routingSafe .top C03.demoSchema = true ∧
    defsInSubset C03.demoDefs = true ∧ defsRoutingSafe C03.demoDefs = true := by decide +kernel

/-- REFUTATION (known finding D11): `additionalProperties: {"type":"integer","minimum":0}`; the value
`{"k": -1}` is rejected by the baseline (`Dict[str, conint(ge=0)]`) and accepted under
`field_constraints` (`Dict[str, int]`). -/
theorem opts_invariant_false_D11 : ¬ OptsSemanticsInvariant := by
  intro h
  have := h .v2 (fun _ _ => true) { fieldConstraints := true } {} [] 3 .plain
    (.dict (.scalar .integer false { minimum := some ⟨0, 0⟩ }))
    (.obj [("k".toList, .num ⟨-1, 0⟩)])
  exact this.1 (by decide +kernel)

/-- REFUTATION (known finding D31): `items: {"type":"array","minItems":2}` inside an array; `[[1]]`
is accepted by the baseline (`List[List[int]]`) and rejected under `field_constraints`. -/
theorem opts_invariant_false_D31 :
    acceptsTy .v2 (fun _ _ => true) 6 [] (tr .v2 {} .plain
      (.array (.array (.scalar .integer false {}) (some 2) none) none none))
      (.arr [.arr [.num ⟨1, 0⟩]]) = .accept ∧
    acceptsTy .v2 (fun _ _ => true) 6 [] (tr .v2 { fieldConstraints := true } .plain
      (.array (.array (.scalar .integer false {}) (some 2) none) none none))
      (.arr [.arr [.num ⟨1, 0⟩]]) = .reject := by decide +kernel

/-- both witnesses lie outside `routingSafe`, as they must -/
example : routingSafe .plain (.dict (.scalar .integer false { minimum := some ⟨0, 0⟩ })) = false ∧
    routingSafe .plain (.array (.array (.scalar .integer false {}) (some 2) none) none none) = false := by
  decide +kernel

end Dcg.Props.C14
