import Dcg.Proofs.Sem
import Dcg.Props.C03
import Dcg.Props.C04
import Dcg.Model.RefChildren
import Dcg.Proofs.Repoint
/-
C14 — representation-only options do not change what the models accept.

Stage 1 (`Dcg.Model.Translate.tr`) takes the whole option vector `Opts`; the theorems below say
which of its fields can influence the verdict `acceptsTy` of the generated model.
Every option of the property text is a field of `Opts`. Options that act after stage 1: the order of the
classes (`keep_model_order`) is proved immaterial, a `reuse_model` merge is proved sound for identical
classes (that the real pass merges only those is a run-time campaign), `collapse_root_models` is proved for
unconstrained root models and refuted for constrained ones (D39); target version, formatters and quotes
change text only — differential oracle between two real runs (vlib/props/c14.py).
-/
namespace Dcg.Props.C14
open Dcg.Sem Dcg.Sem.Pyd Dcg.Model.Constraints Dcg.Model.Translate Dcg.Proofs.Sem

/-- The spelling options — `use_standard_collections`, `use_generic_container_types`,
`use_union_operator`, `use_double_quotes` — do not enter the IR: for EVERY schema (no subset
restriction), place and style, stage 1 produces the same IR whatever their values. -/
theorem spelling_invariant (st : Style) (o : Opts) (a b c d : Bool) (ctx : Ctx) (s : Schema) :
    tr st { o with useStandardCollections := a, useGenericContainerTypes := b,
                   useUnionOperator := c, useDoubleQuotes := d } ctx s = tr st o ctx s :=
  tr_congr st { o with useStandardCollections := a, useGenericContainerTypes := b,
                       useUnionOperator := c, useDoubleQuotes := d } o rfl ctx s

/-- …hence the models accept and reject exactly the same values (equality of verdicts, all fuels). -/
theorem spelling_verdict_invariant (st : Style) (re : Regex) (o : Opts) (a b c d : Bool)
    (defs : Defs) (g : Nat) (ctx : Ctx) (s : Schema) (v : Json) :
    acceptsTy st re g
      (trDefs st { o with useStandardCollections := a, useGenericContainerTypes := b,
                          useUnionOperator := c, useDoubleQuotes := d } defs)
      (tr st { o with useStandardCollections := a, useGenericContainerTypes := b,
                      useUnionOperator := c, useDoubleQuotes := d } ctx s) v =
    acceptsTy st re g (trDefs st o defs) (tr st o ctx s) v := by
  rw [spelling_invariant,
    trDefs_congr st { o with useStandardCollections := a, useGenericContainerTypes := b,
                             useUnionOperator := c, useDoubleQuotes := d } o rfl]

/-- `use_annotated` (given `field_constraints`) does not change the IR either: it only changes how
the `Field()` call is written. -/
theorem annotated_invariant (st : Style) (o : Opts) (a : Bool) (ctx : Ctx) (s : Schema) :
    tr st { o with useAnnotated := a } ctx s = tr st o ctx s :=
  tr_congr st { o with useAnnotated := a } o rfl ctx s

/-! ### the remaining options of the property text

`keep_model_order`, `reuse_model`, `collapse_root_models`, `target_python_version` and the choice of
formatters act AFTER stage 1 (model post-processing passes, the writer). What can be said in the model:
stage 1 does not read them (necessary, not sufficient); the order of the classes is immaterial to the
verdicts; two names bound to one class are interchangeable (what `reuse_model` produces when — and only
when — it merges classes with identical IR: the run-time campaign `reuse merges ⇒ identical IR` checks the
"only when" on the real pass); inlining a root model is sound exactly when its constraints travel along.
`target_python_version`, the formatters and `use_double_quotes` only change text: DIFFERENTIAL ONLY. -/

/-- stage 1 does not read the options of the later passes, the target version or the formatters: same
IR for every schema, place and style -/
theorem later_options_not_in_stage1 (st : Style) (o : Opts) (a b c f : Bool) (m : Nat) (ctx : Ctx) (s : Schema) :
    tr st { o with keepModelOrder := a, reuseModel := b, collapseRootModels := c, targetMinor := m,
                   formatters := f } ctx s = tr st o ctx s :=
  tr_congr st { o with keepModelOrder := a, reuseModel := b, collapseRootModels := c, targetMinor := m,
                       formatters := f } o rfl ctx s

theorem trDefs_eq_map (st : Style) (o : Opts) (defs : Defs) :
    trDefs st o defs = defs.map (fun p => (p.1, tr st o .top p.2)) := by
  induction defs with
  | nil => rfl
  | cons p ps ih => simp [trDefs, ih]

/-- `keep_model_order` / the sorting passes: the ORDER of the definitions (distinct names) is immaterial —
for every permutation of the definitions, every type, value and fuel the verdict is the same.
(What the option does break on the pinned tree — a class written before a class it uses eagerly, known
finding D38 — is an import-time error of the written module, outside the IR.) -/
theorem keep_model_order_invariant (st : Style) (re : Regex) (o : Opts) (defs defs' : Defs)
    (hp : defs.Perm defs') (hn : namesNodup (defs.map (·.1)) = true) (g : Nat) (t : Ty) (v : Json) :
    acceptsTy st re g (trDefs st o defs) t v = acceptsTy st re g (trDefs st o defs') t v := by
  apply acceptsTy_congr_defs
  intro n
  rw [trDefs_eq_map, trDefs_eq_map]
  refine lookup_perm (hp.map _) ?_ n
  rw [List.map_map]
  exact hn

/-- non-vacuity: two definitions in either order -/
example : [("A".toList, Schema.any), ("B".toList, Schema.null)].Perm [("B".toList, Schema.null), ("A".toList, Schema.any)] ∧
    namesNodup ([("A".toList, Schema.any), ("B".toList, Schema.null)].map (·.1)) = true :=
  ⟨List.Perm.swap _ _ _, by decide⟩

/-- `reuse_model`, soundness of a merge: when two names are bound to the SAME class (identical IR: fields,
required flags, constraints, types and `extra`), a reference to one accepts exactly what a reference to
the other accepts, and `class B(A): pass` (how the pass writes the duplicate) accepts an object exactly as
`A` does. -/
theorem reuse_merge_sound (st : Style) (re : Regex) (D : IRDefs) (a b : List Char)
    (h : D.lookup a = D.lookup b) (g : Nat) (v : Json) (kvs : List (List Char × Json)) (e : Extra) :
    acceptsTy st re g D (.ref a) v = acceptsTy st re g D (.ref b) v ∧
    acceptsTy st re (g + 1) D (.derived [a] [] e) (.obj kvs) = acceptsTy st re (g + 1) D (.ref a) (.obj kvs) := by
  constructor
  · cases g with
    | zero => rfl
    | succ g => simp only [acceptsTy, h]
  · simp only [acceptsTy, List.map, Tri.all, List.foldr, and_accept]

/-- WITNESS that the key of the merge must include the whole class: twins that differ only in `extra`
(`additionalProperties: false` vs `true`) or only in a constant do NOT accept the same values -/
theorem reuse_must_distinguish :
    acceptsTy .v2 (fun _ _ => true) 3 [] (tr .v2 {} .top (.object [("n".toList, .scalar .integer false {})] [] .forbid))
      (.obj [("zz".toList, .num ⟨1, 0⟩)]) = .reject ∧
    acceptsTy .v2 (fun _ _ => true) 3 [] (tr .v2 {} .top (.object [("n".toList, .scalar .integer false {})] [] .allow))
      (.obj [("zz".toList, .num ⟨1, 0⟩)]) = .accept ∧
    acceptsTy .v2 (fun _ _ => true) 3 [] (tr .v2 {} .top (.object [("kind".toList, .const (.str "Cat".toList))] ["kind".toList] .absent))
      (.obj [("kind".toList, .str "Dog".toList)]) = .reject ∧
    acceptsTy .v2 (fun _ _ => true) 3 [] (tr .v2 {} .top (.object [("kind".toList, .const (.str "Dog".toList))] ["kind".toList] .absent))
      (.obj [("kind".toList, .str "Dog".toList)]) = .accept := by decide +kernel

/-- `collapse_root_models`, the sound case: a reference to a root model WITHOUT constraints of its own may
be replaced by the root type (two levels of fuel shallower) -/
theorem collapse_unconstrained_root (st : Style) (re : Regex) (D : IRDefs) (n : List Char) (inner : Ty)
    (h : D.lookup n = some (.root {} inner)) (g : Nat) (v : Json) :
    acceptsTy st re (g + 2) D (.ref n) v = acceptsTy st re g D inner v := by
  simp only [acceptsTy, h, checkCons_empty, and_accept]

/-- REFUTATION for a root model WITH constraints (known finding D39): the definition
`L = {"type":"array","items":{"type":"integer"},"minItems":2}` is a root model carrying `min_length=2`;
`--collapse-root-models` (without `--field-constraints`) writes the member as `List[int]`, and `[1]`, rejected
through the reference, is accepted by the collapsed type. -/
theorem collapse_constrained_root_D39 :
    let D := trDefs .v2 {} [("L".toList, .array (.scalar .integer false {}) (some 2) none)]
    (match D.lookup "L".toList with
      | some (.root c (.list _)) => c.minLength == some 2   -- the root model carries `min_length=2`
      | _ => false) = true ∧
    acceptsTy .v2 (fun _ _ => true) 5 D (.ref "L".toList) (.arr [.num ⟨1, 0⟩]) = .reject ∧
    acceptsTy .v2 (fun _ _ => true) 3 D (.list (.scalar .integer {})) (.arr [.num ⟨1, 0⟩]) = .accept := by
  decide +kernel

/-- Constraint routing does not change the keyword pydantic reports (from C04.keyword_roundtrip). -/
theorem routing_reports_same_keywords :
    ∀ st ∈ allStyles, ∀ r ∈ allRoutings, ∀ fam ∈ allFams, ∀ kw ∈ supported fam,
      roundTrip st r fam kw = some kw ∧ roundTrip st r fam kw = roundTrip st .conType fam kw :=
  fun st hst r hr fam hf kw hk =>
    ⟨C04.keyword_roundtrip st hst r hr fam hf kw hk, C04.routing_irrelevant st hst r hr fam hf kw hk⟩

/-- FULL STRENGTH: any two option vectors give models whose verdicts never contradict each other
(`Compat`: not accept/reject or reject/accept; `laxZone` — pydantic's coercions, exhausted fuel —
is "unknown"). Kept visible; FALSE on the pinned tree, see the two refutations. -/
def OptsSemanticsInvariant : Prop :=
  ∀ (st : Style) (re : Regex) (o o' : Opts) (defs : Defs) (g : Nat) (ctx : Ctx) (s : Schema) (v : Json),
    Compat (acceptsTy st re g (trDefs st o defs) (tr st o ctx s) v)
           (acceptsTy st re g (trDefs st o' defs) (tr st o' ctx s) v)

/-- PARTIAL (unbounded: all schemas of `InSubset ∩ routingSafe`, all values, all fuels, both
styles, every regex oracle): `field_constraints` / `use_annotated` — and therefore ANY pair of
option vectors of the model — never turn an accepted value into a rejected one or vice versa.
`routingSafe` excludes a constrained scalar as `additionalProperties` value (D11) and item-count
constraints on an array nested in an array / union (D31). -/
theorem opts_semantics_invariant_partial (st : Style) (re : Regex) (o o' : Opts) (defs : Defs)
    (hd : defsInSubset defs = true) (hds : defsRoutingSafe defs = true) (g : Nat) (ctx : Ctx)
    (s : Schema) (v : Json) (hs : s.inSubset = true) (hrs : routingSafe ctx s = true) :
    Compat (acceptsTy st re g (trDefs st o defs) (tr st o ctx s) v)
           (acceptsTy st re g (trDefs st o' defs) (tr st o' ctx s) v) := by
  cases hF : o.fieldConstraints <;> cases hC : o'.fieldConstraints
  · rw [tr_congr st o o' (by rw [hF, hC]), trDefs_congr st o o' (by rw [hF, hC])]
    exact compat_refl _
  · exact compat_symm
      (rc_all st re o' o defs (C03.tableOK st) hC hF hd hds g g (Nat.le_refl _) ctx s v hs hrs)
  · exact rc_all st re o o' defs (C03.tableOK st) hF hC hd hds g g (Nat.le_refl _) ctx s v hs hrs
  · rw [tr_congr st o o' (by rw [hF, hC]), trDefs_congr st o o' (by rw [hF, hC])]
    exact compat_refl _

/-- non-vacuity: the demo document of C03 (closed object, bounded integer member, nullable string
with lengths, array of a recursive definition) satisfies every hypothesis -/
example : C03.demoSchema.inSubset = true ∧ routingSafe .top C03.demoSchema = true ∧
    defsInSubset C03.demoDefs = true ∧ defsRoutingSafe C03.demoDefs = true := by decide +kernel

/-- REFUTATION (known finding D11): `additionalProperties: {"type":"integer","minimum":0}`; the value
`{"k": -1}` is rejected by the baseline (`Dict[str, conint(ge=0)]`) and accepted under
`field_constraints` (`Dict[str, int]`). -/
theorem opts_invariant_false_D11 : ¬ OptsSemanticsInvariant := by
  intro h
  have := h .v2 (fun _ _ => true) { fieldConstraints := true } {} [] 3 .plain
    (.dict (.scalar .integer false { minimum := some ⟨0, 0⟩ }))
    (.obj [("k".toList, .num ⟨-1, 0⟩)])
  exact this.1 (by decide +kernel)

/-- REFUTATION (known finding D31): `items: {"type":"array","minItems":2}` inside an array; `[[1]]`
is accepted by the baseline (`List[List[int]]`) and rejected under `field_constraints`. -/
theorem opts_invariant_false_D31 :
    acceptsTy .v2 (fun _ _ => true) 6 [] (tr .v2 {} .plain
      (.array (.array (.scalar .integer false {}) (some 2) none) none none))
      (.arr [.arr [.num ⟨1, 0⟩]]) = .accept ∧
    acceptsTy .v2 (fun _ _ => true) 6 [] (tr .v2 { fieldConstraints := true } .plain
      (.array (.array (.scalar .integer false {}) (some 2) none) none none))
      (.arr [.arr [.num ⟨1, 0⟩]]) = .reject := by decide +kernel

/-- both witnesses lie outside `routingSafe`, as they must -/
example : routingSafe .plain (.dict (.scalar .integer false { minimum := some ⟨0, 0⟩ })) = false ∧
    routingSafe .plain (.array (.array (.scalar .integer false {}) (some 2) none) none none) = false := by
  decide +kernel

/-! ### reference bookkeeping: how `reuse_model` (and the other passes that rewrite the uses of a model) find the uses

`--reuse-model` drops an enum that renders like an earlier one and re-points the CHILDREN of its reference
(`Reference.children`) to the kept one; what the written classes show are the USES — every `DataType` with a
reference reachable from a member or a base-class list of a written model (`Dcg/Model/RefChildren.lean`; the loop
and `replace_reference` are `Dcg.Model.Repoint` of C11). The theorems say when the two views agree. Their
hypotheses — every use registered, every use of the dropped model takes part — are OBSERVED on the real parser
after `parse_raw()` and after each pass, and `redirect` is compared with what the real `Parser.__reuse_model` did
to every use (vlib/props/c14_refkids.py). -/
section RefChildren
open Dcg.Model.Repoint Dcg.Model.RefChildren Dcg.Proofs.Repoint

/-- If every use is registered (and the children of the dropped model's reference refer to it, and every use of
the dropped model belongs to a model of the module), then after the re-pointing NO use names the dropped model:
the module never names a class that is no longer written. Any number of uses, any store. -/
theorem redirect_leaves_no_use (p : User → Bool) (dup target : Ref) (s s' : Store) (uses : List User)
    (hne : dup ≠ target) (hwf : ∀ u ∈ s.kids dup, s.refOf u = some dup)
    (hreg : registered s uses = true) (hp : ∀ u ∈ uses, s.refOf u = some dup → p u = true)
    (h : redirect p dup target s = some s') : naming s' uses dup = [] := by
  obtain ⟨s'', h', a, _, c, _⟩ := repointList_spec p dup target hne (s.kids dup) s (fun u hu => Or.inl (hwf u hu))
  have : s'' = s' := Option.some.inj (h'.symm.trans h)
  subst this
  simp only [naming, List.filter_eq_nil_iff]
  intro u hu
  by_cases hd : s.refOf u = some dup
  · have hk : u ∈ s.kids dup := by
      have := (List.all_eq_true.mp hreg) u hu
      simpa [hd] using this
    have := (a u hk (hp u hu hd)).1
    rw [this]
    simpa using fun e : target = dup => hne e.symm
  · have hk : u ∉ s.kids dup := fun hk => hd (hwf u hk)
    rw [c u (Or.inl hk)]
    simpa using hd

/-- non-vacuity: reference 1 (dropped) is used by the members 10 and 11 and by 12 inside a container; reference 0
(kept) by 5; every use is registered and takes part -/
example : let s := Store.ofLists [(0, [5]), (1, [10, 11, 12])] [(5, some 0), (10, some 1), (11, some 1), (12, some 1)]
    (1 : Ref) ≠ 0 ∧ (∀ u ∈ s.kids 1, s.refOf u = some 1) ∧ registered s [5, 10, 11, 12] = true ∧
    (∀ u ∈ [5, 10, 11, 12], s.refOf u = some 1 → (fun _ => true) u = true) ∧
    (redirect (fun _ => true) 1 0 s).map (fun s' => naming s' [5, 10, 11, 12] 0) = some [5, 10, 11, 12] := by decide

/-- …and the bookkeeping stays intact for the next pass: with pairwise distinct children, every use is still
registered after the re-pointing. -/
theorem redirect_keeps_registered (p : User → Bool) (dup target : Ref) (s s' : Store) (uses : List User)
    (hne : dup ≠ target) (hwf : ∀ u ∈ s.kids dup, s.refOf u = some dup) (hnd : (s.kids dup).Nodup)
    (hreg : registered s uses = true) (h : redirect p dup target s = some s') : registered s' uses = true := by
  obtain ⟨s'', h', kd, kt, ru⟩ := repointList_exact p dup target hne (s.kids dup) s hnd hwf
  obtain ⟨s3, h3, a, _, c, d⟩ := repointList_spec p dup target hne (s.kids dup) s (fun u hu => Or.inl (hwf u hu))
  have e1 : s'' = s' := Option.some.inj (h'.symm.trans h)
  have e2 : s3 = s' := Option.some.inj (h3.symm.trans h)
  subst e1
  subst e2
  rw [registered, List.all_eq_true]
  intro u hu
  have hru := (List.all_eq_true.mp hreg) u hu
  by_cases hm : u ∈ s.kids dup ∧ p u = true
  · obtain ⟨r1, _, r3⟩ := a u hm.1 hm.2
    simp [r1, r3]
  · have hsame : s3.refOf u = s.refOf u := by
      apply c
      by_cases hk : u ∈ s.kids dup
      · exact Or.inr (by simpa using fun hp => hm ⟨hk, hp⟩)
      · exact Or.inl hk
    rw [hsame]
    cases hr : s.refOf u with
    | none => rfl
    | some r =>
      rw [hr] at hru
      have hin : u ∈ s.kids r := by simpa using hru
      by_cases hrd : r = dup
      · subst hrd
        have hpu : p u = false := by simpa using fun hp => hm ⟨hin, hp⟩
        simp [kd, hin, hpu]
      · by_cases hrt : r = target
        · subst hrt
          simp [kt, hin]
        · simp [d r hrd hrt, hin]

example : (Store.ofLists [(0, [5]), (1, [10, 11])] [(5, some 0), (10, some 1), (11, some 1)]).kids 1 = [10, 11] ∧
    [10, 11].Nodup := by decide

/-- WITNESS FAMILY (what a `DataType` made by `.copy()` does): a use of the dropped model that is NOT among the
children of its reference — or that does not take part, because its `parent` chain does not lead to a model of
the module — still names the dropped model after the pass, whatever else is in the store. -/
theorem unregistered_use_left_behind (p : User → Bool) (dup target : Ref) (s s' : Store) (u : User)
    (hne : dup ≠ target) (hwf : ∀ u ∈ s.kids dup, s.refOf u = some dup)
    (hu : s.refOf u = some dup) (hout : u ∉ s.kids dup ∨ p u = false)
    (h : redirect p dup target s = some s') : s'.refOf u = some dup := by
  obtain ⟨s'', h', _, _, c, _⟩ := repointList_spec p dup target hne (s.kids dup) s (fun u hu => Or.inl (hwf u hu))
  have : s'' = s' := Option.some.inj (h'.symm.trans h)
  subst this
  rw [c u hout, hu]

/-- the concrete witness: the member 10 of the base class is registered with the dropped enum 1, the copy 11 in the
subclass is not; `registered` says so, and after the pass the subclass still names the dropped enum -/
theorem unregistered_use_witness :
    let s := Store.ofLists [(0, [5]), (1, [10])] [(5, some 0), (10, some 1), (11, some 1)]
    registered s [5, 10, 11] = false ∧ unregistered s [5, 10, 11] = [11] ∧
    (redirect (fun _ => true) 1 0 s).map (fun s' => naming s' [5, 10, 11] 1) = some [11] := by decide

end RefChildren

end Dcg.Props.C14
