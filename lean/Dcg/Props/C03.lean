import Dcg.Proofs.Sem
import Dcg.Proofs.CopyTypes
/-
C03 — every instance valid under the schema is accepted by the generated model.

Objects of the statement:
* `validJ re f defs s v`      JSON-Schema validity (Dcg/Sem/Schema.lean, trusted, tested against jsonschema)
* `tr st o ctx s`             stage 1 of the generator (Dcg/Model/Translate.lean, tested against the real parser)
* `acceptsTy st re g D t v`   pydantic's verdict on the IR (Dcg/Sem/Pyd.lean, trusted, tested against the exec'd classes)
`re` — the regular-expression oracle — is universally quantified: the theorems hold for every
interpretation of patterns, as long as BOTH sides use the same one (pydantic-v1 `regex=` uses
`re.match`, JSON Schema says search: that difference is outside the theorem and is a known finding).
`allOf` composition (`Schema.allOf`: `$ref` parts + one inline object + an allOf-level `required`) and
OpenAPI discriminators (`Schema.disc`, with or without `mapping`) are constructors of
`Dcg.Sem.Schema` and are covered by `valid_accepted_partial`; `discriminated_valid_accepted` spells the
discriminator case out.
`required` NEXT TO `allOf` naming an INHERITED member: the subclass gets a copy of the base's member
(`Parser.__override_required_field`, `_copy_data_types`; Dcg/Model/CopyTypes.lean) — last section.
-/
namespace Dcg.Props.C03
open Dcg.Sem Dcg.Sem.Pyd Dcg.Model.Constraints Dcg.Model.Translate Dcg.Proofs.Sem

/-- The generated tables (`kwargs_schema_to_model`, the filter sets, the `Constraints` alias maps)
route every supported keyword to the pydantic keyword that enforces it — in both styles.
Re-checked by the kernel against the tables of the current tree. -/
theorem tableOK : ∀ st : Style, TableOK st := by
  intro st
  cases st <;> decide +kernel

/-- FULL STRENGTH: for every style, option vector, regex oracle, definitions environment, place
(`ctx`), schema and JSON value, and every amount of fuel on either side: a valid value is not
rejected by the generated model. Kept visible; it is FALSE on the pinned tree (see below). -/
def ValidAccepted : Prop :=
  ∀ (st : Style) (o : Opts) (re : Regex) (defs : Defs) (f g : Nat) (ctx : Ctx) (s : Schema) (v : Json),
    validJ re f defs s v = true →
      acceptsTy st re g (trDefs st o defs) (tr st o ctx s) v ≠ .reject

/-- PARTIAL (unbounded in schema depth, value size, recursion through `$ref`, both fuels): the
statement holds on `InSubset` — at every scalar only the keywords of its type, integer-typed bounds
written as integers (excludes D10), distinct member names, `required` naming declared members —
for scalars with bounds and nullable type lists, enum, const, arrays with minItems/maxItems, objects
with required / additionalProperties true|false|absent, map objects (`additionalProperties: S`), free-form and
map objects behind a nullable type list (`"type": ["object", "null"]`: `Schema.ndict`), recursive `$ref`, anyOf and
oneOf, allOf and discriminators; for both styles and all three constraint routings. -/
theorem valid_accepted_partial (st : Style) (o : Opts) (re : Regex) (defs : Defs)
    (hd : defsInSubset defs = true) (f g : Nat) (ctx : Ctx) (s : Schema) (v : Json)
    (hs : s.inSubset = true) (hv : validJ re f defs s v = true) :
    acceptsTy st re g (trDefs st o defs) (tr st o ctx s) v ≠ .reject :=
  valid_accepted_all st o re defs (tableOK st) hd g g (Nat.le_refl _) f ctx s v hs hv

/-- DISCRIMINATORS, spelled out (a corollary of the theorem above for `Schema.disc`, any place `ctx`):
take ANY key `tag` of the mapping in effect (the written `mapping`, or — without one — every
alternative under its own name) that points at an alternative `r` of the union, and any object that
carries `tag` under the discriminator property and is valid under definition `r` (for `oneOf`: under no
other alternative). The generated `Union[…] = Field(discriminator=…)` does not reject it — in
particular when several keys (`dog`, `puppy`) select the same definition. -/
theorem discriminated_valid_accepted (st : Style) (o : Opts) (re : Regex) (defs : Defs)
    (hd : defsInSubset defs = true) (f g : Nat) (ctx : Ctx) (one : Bool) (prop : List Char)
    (refs : List (List Char)) (mapping : List (List Char × List Char))
    (hs : (Schema.disc one prop refs mapping).inSubset = true)
    (kvs : List (List Char × Json)) (tag r : List Char) (t : Schema)
    (hk : (tag, r) ∈ effMapping refs mapping) (hr : r ∈ refs)
    (htag : kvs.lookup prop = some (.str tag)) (hdef : defs.lookup r = some t)
    (hv : validJ re f defs t (.obj kvs) = true)
    (hone : one = true → countTrue (refs.map (fun r' => match defs.lookup r' with
      | some t' => validJ re f defs t' (.obj kvs)
      | none => false)) = 1) :
    acceptsTy st re g (trDefs st o defs) (tr st o ctx (.disc one prop refs mapping)) (.obj kvs) ≠ .reject := by
  refine valid_accepted_partial st o re defs hd (f + 1) g ctx _ _ hs ?_
  have hn : namesNodup (mapping.map (·.1)) = true := by
    simp only [Schema.inSubset, Bool.and_eq_true] at hs
    exact hs.1
  -- the key is found by the lookup, and the lookup gives `r`
  have hlk : (effMapping refs mapping).lookup tag = some r := by
    cases hl : (effMapping refs mapping).lookup tag with
    | none =>
      have := lookup_isSome_of_mem _ _ _ hk  -- a key that occurs is found
      simp [hl] at this
    | some r' => rw [effMapping_functional refs mapping hn hk hl]
  simp only [validJ, htag, hlk, hdef, hv, Bool.and_true]
  have hrc : refs.contains r = true := by simpa using hr
  simp only [hrc, Bool.and_true]
  cases one with
  | true =>
    simp only [if_true, beq_iff_eq]
    refine Eq.trans (congrArg (fun F => countTrue (List.map F refs)) (funext fun r' => ?_)) (hone rfl)
    cases List.lookup r' defs <;> simp
  | false =>
    simp only [Bool.false_eq_true, if_false, List.any_eq_true]
    exact ⟨r, hr, by simp [hdef, hv]⟩

/-- the demo of the discriminator theorem: `dog` and `puppy` both select Dog -/
def petDefs : Defs :=
  [("Cat".toList, .object [("pet-type".toList, .scalar .string false {}), ("lives".toList, .scalar .integer false {})]
      ["pet-type".toList, "lives".toList] .forbid),
   ("Dog".toList, .object [("pet-type".toList, .scalar .string false {}), ("bark".toList, .scalar .boolean false {})]
      ["pet-type".toList, "bark".toList] .forbid)]
def petUnion : Schema :=
  .disc true "pet-type".toList ["Cat".toList, "Dog".toList]
    [("cat".toList, "Cat".toList), ("dog".toList, "Dog".toList), ("puppy".toList, "Dog".toList)]
def puppy : Json := .obj [("pet-type".toList, .str "puppy".toList), ("bark".toList, .bool true)]

/-- non-vacuity: the hypotheses hold for the `puppy` object; the class of Dog carries BOTH tags; the
tagged union accepts the puppy (strong conclusion) and rejects an unknown tag -/
example : petUnion.inSubset = true ∧ defsInSubset petDefs = true ∧
    validJ (fun _ _ => true) 6 petDefs petUnion puppy = true ∧
    tagAtoms ["Cat".toList, "Dog".toList]
      [("cat".toList, "Cat".toList), ("dog".toList, "Dog".toList), ("puppy".toList, "Dog".toList)] "Dog".toList
      = [.str "dog".toList, .str "puppy".toList] ∧
    acceptsTy .v2 (fun _ _ => true) 8 (trDefs .v2 {} petDefs) (tr .v2 {} .plain petUnion) puppy = .accept ∧
    acceptsTy .v1 (fun _ _ => true) 8 (trDefs .v1 {} petDefs) (tr .v1 {} .top petUnion) puppy = .accept ∧
    acceptsTy .v2 (fun _ _ => true) 8 (trDefs .v2 {} petDefs) (tr .v2 {} .plain petUnion)
      (.obj [("pet-type".toList, .str "wolf".toList), ("bark".toList, .bool true)]) = .reject := by
  decide +kernel

/-- WITNESS that "every key" is needed: were only the FIRST key pointing at a definition written into
its class (`dog` for Dog), the valid `puppy` object would be rejected -/
theorem first_key_only_rejects_valid :
    validJ (fun _ _ => true) 6 petDefs petUnion puppy = true ∧
    acceptsTy .v2 (fun _ _ => true) 8 (trDefs .v2 {} petDefs)
      (.tagged "pet-type".toList [([.str "cat".toList], "Cat".toList), ([.str "dog".toList], "Dog".toList)])
      puppy = .reject := by decide +kernel

/-! ### second half of the property: serialising the accepted object by wire name gives the value back -/

/-- FULL STRENGTH: a valid value is dumped back unchanged. Kept visible; FALSE on the pinned tree
(known finding D19, refuted below): an open object schema (`additionalProperties` absent) admits members
it does not declare, the generated class has pydantic's default `extra` (ignore) and drops them. -/
def DumpRoundtrip : Prop :=
  ∀ (st : Style) (o : Opts) (re : Regex) (defs : Defs) (f g : Nat) (ctx : Ctx) (s : Schema) (v : Json),
    validJ re f defs s v = true →
      dump st re g (trDefs st o defs) (tr st o ctx s) v = v

/-- PARTIAL (unbounded in schema depth, value size, `$ref` recursion, both fuels; both styles, all
routings, every regex oracle; nested models, lists, dicts, unions, tagged unions, allOf classes):
a valid value WITHOUT UNDECLARED MEMBERS — the decidable hypothesis `declared`: wherever the dump meets a
class with the default `extra`, every member of the object is declared by the class or a base — is
not rejected, and dumping it by wire name (unset members excluded) returns the same JSON value:
aliases are the original names, absent optional members stay absent, nulls stay nulls. -/
theorem dump_roundtrip_partial (st : Style) (o : Opts) (re : Regex) (defs : Defs)
    (hd : defsInSubset defs = true) (f g : Nat) (ctx : Ctx) (s : Schema) (v : Json)
    (hs : s.inSubset = true) (hv : validJ re f defs s v = true)
    (hdecl : declared st re g (trDefs st o defs) (tr st o ctx s) v = true) :
    acceptsTy st re g (trDefs st o defs) (tr st o ctx s) v ≠ .reject ∧
    dump st re g (trDefs st o defs) (tr st o ctx s) v = v :=
  ⟨valid_accepted_partial st o re defs hd f g ctx s v hs hv, dump_id st re g _ _ v hdecl⟩

/-- …for EVERY type and value (no schema needed): the only thing `dump` ever does to a value is to drop
members that a class with the default `extra` does not declare. -/
theorem dump_identity_on_declared (st : Style) (re : Regex) (g : Nat) (D : IRDefs) (t : Ty) (v : Json)
    (h : declared st re g D t v = true) : dump st re g D t v = v :=
  dump_id st re g D t v h

/-- REFUTATION of `DumpRoundtrip` (known finding D19): `{"type":"object","properties":{"a":{"type":"integer"}}}`
admits `{"a":1,"zz":2}`; the class accepts it and dumps `{"a":1}`. -/
theorem dump_roundtrip_false_D19 : ¬ DumpRoundtrip := by
  intro h
  have := h .v2 {} (fun _ _ => true) [] 3 4 .top
    (.object [("a".toList, .scalar .integer false {})] [] .absent)
    (.obj [("a".toList, .num ⟨1, 0⟩), ("zz".toList, .num ⟨2, 0⟩)]) (by decide +kernel)
  have hw := congrArg Json.width this
  revert hw
  decide +kernel

/-- the witness is accepted, and it is outside `declared`, as it must be -/
example : acceptsTy .v2 (fun _ _ => true) 4 [] (tr .v2 {} .top (.object [("a".toList, .scalar .integer false {})] [] .absent))
      (.obj [("a".toList, .num ⟨1, 0⟩), ("zz".toList, .num ⟨2, 0⟩)]) = .accept ∧
    declared .v2 (fun _ _ => true) 4 [] (tr .v2 {} .top (.object [("a".toList, .scalar .integer false {})] [] .absent))
      (.obj [("a".toList, .num ⟨1, 0⟩), ("zz".toList, .num ⟨2, 0⟩)]) = false := by decide +kernel

/-- the document a test would write: closed object, required bounded integer, optional nullable
string with length bounds, array of a recursive definition -/
def demoDefs : Defs :=
  [("Node".toList, .object [("n".toList, .scalar .integer false { minimum := some ⟨0, 0⟩ }),
                            ("next".toList, .ref "Node".toList)] ["n".toList] .forbid)]
def demoSchema : Schema :=
  .object [("a".toList, .scalar .integer false { minimum := some ⟨1, 0⟩, exclMax := some ⟨10, 0⟩ }),
           ("s".toList, .scalar .string true { minLength := some 1, maxLength := some 3 }),
           ("xs".toList, .array (.ref "Node".toList) (some 1) none)]
    ["a".toList] .forbid
def demoValue : Json :=
  .obj [("a".toList, .num ⟨9, 0⟩), ("s".toList, .null),
        ("xs".toList, .arr [.obj [("n".toList, .num ⟨0, 0⟩),
                                 ("next".toList, .obj [("n".toList, .num ⟨5, 0⟩)])]])]

/-- non-vacuity: the hypotheses are satisfiable and the conclusion is the strong one (`accept`) -/
example : demoSchema.inSubset = true ∧ defsInSubset demoDefs = true ∧
    validJ (fun _ _ => true) 8 demoDefs demoSchema demoValue = true ∧
    acceptsTy .v2 (fun _ _ => true) 12 (trDefs .v2 {} demoDefs) (tr .v2 {} .top demoSchema) demoValue
      = .accept ∧
    acceptsTy .v1 (fun _ _ => true) 12 (trDefs .v1 { fieldConstraints := true } demoDefs)
      (tr .v1 { fieldConstraints := true } .top demoSchema) demoValue = .accept := by
  decide +kernel

/-- non-vacuity of `dump_roundtrip_partial`: the demo value (absent optional member, a null, a list of
recursive models) and the `puppy` of the discriminator demo satisfy `declared` -/
example : declared .v2 (fun _ _ => true) 12 (trDefs .v2 {} demoDefs) (tr .v2 {} .top demoSchema) demoValue = true ∧
    (dump .v2 (fun _ _ => true) 12 (trDefs .v2 {} demoDefs) (tr .v2 {} .top demoSchema) demoValue).beq demoValue = true ∧
    declared .v1 (fun _ _ => true) 8 (trDefs .v1 {} petDefs) (tr .v1 {} .plain petUnion) puppy = true := by
  decide +kernel

/-- …and the models do reject: one step outside the exclusive bound -/
example : acceptsTy .v2 (fun _ _ => true) 12 (trDefs .v2 {} demoDefs) (tr .v2 {} .top demoSchema)
    (.obj [("a".toList, .num ⟨10, 0⟩)]) = .reject := by decide +kernel

/-- REFUTATION of the full statement (known finding D10): `{"type":"integer","exclusiveMaximum":7.5}`
admits 7, the generated `conint(lt=7)` rejects it. -/
theorem valid_accepted_false_D10 : ¬ ValidAccepted := by
  intro h
  have := h .v2 {} (fun _ _ => true) [] 1 2 .plain
    (.scalar .integer false { exclMax := some ⟨75, 1⟩ }) (.num ⟨7, 0⟩) (by decide +kernel)
  exact this (by decide +kernel)

/-- the witness lies outside `InSubset`, as it must -/
example : (Schema.scalar .integer false { exclMax := some ⟨75, 1⟩ }).inSubset = false := by
  decide +kernel

/-! ### nullable type lists on objects (`"type": ["object", "null"]` without `properties`: `Schema.ndict`) -/

/-- NULL IS KEPT, in every place: for every style, option vector, place `ctx` (document / definition, member,
`additionalProperties` value, array item, union alternative), value schema and environment, the type generated
for a nullable free-form / map object accepts `null` (strong conclusion) — the `null` of the type list reaches
the IR as `Optional[…]` wherever the schema stands, not only where a member-level `Optional` would hide its loss. -/
theorem nullable_object_accepts_null (st : Style) (o : Opts) (re : Regex) (D : IRDefs) (g : Nat) (ctx : Ctx)
    (value : Schema) : acceptsTy st re (g + 2) D (tr st o ctx (.ndict value)) .null = .accept := by
  cases ctx <;> simp [tr, acceptsTy, Json.isNull, Tri.and, checkCons]

/-- …and it is an instance of the general theorem: `ndict` is inside `InSubset` whenever its value schema is -/
example (value : Schema) (h : value.inSubset = true) : (Schema.ndict value).inSubset = true := by
  simpa [Schema.inSubset] using h

/-- WITNESS that the `Optional` is needed at the place itself: the same dictionary type without it — what the
object branch of `parse_item` builds for a non-nullable free-form object — rejects the valid `null`, as an array
item and as a map value (only directly on a non-required member would pydantic's member-level Optional hide it) -/
theorem nullable_lost_rejects_null :
    validJ (fun _ _ => true) 4 [] (.array (.ndict .any) none none) (.arr [.null]) = true ∧
    acceptsTy .v2 (fun _ _ => true) 6 [] (tr .v2 {} .plain (.array (.ndict .any) none none)) (.arr [.null]) = .accept ∧
    acceptsTy .v2 (fun _ _ => true) 6 [] (.list (.dict .any)) (.arr [.null]) = .reject ∧
    validJ (fun _ _ => true) 4 [] (.dict (.ndict .any)) (.obj [("k".toList, .null)]) = true ∧
    acceptsTy .v2 (fun _ _ => true) 6 [] (tr .v2 {} .plain (.dict (.ndict .any))) (.obj [("k".toList, .null)]) = .accept ∧
    acceptsTy .v2 (fun _ _ => true) 6 [] (.dict (.dict .any)) (.obj [("k".toList, .null)]) = .reject := by
  decide +kernel

/-! ### an INHERITED member re-declared as required (`required` next to `allOf` naming a member of a base class)

`Parser.__override_required_field` gives the subclass a copy of the base's field whose data type TREE is copied
by `_copy_data_types` (Dcg/Model/CopyTypes.lean: `overrideField`, `overrideType`, `copyList`). The subclass's
member must accept exactly what the base's member accepts, apart from being required — whatever is nested in the
type: `List[Optional[str]]`, `Dict[str, Optional[int]]`, `List[List[Optional[float]]]`, unions, constrained types,
references. -/
section InheritedMemberCopy
open Dcg.Model.CopyTypes Dcg.Proofs.CopyTypes

/-- FULL STRENGTH: the data type of the re-declared member is the data type of the base's member, for EVERY tree.
Kept visible; FALSE of the code as a statement about arbitrary trees (a node that carries a `reference` is
re-built through the constructor with `reference=` only, see `copy_faithful_false_decorated_reference`) — the
jsonschema parser never builds such a node (`is_optional`, the container flags and `kwargs` are set on nodes
without a reference; the correspondence campaign counts `plainRefs` on every harvested tree). -/
def CopyFaithful : Prop := ∀ (dflt : Attrs) (t : DT), overrideType dflt t = t

/-- PARTIAL (unbounded in depth and width of the type tree; every attribute vector at every node; every class
default `dflt`): when the reference nodes of the base member's type are plain (`plainRefs`, decidable), the
re-declared member has the SAME data type tree — every `is_optional`, container flag, constraint `kwargs`,
`type`, literal list and `dict_key`, at every level — the same name and the same remaining content, and is
required. -/
theorem override_keeps_type_partial (dflt : Attrs) (f : MField) (h : plainRefs dflt f.ty = true) :
    (overrideField dflt f).ty = f.ty ∧ (overrideField dflt f).required = true ∧
    (overrideField dflt f).name = f.name ∧ (overrideField dflt f).other = f.other :=
  ⟨overrideType_id dflt f.ty h, rfl, rfl, rfl⟩

/-- …the same for the helper itself: `_copy_data_types(ts) = ts` (as trees) for every list of trees with plain
reference nodes, at every nesting depth. -/
theorem copy_data_types_identity (dflt : Attrs) (ts : List DT) (h : plainRefsList dflt ts = true) :
    copyList dflt ts = ts :=
  copyList_id dflt ts h

/-- …hence the subclass's member ACCEPTS EXACTLY what the base's member accepts: for every style, regex oracle,
fuel, environment and JSON value the verdict on the copied type is the verdict on the original one (three-valued:
accept, reject and the lax zone alike). `toTy` reads a data type tree as an IR type; the statement follows from
the equality of the trees and holds for every such reading. -/
theorem override_accepts_same (st : Style) (re : Regex) (g : Nat) (D : IRDefs) (dflt : Attrs) (f : MField)
    (h : plainRefs dflt f.ty = true) (v : Json) :
    acceptsTy st re g D (toTy (overrideField dflt f).ty) v = acceptsTy st re g D (toTy f.ty) v := by
  rw [(override_keeps_type_partial dflt f h).1]

/-- `List[Optional[str]]` as the parser builds it: wrapper node → list node → optional node → `str` -/
def listOptStr : DT :=
  .node none {} [.node none { isList := true } [.node none { isOptional := true } [.node none { type := some "str".toList } []]]]
/-- `Dict[str, Optional[int]]`: the member node itself is the dict node -/
def dictOptInt : DT :=
  .node none { isDict := true } [.node none { isOptional := true } [.node none { type := some "int".toList } []]]
/-- `List[List[Optional[float]]]` with the `null` written as a union alternative inside a wrapper -/
def listListOptFloat : DT :=
  .node none {} [.node none { isList := true } [.node none {} [.node none { isList := true }
    [.node none { isOptional := true } [.node none { type := some "float".toList } []]]]]]
/-- `Dict[str, List[Optional[Part]]]`: a reference under two containers and an optional node -/
def dictListOptRef : DT :=
  .node none { isDict := true } [.node none {} [.node none { isList := true }
    [.node none { isOptional := true } [.node (some "Part".toList) {} []]]]]
def memberOf (t : DT) : MField := ⟨"tags".toList, false, [], t⟩

/-- non-vacuity: the hypothesis holds for these nested trees (with a reference among them), the copy is
required, and the types accept `null` at the nested place -/
example : plainRefs {} listOptStr = true ∧ plainRefs {} dictOptInt = true ∧ plainRefs {} listListOptFloat = true ∧
    plainRefs {} dictListOptRef = true ∧ (overrideField {} (memberOf dictListOptRef)).required = true ∧
    acceptsTy .v2 (fun _ _ => true) 8 [] (toTy (overrideField {} (memberOf listOptStr)).ty)
      (.arr [.str "a".toList, .null]) = .accept ∧
    acceptsTy .v1 (fun _ _ => true) 8 [] (toTy (overrideField {} (memberOf dictOptInt)).ty)
      (.obj [("x".toList, .num ⟨1, 0⟩), ("y".toList, .null)]) = .accept ∧
    acceptsTy .v2 (fun _ _ => true) 8 [] (toTy (overrideField {} (memberOf listListOptFloat)).ty)
      (.arr [.arr [.num ⟨15, 1⟩, .null], .arr []]) = .accept ∧
    acceptsTy .v2 (fun _ _ => true) 8 [] (toTy (overrideField {} (memberOf listOptStr)).ty)
      (.arr [.num ⟨1, 0⟩]) ≠ .accept := by
  decide +kernel

/-- WITNESS that the container nodes must be COPIED, not re-built: a copy that builds a nested container node
through the constructor and hands over only `is_list` / `is_set` / `is_dict` / `dict_key` (`rebuildType`) turns
`List[Optional[str]]` into `List[str]`, `Dict[str, Optional[int]]` into `Dict[str, int]`, and
`List[List[Optional[float]]]` into `List[List[float]]`: instances that are valid under the schema of the base's
member — and that the base's member accepts — are rejected by the subclass. -/
theorem rebuilt_container_rejects_valid :
    validJ (fun _ _ => true) 4 [] (.array (.scalar .string true {}) none none) (.arr [.str "a".toList, .null]) = true ∧
    acceptsTy .v2 (fun _ _ => true) 8 [] (toTy listOptStr) (.arr [.str "a".toList, .null]) = .accept ∧
    acceptsTy .v2 (fun _ _ => true) 8 [] (toTy (rebuildType {} listOptStr)) (.arr [.str "a".toList, .null]) = .reject ∧
    validJ (fun _ _ => true) 4 [] (.dict (.scalar .integer true {})) (.obj [("y".toList, .null)]) = true ∧
    acceptsTy .v2 (fun _ _ => true) 8 [] (toTy dictOptInt) (.obj [("y".toList, .null)]) = .accept ∧
    acceptsTy .v2 (fun _ _ => true) 8 [] (toTy (rebuildType {} dictOptInt)) (.obj [("y".toList, .null)]) = .reject ∧
    acceptsTy .v1 (fun _ _ => true) 8 [] (toTy listListOptFloat) (.arr [.arr [.null]]) = .accept ∧
    acceptsTy .v1 (fun _ _ => true) 8 [] (toTy (rebuildType {} listListOptFloat)) (.arr [.arr [.null]]) = .reject := by
  decide +kernel

/-- REFUTATION of `CopyFaithful` over arbitrary trees: a node that carries a reference AND `is_optional` comes
back without the flag (`data_type_.__class__(reference=…)`). Not a finding about /repo: no parser builds such a
node (see `CopyFaithful`); it is why `plainRefs` is a hypothesis. -/
theorem copy_faithful_false_decorated_reference : ¬ CopyFaithful := by
  intro h
  have := h {} (.node (some "Part".toList) { isOptional := true } [])
  simp [overrideType] at this

/-- the witness is outside `plainRefs`, as it must be -/
example : plainRefs {} (.node (some "Part".toList) { isOptional := true } []) = false := by decide +kernel

end InheritedMemberCopy

end Dcg.Props.C03
