import Dcg.Proofs.Types
import Dcg.Proofs.Rename
import Dcg.Proofs.SpellOp
import Dcg.Proofs.NoneOnce
import Dcg.Proofs.FieldOpt
import Dcg.Proofs.TreeBridge
/-
C13 — type annotations are well-formed and mean the same in every spelling.
Only property theorems live here; helper lemmas are in Dcg/Proofs/Types.lean.

`typeHint` (Model.Types) is the transliteration of `DataType.type_hint` with its string surgery;
`hintE` (Model.HintExpr) renders the same tree to a typing expression and removes `None` on the
expression; `print`/`denote` (Sem.Typing) are the syntax and the meaning of typing expressions.
`wfTree t` = "AtomsPlain": no type name, reference name or literal of the tree contains one of
`[ ] , |` (or white space at an end), and no node is empty.
-/
namespace Dcg.Props.C13
open Dcg.Model.Types Dcg.Model.HintExpr Dcg.Proofs.Types Dcg.Proofs.Cover
open Dcg.Proofs.TypesOp Dcg.Proofs.HintOp Dcg.Proofs.PrintInj Dcg.Proofs.SpellOp Dcg.Proofs.NoneOnce Dcg.Proofs.FieldOpt
open Dcg.Sem.Typing hiding Str sNone sComma sPipe

def lit (s : String) : Str := s.toList
def leaf (ty : String) (opt : Bool := false) : DT := .mk { ty := ty.toList, isOptional := opt } none []
def typingO : Opts := {}
def operatorO : Opts := { unionOp := true }

/-! ### The rendered text is the printed structural rendering (typing spelling) -/

/-- For every tree with plain names and each of the four container spellings without the union
operator: the text the code builds by splitting and re-joining strings is exactly the printed
form of the expression obtained structurally, and the `is_optional` flag it leaves is the
structural one. (`hint_parses`: the hint *is* a printed typing expression.) -/
theorem typeHint_eq_print_typing (o : Opts) (ho : o.unionOp = false) (t : DT) (hw : wfTree t = true) :
    (typeHint o t).1 = print (hintE o t).1 ∧ (typeHint o t).2 = (hintE o t).2 := by
  have := (typeHint_typing o ho t hw).1
  rw [this]; exact ⟨rfl, rfl⟩

example : wfTree (.mk { isOptional := true } none [.mk { literals := [lit "'a b'", lit "1"] } none [], leaf "int" true, leaf "None"]) = true := by
  decide

/-- THE SAME FOR THE `|` SPELLING (`use_union_operator=True`, any of the four container spellings):
for every tree with plain names (`wfTree`: no type name, reference name or literal contains one of
`[ ] , |`, names contain no white space, literals none at their ends, no node is empty) the text
`DataType.type_hint` builds — `re.split(r"\s*\|\s*")` at EVERY `|` regardless of brackets, dropping the
parts that read `None`, re-joining with `" | "`, `get_optional_type` appending `" | None"` — is exactly
the printed form of the structurally rendered expression (operator printer: `A | B | None`), the
`is_optional` flag it leaves is the structural one, and that expression is a well-formed hint
expression: every `|` union is flat, has ≥ 2 alternatives and mentions `None` only in last position.
(The character-level core is `removeNoneB_print`: the parts of a printed expression are computed
structurally, and no part other than the last reads `None`.) -/
theorem typeHint_eq_print_operator (o : Opts) (ho : o.unionOp = true) (t : DT) (hw : wfTree t = true) :
    (typeHint o t).1 = print (hintE o t).1 ∧ (typeHint o t).2 = (hintE o t).2 ∧ wfB (hintE o t).1 = true := by
  obtain ⟨h1, h2⟩ := typeHint_operator o ho t hw
  rw [h1]; exact ⟨rfl, rfl, h2⟩

/-- non-vacuity: `Dict[int | None, List[Set[str] | Literal['a b', 1] | None] | Foo] | None` -/
example :
    let t : DT := .mk { isOptional := true, isDict := true } (some (leaf "int" true))
      [.mk { isList := true } none [.mk { isOptional := true } none
          [.mk { isSet := true } none [leaf "str"], .mk { literals := [lit "'a b'", lit "1"] } none [], leaf "None"]],
       .mk { ref := some { shortName := lit "Foo" } } none []]
    wfTree t = true ∧
    (typeHint operatorO t).1 = lit "Dict[int | None, List[Set[str] | Literal['a b', 1] | None] | Foo] | None" := by
  decide

/-- `_remove_none_from_union(text, use_union_operator=True)` and `get_optional_type(text, True)` on the
printed form of ANY well-formed hint expression: the string surgery is the structural removal of the
`None` alternatives of the top-level union, resp. the structural `… | None`. -/
theorem removeNone_structural_operator (e : TExpr) (h : wfB e = true) :
    removeNone true (print e) = print (rmE true e) ∧
    getOptionalType true (print e) = print (getOptionalE true e) := by
  refine ⟨?_, (getOptional_operator e h).1⟩
  simp only [removeNone, rmE, if_true]
  exact removeNoneB_print e h

example : wfB (.bor [.app (lit "List") [.bor [.atom (lit "int"), eNone]], .atom (lit "str"), eNone]) = true ∧
    removeNone true (lit "List[int | None] | str | None") = lit "List[int | None] | str" := by
  decide

/-- … and unambiguously so: two different well-formed expressions never print to the same text
(the printer is injective on expressions with plain names; no `|`). -/
theorem hint_unambiguous (e e' : TExpr) (h : wfU e = true) (h' : wfU e' = true) (hp : print e = print e') : e = e' :=
  print_inj e h e' h' hp

/-- ALL SPELLINGS: the printer is injective on well-formed hint expressions (`wfB`: subscriptions
`h[a, b]` incl. `Optional[…]`/`Union[…]`, and flat `a | b` unions with `None` last), so a hint text has
at most one reading; the expressions of the `Union[…]` spelling are among them. -/
theorem hint_unambiguous_all (e e' : TExpr) (h : wfB e = true) (h' : wfB e' = true) (hp : print e = print e') : e = e' :=
  print_inj_wfB e h e' h' hp

example : wfB (.app (lit "Dict") [.atom (lit "str"), .bor [.app (lit "List") [.atom (lit "int")], eNone]]) = true ∧
    wfU (.app sOptional [.app sUnion [.atom (lit "int"), .atom (lit "str")]]) = true := by decide

/-- the expressions of the `Union[…]` spelling (what `typeHint_eq_print_typing` yields) are well-formed hint
expressions in the sense of `hint_unambiguous_all`: one notion of reading for all eight spellings. -/
theorem union_spelling_is_wellformed (e : TExpr) (h : wfU e = true) : wfB e = true := wfB_of_wfU e h

/-! ### Balanced brackets -/

/-- FULL STATEMENT (kept visible; false of the code): every tree renders with balanced brackets. -/
def HintBalanced : Prop := ∀ (o : Opts) (t : DT), balanced (typeHint o t).1 = true

/-- PARTIAL, all eight spellings: plain names ⇒ balanced brackets. -/
theorem hint_balanced_partial (o : Opts) (t : DT) (hw : wfTree t = true) : balanced (typeHint o t).1 = true := by
  cases ho : o.unionOp with
  | false => exact hint_balanced_typing o ho t hw
  | true => exact hint_balanced_operator o ho t (bfTree_of_wfTree t hw)

/-- STRONGER for the `|` spelling: it is enough that no name contains a bracket — commas, pipes and
blanks in names and literal values cannot unbalance the hint there. -/
theorem hint_balanced_operator_spelling (o : Opts) (ho : o.unionOp = true) (t : DT) (hb : bfTree t = true) :
    balanced (typeHint o t).1 = true :=
  hint_balanced_operator o ho t hb

/-- REFUTATION (known finding D9): the literal value `[` under an optional union. The text
`Optional[Union[Literal['[', 'x'], int]]` is cut at the wrong comma. -/
theorem bracket_literal_breaks :
    (typeHint typingO (.mk { isOptional := true } none [.mk { literals := [lit "'['", lit "'x'"] } none [], leaf "int"])).1
      = lit "Optional[Literal['[', 'x'], int]" ∧
    balanced (lit "Optional[Literal['[', 'x'], int]") = false := by
  decide

theorem hint_balanced_full_false : ¬ HintBalanced := by
  intro h
  have := h typingO (.mk { isOptional := true } none [.mk { literals := [lit "'['", lit "'x'"] } none [], leaf "int"])
  rw [bracket_literal_breaks.1] at this
  exact absurd this (by decide)

/-! ### The string-level `None` removal is the structural one -/

/-- `Union[…]` spelling, most general form: on the printed form of ANY tree of nested `Union[…]`
over closed leaves (brackets closed, no comma outside brackets, no blank at an end, not itself a
`Union[`), `_remove_none_from_union` = structural removal (drop `None` members, recursively through
directly nested unions, collapse the empty and the singleton union). Includes: the fuel
`len(text)` given to the model's recursion suffices. -/
theorem removeNone_structural_union (u : UTree) (h : okU u = true) :
    removeNone false (printU u) = printU (rmTree u) := by
  simp only [removeNone, Bool.false_eq_true, if_false, removeNoneU]
  exact removeNoneUF_printU u h _ (Nat.le_refl _)

/-- … and on typing expressions whose names avoid `[ ] , |` -/
theorem removeNone_structural (e : TExpr) (h : wfU e = true) :
    removeNone false (print e) = print (rmE false e) := by
  simp only [removeNone, rmE, Bool.false_eq_true, if_false]
  exact removeNoneU_print e h

example : okU (.union [.leaf (lit "Dict[str, int]"), .leaf (lit "None"), .union [.leaf (lit "None"), .leaf (lit "conint(ge=1)")]]) = true := by
  decide

/-- `|` spelling: a part of `re.split(r"\s*\|\s*", …)` never contains a `|`, so the nested call in
the code (`if " | " in part`) is dead and the model omits it. -/
theorem operator_split_parts_have_no_pipe (s : Str) : ∀ p ∈ splitPipe s, containsSub sPipe p = false :=
  splitPipe_parts_have_no_union s

/-- The full statement is FALSE for the `|` spelling even without odd characters: the split sees
every `|`, also inside brackets, and drops a `None` standing between two of them. (Such a text is
not produced by `type_hint` itself, which writes `None` last.) -/
theorem operator_removal_reaches_into_brackets :
    removeNone true (lit "List[int | None | str] | None") = lit "List[int | str]" := by
  decide

/-- REFUTATION (known finding D9): blanks around a `|` inside a literal value are normalised away. -/
theorem pipe_literal_mangled :
    (typeHint operatorO (.mk { isOptional := true } none [.mk { literals := [lit "'a  |  b'"] } none [], leaf "int"])).1
      = lit "Literal['a | b'] | int | None" := by
  decide

/-! ### Making a type optional keeps the alternatives -/

/-- On expressions, both spellings: `get_optional_type` yields an expression with `None` and with
exactly the alternatives it had (only the empty hint is replaced by `None`). -/
theorem optional_keeps_alternatives (u : Bool) (e : TExpr)
    (hne : alts e ≠ [] → print (rmE u e) ≠ [] ∧ print (rmE u e) ≠ sNone) :
    alts (getOptionalE u e) = alts e ∧ hasNone (getOptionalE u e) = true :=
  alts_getOptionalE u e hne

/-- … and the string function of the code computes that expression (typing spelling, plain names) -/
theorem optional_keeps_alternatives_text (e : TExpr) (hw : wfU e = true) :
    getOptionalType false (print e) = print (getOptionalE false e) :=
  (getOptionalType_typing e hw).1

example : (alts (getOptionalE false (.app sUnion [.atom (lit "int"), eNone, .atom (lit "str")]))).map Ty.show =
    [lit "int", lit "str"] ∧
    print (getOptionalE false (.app sUnion [.atom (lit "int"), eNone, .atom (lit "str")])) = lit "Optional[Union[int, str]]" := by
  decide

/-- the full statement on text is refuted by `pipe_literal_mangled`: the alternative
`Literal['a  |  b']` has become `Literal['a | b']`. -/
theorem optional_loses_literal_text :
    getOptionalType true (lit "Literal['a  |  b'] | int") = lit "Literal['a | b'] | int | None" := by
  decide

/-! ### No double Optional, `None` once -/

/-- FULL STATEMENTS (kept visible; false of the code in the typing spelling) -/
def NoDoubleOptional : Prop :=
  ∀ (o : Opts) (t : DT), wfTree t = true → containsSub (lit "Optional[Optional[") (typeHint o t).1 = false

/-- REFUTATION (known finding C13-F2): the typing-spelling removal only understands `Union[`. -/
theorem nested_optional_double_none :
    (typeHint typingO (.mk { isOptional := true } none [leaf "int" true])).1 = lit "Optional[Optional[int]]" ∧
    (typeHint typingO (.mk { isOptional := true } none [leaf "int" true, leaf "str"])).1
      = lit "Optional[Union[Optional[int], str]]" ∧
    (typeHint operatorO (.mk { isOptional := true } none [leaf "int" true, leaf "str"])).1 = lit "int | str | None" := by
  decide

theorem no_double_optional_false : ¬ NoDoubleOptional := by
  intro h
  have := h typingO (.mk { isOptional := true } none [leaf "int" true]) (by decide)
  rw [nested_optional_double_none.1] at this
  exact absurd this (by decide)

/-- FULL STATEMENT (kept visible; false of the code in the typing spelling): at every union level of
the rendered hint (flattened through `Optional[…]`, `Union[…]` and `|`, as `typing` flattens them)
`None` is mentioned at most once (`rootOK`, Model/HintRegion). -/
def NoneOnce : Prop := ∀ (o : Opts) (t : DT), wfTree t = true → rootOK (hintE o t).1 = true

/-- PARTIAL — `none_once` / `no_double_optional` for the `|` spelling, every tree with plain names:
the text `type_hint` builds is the printed form of an expression in which (1) no `Optional[…]` and no
`Union[…]` subscription occurs at all — in particular no doubly wrapped optional —, (2) every `|` union
is flat, mentions `None` only as its last alternative, hence (3) `None` occurs at most once at every
union level. (1) holds for every tree, also with odd names (`no_optional_wrapper_operator`). -/
theorem none_once_operator (o : Opts) (ho : o.unionOp = true) (t : DT) (hw : wfTree t = true) :
    (typeHint o t).1 = print (hintE o t).1 ∧ opFree (hintE o t).1 = true ∧ wfB (hintE o t).1 = true ∧
    rootOK (hintE o t).1 = true := by
  obtain ⟨h1, _, h3⟩ := typeHint_eq_print_operator o ho t hw
  have hf := opFree_hintE o ho t
  exact ⟨h1, hf, h3, (rootOK_of_wfB _ h3 hf).1⟩

/-- `no_double_optional`, `|` spelling, EVERY tree (also with odd names and literals): the structural
rendering under `use_union_operator` never contains an `Optional[…]` or `Union[…]` subscription, so a
doubly wrapped optional cannot be written in that spelling. -/
theorem no_optional_wrapper_operator (o : Opts) (ho : o.unionOp = true) (t : DT) : opFree (hintE o t).1 = true :=
  opFree_hintE o ho t

/-- non-vacuity: an optional union with an optional member and a `None` member, under an optional list -/
example :
    let t : DT := .mk { isOptional := true, isList := true } none
      [.mk { isOptional := true } none [leaf "int" true, leaf "None", .mk {} none [leaf "str" true]]]
    wfTree t = true ∧ (typeHint operatorO t).1 = lit "List[int | str | None] | None" ∧
    (typeHint typingO t).1 = lit "Optional[List[Optional[Union[Optional[int], Optional[str]]]]]" := by
  decide

/-- REFUTATION of `NoneOnce` (known finding C13-F2): the typing spelling of the same kind of tree
mentions `None` twice in one union. -/
theorem none_twice_typing :
    wfTree (.mk { isOptional := true } none [leaf "int" true, leaf "str"]) = true ∧
    rootOK (hintE typingO (.mk { isOptional := true } none [leaf "int" true, leaf "str"])).1 = false ∧
    rootOK (hintE operatorO (.mk { isOptional := true } none [leaf "int" true, leaf "str"])).1 = true := by
  decide

theorem none_once_full_false : ¬ NoneOnce := by
  intro h
  have := h typingO (.mk { isOptional := true } none [leaf "int" true, leaf "str"]) none_twice_typing.1
  rw [none_twice_typing.2.1] at this
  exact absurd this (by decide)

/-- REFUTATION (known finding C13-F3): a union of `None`s inside a container is written `Union[]`. -/
theorem union_of_none_is_not_an_expression :
    (typeHint typingO (.mk { isList := true } none [leaf "None", leaf "None"])).1 = lit "Optional[List[Union[]]]" ∧
    (typeHint operatorO (.mk { isList := true } none [leaf "None", leaf "None"])).1 = lit "List | None" := by
  decide

/-! ### No doubly wrapped optional in the `Optional[…]`/`Union[…]` spelling: the type, and the field on top of it -/

/-- PARTIAL — `no_double_optional` for the typing spelling (each of the four container spellings): for every
tree with plain names inside `optRegion` (decidable, Model/HintInv: at every node that writes its members
without a container of its own, no member hint reaches an `Optional[…]` through directly nested `Union[…]`s —
known finding C13-F2 lives outside), the text `DataType.type_hint` builds is the printed form of a well-formed
expression that contains no `Optional[Optional[…]]` anywhere (`noDbl`). -/
theorem no_double_optional_typing_partial (o : Opts) (ho : o.unionOp = false) (t : DT)
    (hw : wfTree t = true) (hr : optRegion o t = true) :
    (typeHint o t).1 = print (hintE o t).1 ∧ wfU (hintE o t).1 = true ∧ noDbl (hintE o t).1 = true :=
  ⟨(typeHint_eq_print_typing o ho t hw).1, (typeHint_typing o ho t hw).2, (noDbl_hintE o ho t hr).1⟩

/-- non-vacuity: an optional dict of an optional union with a list-of-optional member and a nested union: optional
members under a container of their own are inside the region -/
example :
    let t : DT := .mk { isOptional := true, isDict := true } none
      [.mk {} none [.mk { isList := true } none [leaf "int" true], .mk {} none [leaf "str", leaf "Foo"], leaf "None"]]
    wfTree t = true ∧ optRegion typingO t = true ∧
    (typeHint typingO t).1 = lit "Optional[Dict[str, Optional[Union[List[Optional[int]], Union[str, Foo]]]]]" := by
  decide

/-- FULL STATEMENT at field level (kept visible; false of the code): the annotation of a FIELD — the decision of
`DataModelFieldBase.type_hint` (`required` / `nullable` / `type_has_null` / default factory) on top of the type's
own hint — never contains a doubly wrapped optional, for every tree whose own hint has none. -/
def FieldNoDoubleOptional : Prop :=
  ∀ (o : Opts) (fb : FieldBits) (t : DT), wfTree t = true → optRegion o t = true → noDbl (fieldE o fb t) = true

/-- PARTIAL — THE FIELD, typing spelling: for every tree with plain names inside `optRegion` that satisfies the
PARSER-OUTPUT INVARIANT `anyContPlain` ("a `DataType` with `type == 'Any'` and `is_dict` / `is_list` / `is_set` is
never itself optional; optionality sits on a wrapper node" — the two guards of the code that compare
`DataType.type` with `'Any'` mean "renders as `Any`" and are right exactly then; checked by the driver on every
tree the real JSON Schema parser produces in the end-to-end campaign), and EVERY field setting, the text
`DataModelFieldBase.type_hint` builds is the printed form of the well-formed expression `fieldE`, and that
expression contains no `Optional[Optional[…]]`: the field wraps only what the type has not wrapped. -/
theorem field_no_double_optional_partial (o : Opts) (ho : o.unionOp = false) (fb : FieldBits) (t : DT)
    (hw : wfTree t = true) (hi : anyContPlain t = true) (hr : optRegion o t = true) :
    fieldTypeHint o fb t = print (fieldE o fb t) ∧ wfU (fieldE o fb t) = true ∧ noDbl (fieldE o fb t) = true :=
  ⟨(fieldTypeHint_typing o ho fb t hw).1, (fieldTypeHint_typing o ho fb t hw).2, noDbl_fieldE o ho fb t hi hr⟩

/-- non-vacuity: what the parser builds for `type: ["object", "null"]` (a one-member wrapper that carries the
optional flag around the shared `Dict[str, Any]` entry of the type map), as a field that is not required, and as
an alternative of an `anyOf` next to `str` in a required nullable field -/
example :
    let free : DT := .mk { ty := lit "Any", isDict := true } none []
    let t : DT := .mk { isOptional := true } none [free]
    let u : DT := .mk {} none [.mk {} none [free], leaf "str"]
    wfTree t = true ∧ anyContPlain t = true ∧ optRegion typingO t = true ∧
    fieldTypeHint typingO {} t = lit "Optional[Dict[str, Any]]" ∧
    wfTree u = true ∧ anyContPlain u = true ∧ optRegion typingO u = true ∧
    fieldTypeHint typingO { required := true, typeHasNull := true } u = lit "Optional[Union[Dict[str, Any], str]]" := by
  decide

/-- REFUTATION of the full field-level statement (known finding C13-F5, now with its hypothesis): the tree the
invariant excludes — the `Dict[str, Any]` entry ITSELF flagged optional — has a clean hint of its own
(`Optional[Dict[str, Any]]`, inside `optRegion`), and the field wraps it a second time because
`data_type.type != ANY` reads the raw type; the `|` spelling gives `Dict[str, Any] | None`. -/
theorem optional_any_container_field_double :
    let t : DT := .mk { ty := lit "Any", isOptional := true, isDict := true } none []
    let fb : FieldBits := { nullable := some true, required := true }
    wfTree t = true ∧ optRegion typingO t = true ∧ anyContPlain t = false ∧
    (typeHint typingO t).1 = lit "Optional[Dict[str, Any]]" ∧
    fieldTypeHint typingO fb t = lit "Optional[Optional[Dict[str, Any]]]" ∧
    noDbl (fieldE typingO fb t) = false ∧
    fieldTypeHint operatorO fb t = lit "Dict[str, Any] | None" := by
  decide

theorem field_no_double_optional_full_false : ¬ FieldNoDoubleOptional := by
  intro h
  have := h typingO { nullable := some true, required := true }
    (.mk { ty := lit "Any", isOptional := true, isDict := true } none []) (by decide) (by decide)
  rw [optional_any_container_field_double.2.2.2.2.2.1] at this
  exact absurd this (by decide)

/-- both hypotheses are doing work: outside `optRegion` (C13-F2: a member that is already `Optional[…]` passed
through a one-member node) the field doubles the wrapper although the invariant holds; and the C13-F2 witnesses of
the type-level statement are outside the region. -/
theorem field_region_is_needed :
    let t : DT := .mk {} none [leaf "int" true]
    wfTree t = true ∧ anyContPlain t = true ∧ optRegion typingO t = false ∧
    fieldTypeHint typingO { nullable := some true } t = lit "Optional[Optional[int]]" ∧
    optRegion typingO (.mk { isOptional := true } none [leaf "int" true]) = false ∧
    optRegion typingO (.mk { isOptional := true } none [leaf "int" true, leaf "str"]) = false := by
  decide

/-! ### The spelling does not change the meaning -/

/-- FULL STATEMENT (kept visible; false of the code): all eight spellings denote the same type. -/
def SpellingInvariant : Prop :=
  ∀ (t : DT), wfTree t = true → ∀ o o' : Opts, (denote (hintE o t).1).show = (denote (hintE o' t).1).show

/-- PARTIAL — the typing / builtin / abstract-collection half of the claim, without the union
operator: for every tree whose names are plain (`wfTree`) and are not themselves one of the nine
container names (`freeTree`, decidable), any two of the four spellings `List|list|Sequence…` give
texts that are the printed forms of expressions with the SAME denotation. By structural induction:
the rendering under `o'` is the rendering under `o` with the three container names mapped
(`hintE_ren`; the string-level de-duplication and change tests transfer because the printer is
injective), and the mapping stays inside each container class (`denote_ren`). -/
theorem spelling_invariant_collections (o o' : Opts) (ho : o.unionOp = false) (ho' : o'.unionOp = false) (t : DT)
    (hw : wfTree t = true) (hf : freeTree t = true) :
    (typeHint o t).1 = print (hintE o t).1 ∧ (typeHint o' t).1 = print (hintE o' t).1 ∧
    denote (hintE o' t).1 = denote (hintE o t).1 :=
  ⟨(typeHint_eq_print_typing o ho t hw).1, (typeHint_eq_print_typing o' ho' t hw).1,
   denote_hintE_collections o o' ho ho' t hw hf⟩

/-- non-vacuity: `Optional[Dict[str, List[Union[Set[int], Literal['a'], None]]]]` -/
example :
    let t : DT := .mk { isOptional := true, isDict := true } none
      [.mk { isList := true } none [.mk { isSet := true } none [leaf "int"], .mk { literals := [lit "'a'"] } none [], leaf "None"]]
    wfTree t = true ∧ freeTree t = true ∧
    (typeHint typingO t).1 = lit "Optional[Dict[str, Optional[List[Union[Set[int], Literal['a']]]]]]" ∧
    (typeHint { stdColl := true, genericCont := true } t).1 = lit "Optional[Mapping[str, Optional[Sequence[Union[FrozenSet[int], Literal['a']]]]]]" := by
  decide

/-- PARTIAL — the Optional/Union-versus-`|` half of the claim (the headline: the annotation means the
same with and without `--use-union-operator`), for each container spelling: for every tree with plain
names inside `opRegion` (decidable, Model/HintRegion: at every union node no member renders as `Any`,
and if the node is itself a list/set/dict every member is `None` or has no `None` alternative and not
all are `None` — exactly where C13-F4/F3 live), the two texts are the printed forms of well-formed
expressions with the SAME denotation. The two renderings are not related member by member (the
text-level de-duplication of the union loop fires differently), only semantically. -/
theorem spelling_invariant_operator_partial (o : Opts) (ho : o.unionOp = false) (t : DT)
    (hw : wfTree t = true) (hr : opRegion o t = true) :
    (typeHint o t).1 = print (hintE o t).1 ∧ (typeHint (withOp o) t).1 = print (hintE (withOp o) t).1 ∧
    wfB (hintE o t).1 = true ∧ wfB (hintE (withOp o) t).1 = true ∧
    denote (hintE (withOp o) t).1 = denote (hintE o t).1 := by
  obtain ⟨h1, h2, h3, h4⟩ := rel_hint o ho t hw hr
  exact ⟨(typeHint_eq_print_typing o ho t hw).1, (typeHint_eq_print_operator (withOp o) rfl t hw).1,
    wfB_of_wfU _ h2, h4, h1.denote.symm⟩

/-- non-vacuity of the operator half where the eight-spelling theorem does not apply: a type NAMED `List`
(not `freeTree`) in an optional union under a dict -/
example :
    let t : DT := .mk { isDict := true } none [.mk { isOptional := true } none [leaf "List", leaf "int" true]]
    wfTree t = true ∧ freeTree t = false ∧ opRegion typingO t = true ∧
    (typeHint typingO t).1 = lit "Dict[str, Optional[Union[List, Optional[int]]]]" ∧
    (typeHint (withOp typingO) t).1 = lit "Dict[str, List | int | None]" := by
  decide

/-- PARTIAL, ALL EIGHT SPELLINGS — the headline of C13: for every tree whose names are plain
(`wfTree`), are not themselves container names (`freeTree`) and that lies inside `opRegionAll`
(`opRegion` for each container spelling), the texts `DataType.type_hint` builds under ANY two of the
eight option vectors {use_union_operator} × {use_standard_collections} × {use_generic_container} are
the printed forms of well-formed hint expressions (unique readings, `hint_unambiguous_all`) that
denote the SAME type (`denote`: Optional/Union/`|` ↦ one flattened de-duplicated union incl. None;
List/list/Sequence ↦ list, …). -/
theorem spelling_invariant_partial (o o' : Opts) (t : DT)
    (hw : wfTree t = true) (hf : freeTree t = true) (hr : opRegionAll t = true) :
    (typeHint o t).1 = print (hintE o t).1 ∧ (typeHint o' t).1 = print (hintE o' t).1 ∧
    wfB (hintE o t).1 = true ∧ wfB (hintE o' t).1 = true ∧
    denote (hintE o' t).1 = denote (hintE o t).1 := by
  have text : ∀ p : Opts, (typeHint p t).1 = print (hintE p t).1 ∧ wfB (hintE p t).1 = true := by
    intro p
    cases hu : p.unionOp with
    | false => exact ⟨(typeHint_eq_print_typing p hu t hw).1, wfB_of_wfU _ (typeHint_typing p hu t hw).2⟩
    | true => exact ⟨(typeHint_eq_print_operator p hu t hw).1, (typeHint_eq_print_operator p hu t hw).2.2⟩
  have toTyping : ∀ p : Opts, denote (hintE p t).1 = denote (hintE (withoutOp p) t).1 := by
    intro p
    cases hu : p.unionOp with
    | false => rw [withoutOp_eq p hu]
    | true =>
      have hp : p = withOp (withoutOp p) := by
        obtain ⟨u, s, g⟩ := p
        simp only [] at hu
        subst hu; rfl
      have := (spelling_invariant_operator_partial (withoutOp p) rfl t hw (opRegionAll_spec t hr _ rfl)).2.2.2.2
      rw [← hp] at this
      exact this
  refine ⟨(text o).1, (text o').1, (text o).2, (text o').2, ?_⟩
  rw [toTyping o', toTyping o]
  exact denote_hintE_collections (withoutOp o) (withoutOp o') rfl rfl t hw hf

/-- non-vacuity: an optional dict of a union with a nested optional union member and a `None` member,
all hypotheses hold, and two of the eight texts -/
example :
    let t : DT := .mk { isOptional := true, isDict := true } none
      [.mk {} none [.mk { isList := true } none [leaf "int" true], .mk {} none [leaf "str", leaf "Foo" true], leaf "None"]]
    wfTree t = true ∧ freeTree t = true ∧ opRegionAll t = true ∧
    (typeHint typingO t).1 = lit "Optional[Dict[str, Optional[Union[List[Optional[int]], Union[str, Optional[Foo]]]]]]" ∧
    (typeHint { unionOp := true, stdColl := true } t).1 = lit "dict[str, list[int | None] | str | Foo | None] | None" := by
  decide

/-- REFUTATION (known finding C13-F4), names plain: a union node that is itself the list, with an
optional member (`items: [{"type": ["integer","null"]}, {"type":"string"}]`): the `|` spelling moves
the member's `None` out of the list. Both texts, and their different meanings. -/
theorem spelling_changes_meaning :
    let t : DT := .mk { isList := true } none [leaf "int" true, leaf "str"]
    wfTree t = true ∧
    (typeHint typingO t).1 = lit "List[Union[Optional[int], str]]" ∧
    (typeHint operatorO t).1 = lit "List[int | str] | None" ∧
    (denote (hintE typingO t).1).show = lit "list({int;str;None})" ∧
    (denote (hintE operatorO t).1).show = lit "{list({int;str});None}" := by
  decide

/-- the hypotheses of `spelling_invariant_partial` are doing work: the witnesses of C13-F4 and C13-F3
have plain names and lie outside `opRegion` -/
theorem refuting_witnesses_are_outside_the_region :
    opRegion typingO (.mk { isList := true } none [leaf "int" true, leaf "str"]) = false ∧
    opRegion typingO (.mk { isList := true } none [leaf "None", leaf "None"]) = false ∧
    opRegion typingO (.mk {} none [leaf "int" true, leaf "str"]) = true := by
  decide

theorem spelling_invariant_full_false : ¬ SpellingInvariant := by
  intro h
  have := h (.mk { isList := true } none [leaf "int" true, leaf "str"]) (by decide) typingO operatorO
  rw [spelling_changes_meaning.2.2.2.1, spelling_changes_meaning.2.2.2.2] at this
  exact absurd this (by decide)


/-! ### Composition with stage 1 (C03/C04's model of the JSON-Schema parser): no residual tree hypothesis

`tr st so ctx s` (Model.Translate, tied to the real parser by the `sem.tr` campaign) is what `parse_obj` / `parse_item`
make of schema `s`; `toDT N pos` (Model.TreeBridge, tied to the real parser AND the real `type_hint` by the campaign
`types.bridge`) is the `DataType` tree of that IR type, class names given by `N`. The theorems below are C13's theorems
on `toDT N [] (tr …)` with every hypothesis on the TREE discharged by induction over the SCHEMA; what is left are
hypotheses on the schema (`sup`, decidable), on the option (`field_constraints`: without it a bounded scalar is written
in call syntax `conint(ge=1)`, outside Model.Types) and on the class names. -/
section Composed
open Dcg.Sem Dcg.Model.TreeBridge Dcg.Proofs.TreeBridge
open Dcg.Model.Translate (tr Ctx)
open Dcg.Model.Constraints (Style)

/-- the tree of a schema (as a member: `ctx = plain`; as an item / alternative; for a document `top` gives the class reference) -/
abbrev treeOf (N : Naming) (st : Style) (so : Dcg.Model.Translate.Opts) (ctx : Ctx) (s : Schema) : DT := toDT N [] (tr st so ctx s)

/-- THE PARSER KEEPS `anyContPlain` — proved, for EVERY schema of the modelled subset, every style, option vector,
position and naming (and in fact for the tree of every IR type): a `type == 'Any'` node that is a dict / list / set is
never itself optional; `type: ["object","null"]` puts the flag on a one-member wrapper. -/
theorem parser_keeps_anyContPlain (N : Naming) (st : Style) (so : Dcg.Model.Translate.Opts) (ctx : Ctx) (pos : List Nat) (s : Schema) :
    anyContPlain (toDT N pos (tr st so ctx s)) = true := acp_toDT N pos _

/-- the structural hypotheses of C13's theorems hold on the tree of every supported schema -/
theorem schema_tree_hypotheses (N : Naming) (st : Style) (so : Dcg.Model.Translate.Opts) (hfc : so.fieldConstraints = true)
    (ctx : Ctx) (s : Schema) :
    (namesPlain N → sup true s = true → wfTree (treeOf N st so ctx s) = true) ∧
    (namesFree N → sup true s = true → freeTree (treeOf N st so ctx s) = true) ∧
    (sup false s = true → opRegionAll (treeOf N st so ctx s) = true) := by
  refine ⟨fun hN hs => ?_, fun hN hs => ?_, fun hs => ?_⟩
  · rw [wfTree_eq]; exact all_tr (nodeOK_wf N hN true) st so hfc ctx [] s hs
  · rw [freeTree_eq]; exact all_tr (nodeOK_free N hN true) st so hfc ctx [] s hs
  · have := all_tr (nodeOK_small N) st so hfc ctx [] s hs
    simp only [opRegionAll, containerSpellings, List.all_cons, List.all_nil, Bool.and_true, Bool.and_eq_true]
    exact ⟨opRegion_of_small _ _ this, opRegion_of_small _ _ this, opRegion_of_small _ _ this, opRegion_of_small _ _ this⟩

/-- a naming with plain names, and supported schemas: `{"anyOf": [{"type": ["integer","null"]}, {"type": "array", "items":
{"type": ["object","null"]}}, {"$ref": …}]}` (unions allowed) and the same array alone (union-free) -/
example :
    namesPlain ⟨fun _ => lit "K", fun _ => lit "R"⟩ ∧ namesFree ⟨fun _ => lit "K", fun _ => lit "R"⟩ ∧
    sup true (.anyOf [.scalar .integer true {}, .array (.ndict .any) none none, .ref (lit "Pet")]) = true ∧
    sup false (.array (.ndict .any) none none) = true :=
  ⟨⟨fun _ => (by decide : plainName (lit "K") = true), fun _ => (by decide : plainName (lit "R") = true)⟩,
   ⟨fun _ => (by decide : Dcg.Proofs.Types.allCont.contains (lit "K") = false),
    fun _ => (by decide : Dcg.Proofs.Types.allCont.contains (lit "R") = false)⟩, by decide, by decide⟩

/-- WELL-FORMED FOR EVERY SUPPORTED SCHEMA, ALL EIGHT SPELLINGS: the text `DataType.type_hint` builds for the type of the
schema is the printed form of a well-formed hint expression (unique reading, `hint_unambiguous_all`) and its brackets
are balanced. -/
theorem schema_hint_wellformed (N : Naming) (hN : namesPlain N) (st : Style) (so : Dcg.Model.Translate.Opts)
    (hfc : so.fieldConstraints = true) (ctx : Ctx) (s : Schema) (hs : sup true s = true) (o : Dcg.Model.Types.Opts) :
    (typeHint o (treeOf N st so ctx s)).1 = print (hintE o (treeOf N st so ctx s)).1 ∧
    wfB (hintE o (treeOf N st so ctx s)).1 = true ∧ balanced (typeHint o (treeOf N st so ctx s)).1 = true := by
  have hw := (schema_tree_hypotheses N st so hfc ctx s).1 hN hs
  refine ⟨?_, ?_, hint_balanced_partial o _ hw⟩
  · cases hu : o.unionOp with
    | false => exact (typeHint_eq_print_typing o hu _ hw).1
    | true => exact (typeHint_eq_print_operator o hu _ hw).1
  · cases hu : o.unionOp with
    | false => exact wfB_of_wfU _ (typeHint_typing o hu _ hw).2
    | true => exact (typeHint_eq_print_operator o hu _ hw).2.2

/-- NONE ONCE / NO DOUBLE OPTIONAL, `|` spelling, every supported schema: no `Optional[…]` / `Union[…]` subscription
at all, `None` at most once at every union level. -/
theorem schema_none_once_operator (N : Naming) (hN : namesPlain N) (st : Style) (so : Dcg.Model.Translate.Opts)
    (hfc : so.fieldConstraints = true) (ctx : Ctx) (s : Schema) (hs : sup true s = true) (o : Dcg.Model.Types.Opts) (ho : o.unionOp = true) :
    opFree (hintE o (treeOf N st so ctx s)).1 = true ∧ rootOK (hintE o (treeOf N st so ctx s)).1 = true := by
  have h := none_once_operator o ho _ ((schema_tree_hypotheses N st so hfc ctx s).1 hN hs)
  exact ⟨h.2.1, h.2.2.2⟩

/-- THE SAME MEANING IN ALL EIGHT SPELLINGS, every supported UNION-FREE schema (nullable scalars, arrays, maps,
`type: ["object","null"]`, references and classes, nested in any way): any two spellings give printed forms of
well-formed expressions with the same denotation. (With `anyOf` / `oneOf` the region `opRegion` — no alternative
renders as `Any` — is not discharged here: `spelling_invariant_partial` applies with that one hypothesis on the tree.) -/
theorem schema_spelling_invariant (N : Naming) (hN : namesPlain N) (hF : namesFree N) (st : Style) (so : Dcg.Model.Translate.Opts)
    (hfc : so.fieldConstraints = true) (ctx : Ctx) (s : Schema) (hs : sup false s = true) (hs' : sup true s = true) (o o' : Dcg.Model.Types.Opts) :
    (typeHint o (treeOf N st so ctx s)).1 = print (hintE o (treeOf N st so ctx s)).1 ∧
    (typeHint o' (treeOf N st so ctx s)).1 = print (hintE o' (treeOf N st so ctx s)).1 ∧
    denote (hintE o' (treeOf N st so ctx s)).1 = denote (hintE o (treeOf N st so ctx s)).1 := by
  obtain ⟨h1, h2, h3⟩ := schema_tree_hypotheses N st so hfc ctx s
  have := spelling_invariant_partial o o' _ (h1 hN hs') (h2 hF hs') (h3 hs)
  exact ⟨this.1, this.2.1, this.2.2.2.2⟩

/-- THE FIELD, typing spelling, with the parser-output invariant DISCHARGED: for the tree of every supported schema inside
`optRegion` (still a hypothesis on the tree: known finding C13-F2 is reachable from `anyOf` with a nullable alternative)
and every field setting, the field's annotation is the printed form of `fieldE` and has no `Optional[Optional[…]]`. -/
theorem schema_field_no_double_optional (N : Naming) (hN : namesPlain N) (st : Style) (so : Dcg.Model.Translate.Opts)
    (hfc : so.fieldConstraints = true) (ctx : Ctx) (s : Schema) (hs : sup true s = true) (o : Dcg.Model.Types.Opts) (ho : o.unionOp = false)
    (fb : FieldBits) (hr : optRegion o (treeOf N st so ctx s) = true) :
    fieldTypeHint o fb (treeOf N st so ctx s) = print (fieldE o fb (treeOf N st so ctx s)) ∧
    noDbl (fieldE o fb (treeOf N st so ctx s)) = true := by
  have h := field_no_double_optional_partial o ho fb _ ((schema_tree_hypotheses N st so hfc ctx s).1 hN hs)
    (parser_keeps_anyContPlain N st so ctx [] s) hr
  exact ⟨h.1, h.2.2⟩

/-- `sup` is doing work — `wfTree` is NOT preserved by the parser on the whole subset: `{"type":"array","items":{}}` is
an `is_list` node without members (an empty node; the hint is the bare `List`, a valid annotation — a restriction of
the proofs, not a defect; replayed on the real parser by the campaign `types.bridge`, focused member `arrany`). -/
theorem free_array_is_outside_wfTree (N : Naming) (st : Style) (so : Dcg.Model.Translate.Opts) :
    sup true (.array .any none none) = false ∧
    wfTree (treeOf N st so .plain (.array .any none none)) = false ∧
    (typeHint typingO (treeOf N st so .plain (.array .any none none))).1 = lit "List" := by
  refine ⟨by decide, ?_, ?_⟩ <;> simp only [treeOf, tr, Option.isSome_none, Bool.or_self, toDT, isAnyTy, if_true] <;> decide

end Composed

end Dcg.Props.C13
