import Dcg.Model.HintExpr
namespace Dcg.Props.C13
open Dcg.Model.Types Dcg.Model.HintExpr

theorem stub : removeNoneU sNone = sNone := by decide

end Dcg.Props.C13
