import Dcg.Proofs.Escape
import Dcg.Proofs.Docstring
import Dcg.Proofs.Repr
import Dcg.Model.Sites
import Dcg.Gen.EscTables
import Dcg.Gen.Templates
import Dcg.Proofs.TemplateLex
import Dcg.Proofs.TemplateCheckLex
import Dcg.Proofs.TemplateCheckTable
import Dcg.Proofs.TemplateSites
import Dcg.Proofs.TemplateLexDoc
import Dcg.Model.CodeSites
import Dcg.Gen.CodeSites
/-
C10 — text taken from the input ends up as data, never as code.
Only property theorems live here; helper lemmas are in Dcg/Proofs/Escape.lean.
-/
namespace Dcg.Props.C10
open Dcg.Py.Lex Dcg.Model.Escape Dcg.Proofs.Escape Dcg.Proofs.Docstring Dcg.Model.Sites Dcg.Gen.EscTables Dcg.Gen.Templates

/-! ### Enum / const values: `'` + translate(enumTable) + `'` -/

/-- The generated enum table escapes every character that is special inside `'…'`, and each
escape decodes to its key. Re-checked by the kernel against the table the code has now. -/
theorem enumTable_ok : tableOK '\'' enumTable = true := by decide

/-- Every f-string that embeds the escaped enum text puts it between single quotes. -/
theorem enum_sites_quoted :
    enumSites.all (fun s => s.2.1 == "'" && s.2.2 == "'") = true ∧ enumSites ≠ [] := by decide

/-- FULL STRENGTH, all strings: wherever the literal is placed, Python's lexer reads back
exactly the original string and continues exactly after the closing quote. -/
theorem enum_literal_exact (s rest : List Char) (h : rest.head? ≠ some '\'') :
    lit '\'' (quoted '\'' enumTable s ++ rest) = some (s, rest) :=
  lit_quoted enumTable_ok s rest h

/-- non-vacuity: a nasty value, followed by the `\n` the template writes after it -/
example : lit '\'' (quoted '\'' enumTable ['\'', '\\', '\n', 'a'] ++ ['\n']) =
    some (['\'', '\\', '\n', 'a'], ['\n']) := enum_literal_exact _ _ (by decide)

/-! ### TypedDict keys: template `'{{ field.key }}'` with translate(typedDictKeyTable) -/

/-- The TypedDict key table exists and escapes every character that is special inside `'…'`; each
escape decodes to its key. (A module without an `escape_characters` table is translated to the empty
table, on which this fails.) -/
theorem typedDictKeyTable_ok : tableOK '\'' typedDictKeyTable = true ∧ typedDictKeyTablePresent = true := by decide

/-- **The key written between the template's quotes IS the table translation of the wire name.**
`model/typed_dict.py DataModelField.key` returns `<name>.translate(escape_characters)` — one return,
the module's own table, the translated value taken from `original_name` / `name` only (extracted from
the source's AST on every run). This is what connects `typedDict_key_exact` (a statement about the
table) to the generator: any other escaping function (`json.dumps`, `repr`, `unicode_escape`, …) is a
different mechanism about which the table theorems say nothing, and breaks this obligation; the
behaviour of the real property is compared with `Model.Escape.translate typedDictKeyTable` by the
campaign `esc.quoted … vs the real DataModelField.key`. -/
theorem typedDict_key_uses_table : typedDictKeyUsesTable = true := by decide

theorem typedDict_key_exact (s rest : List Char) (h : rest.head? ≠ some '\'') :
    lit '\'' (quoted '\'' typedDictKeyTable s ++ rest) = some (s, rest) :=
  lit_quoted typedDictKeyTable_ok.1 s rest h

/-! ### Regex patterns: `pattern_literal` = `r'` + pattern + `'` when raw-safe, else `repr(pattern)` -/

theorem pattern_sites_raw_quoted :
    patternSites.all (fun s => s.2.1 == "r'" && s.2.2 == "'") = true ∧ patternSites ≠ [] := by
  decide

/-- FULL STRENGTH, all patterns, both branches of `pattern_literal`: the literal the generator
writes evaluates to exactly the pattern and the lexer resumes right behind it. `pr` =
`str.isprintable` of one character (the raw branch is taken iff no single quote, no dangling
backslash and every character printable); the proof needs `printableOK pr` — LF, CR, NUL are not
printable — which CPython's table satisfies (`Props/C01.cpython_printable_ok`) and which is
necessary (`Props/C01.pattern_literal_needs_printableOK`). -/
theorem pattern_literal_exact (pr : Char → Bool) (hpr : printableOK pr = true) (p rest : List Char)
    (h1 : rest.head? ≠ some '\'') (h2 : rest.head? ≠ some '"') :
    (if patternRawOK pr p then litRaw '\'' ('\'' :: p ++ ['\''] ++ rest)
     else lit (Dcg.Py.Repr.reprQuote p) (Dcg.Py.Repr.reprStr pr p ++ rest)) = some (p, rest) := by
  split
  · rename_i h
    exact litRaw_plain (t := []) (by decide) p rest (rawSafe_of_patternRawOK hpr p h) h1
  · refine Dcg.Proofs.Repr.repr_roundtrip pr p rest ?_
    rcases Dcg.Proofs.Repr.reprQuote_cases p with h | h <;> rw [h] <;> assumption

example : printableOK (fun c => 32 ≤ c.toNat) = true := by decide
example : patternRawOK (fun c => 32 ≤ c.toNat) "^\\d+\\.[a-z]\\\\$".toList = true := by decide
example : patternRawOK (fun c => 32 ≤ c.toNat) "^a'\\b\"$".toList = false := by decide
example : patternRawOK (fun c => 32 ≤ c.toNat) "dangling\\".toList = false := by decide
example : patternRawOK (fun c => 32 ≤ c.toNat) "tab\t".toList = false := by decide

/-- why the raw form cannot be used unconditionally (the repaired defect D5): with the former
cooked-literal table a quote came back as backslash+quote… -/
theorem raw_quote_not_exact :
    litRaw '\'' ("'\\''".toList ++ ['\n']) = some (['\\', '\''], ['\n']) := by
  simp [litRaw, scanRaw, unitRaw]

/-- …and a backslash directly before a quote ended the literal early. -/
theorem raw_backslash_quote_breaks :
    litRaw '\'' ("'\\\\''".toList ++ ['\n']) = some (['\\', '\\'], ['\'', '\n']) := by
  simp [litRaw, scanRaw, unitRaw]

/-! ### Docstrings: template `"""` … `{{ description | escape_docstring | indent(4) }}` … `"""` -/

/-- `model/base.py escape_docstring` is the chain of three `str.replace` calls that
`Model.Escape.escDoc` models (regenerated from the source's AST on every run). -/
theorem docstring_replaces_as_modelled : docstringReplaces = docstringReplacesModelled := by decide

/-- FULL STRENGTH, all texts: the docstring written around an escaped description is ONE
triple-quoted literal; its value is the template's white space around exactly the text (newlines
normalised as Python does) and the lexer resumes right behind the closing quotes the template
wrote — a description can neither end the docstring early nor smuggle in an escape sequence. -/
theorem docstring_literal_exact (text pre post rest : List Char)
    (hpre : ∀ c ∈ pre, c = ' ' ∨ c = '\n') (hpost : ∀ c ∈ post, c = ' ') :
    scanLong '"' (pre ++ escDoc 0 text ++ '\n' :: post ++ ['"', '"', '"'] ++ rest) =
      some (pre ++ normNL (text ++ ['\n']) ++ post, rest) :=
  docstring_exact text pre post rest hpre hpost

/-- non-vacuity: the former injection `""" ; import os ; """` and a trailing backslash -/
example : scanLong '"' ("\n    ".toList ++ escDoc 0 "\"\"\"\nimport os\n\"\"\"\\".toList ++
      '\n' :: "    ".toList ++ ['"', '"', '"'] ++ "\n".toList) =
    some ("\n    ".toList ++ normNL ("\"\"\"\nimport os\n\"\"\"\\".toList ++ ['\n']) ++ "    ".toList,
      "\n".toList) :=
  docstring_literal_exact _ _ _ _ (by decide) (by decide)

/-- Runs of double quotes of EVERY length (the case a one-pass rewrite of `escape_docstring` gets wrong: a run of
4, 5, 7, 8, … quotes is more than whole triples): for all `n`, the docstring written around `n` consecutive quotes is
one literal whose value is exactly those `n` quotes between the template's white space, and the lexer resumes behind
the template's own closing quotes.  Corollary of `docstring_literal_exact`; what is written for the runs 1..9 is
compared with the real filter, and judged by the property itself, on every run (vlib/props/c10_doc.py). -/
theorem docstring_quote_runs_exact (n : Nat) (pre post rest : List Char)
    (hpre : ∀ c ∈ pre, c = ' ' ∨ c = '\n') (hpost : ∀ c ∈ post, c = ' ') :
    scanLong '"' (pre ++ escDoc 0 (List.replicate n '"') ++ '\n' :: post ++ ['"', '"', '"'] ++ rest) =
      some (pre ++ List.replicate n '"' ++ '\n' :: post, rest) := by
  have h := docstring_exact (List.replicate n '"') pre post rest hpre hpost
  have hn : ∀ (k : Nat) (t : List Char), normNL (List.replicate k '"' ++ t) = List.replicate k '"' ++ normNL t := by
    intro k t
    induction k with
    | zero => rfl
    | succ k ih =>
      rw [List.replicate_succ, List.cons_append, normNL, ih]
      · rfl
      · intro r hc; exact absurd hc (by decide)
      · intro hc; exact absurd hc (by decide)
  rw [hn] at h
  simpa [normNL] using h

/-- non-vacuity: what the modelled function writes for runs of 4, 5 and 8 quotes, and the theorem at `n = 4` with the
templates' white space -/
example : escDoc 0 (List.replicate 4 '"') = "\"\"\\\"\"".toList := by decide
example : escDoc 0 (List.replicate 5 '"') = "\"\"\\\"\"\"".toList := by decide
example : escDoc 0 (List.replicate 8 '"') = "\"\"\\\"\"\"\\\"\"\"".toList := by decide
example : scanLong '"' ("\n    ".toList ++ escDoc 0 (List.replicate 4 '"') ++ '\n' :: "    ".toList ++ ['"', '"', '"'] ++ "\nx = 1\n".toList) =
    some ("\n    ".toList ++ List.replicate 4 '"' ++ '\n' :: "    ".toList, "\nx = 1\n".toList) :=
  docstring_quote_runs_exact 4 _ _ _ (by decide) (by decide)

/-- why the triple quote must be written `""\"` and not the conventional way `\"""` (one backslash before three quotes)
when the replacement consumes quotes three at a time: for a run of FOUR quotes that replacement writes `\""""` — the
backslash protects one quote, the next three END the literal, and whatever follows the run in the description (`rest`,
arbitrary) is read as code.  Kernel-checked witness of the regression family that the docstring campaigns look for. -/
theorem backslash_before_triple_quote_breaks (rest : List Char) :
    scanLong '"' ('\\' :: '"' :: '"' :: '"' :: '"' :: rest) = some (['"'], rest) := by
  have hu : unitLong ('\\' :: '"' :: '"' :: '"' :: '"' :: rest) = some (['"'], '"' :: '"' :: '"' :: rest) := by
    simp [unitLong, escape, simpleEsc, List.lookup]
  rw [scanLong_step (by simp) hu]
  have hclose : scanLong '"' ('"' :: '"' :: '"' :: rest) = some ([], rest) := by
    rw [scanLong]; simp
  rw [hclose]; rfl

/-! ### Template sites -/

/-- Every interpolation site of every template stands in exactly one lexical state, its
expression (with its filters) is classified, and a value of that class may stand in that state.
In particular schema text reaches a docstring only through `escape_docstring`, a TypedDict key
only between single quotes, and there is NO site at which raw input is interpolated. -/
theorem site_safe :
    sites.all (fun s => match s.states with
      | [st] => allowed (classify s.expr s.filters) st
      | _ => false) = true := by decide +kernel

/-- there are docstring sites, and every one of them goes through the escape filter -/
theorem docstring_sites_escaped :
    (sites.filter (fun s => classifyExpr s.expr == .rawInput)).all
      (fun s => s.filters.contains "escape_docstring" && s.states == ["tdq"]) = true ∧
    (sites.filter (fun s => classifyExpr s.expr == .rawInput)) ≠ [] := by decide +kernel

/-- a `{{ line }}` site (raw input inside a `#` comment) only occurs in templates whose loop
header takes the lines from `str.splitlines()`, which removes every line terminator — so the
comment cannot be left. -/
theorem comment_lines_from_splitlines :
    (sites.filter (fun s => classifyExpr s.expr == .commentLine)).all (fun s =>
      sites.any (fun h => h.template == s.template && reviewedLineLoops.contains h.expr)) = true := by
  decide +kernel

/-- the TypedDict key is interpolated between single quotes and nowhere else -/
theorem key_site_quoted :
    (sites.filter (fun s => s.expr == "field.key")).all (fun s => s.states == ["sq"]) = true ∧
    (sites.filter (fun s => s.expr == "field.key")) ≠ [] := by decide +kernel

/-- every template ends in code state or in a `#` comment (closed by the newline that joins models) -/
theorem templates_end_neutral :
    finals.all (fun f => f.2.all (fun st => st == "code" || st == "comment")) = true := by
  decide +kernel

/-- what a newline does to a `#` comment (why comment sites must be fed line by line) -/
theorem comment_ends_at_newline :
    comment ("a\nimport os".toList ++ ['\n']) = ("a".toList, "import os\n".toList) := by
  decide


/-! ### The lexical analysis of the templates, in Lean, for all environments

The templates are part of the model (`Gen/TemplateAst`, regenerated from the sources by jinja2's
own parser) and are given meaning by the interpreter `Model.Template.renderTemplate`.  The
lexical-state analysis is an abstract interpretation of the template AST over the lexer automaton
`Model/TemplateLex.LQ`, proved sound with respect to the interpreter once and for all
(`Proofs/TemplateAbs.absL_sound`) and evaluated by the kernel on every template. -/

section TemplateLex
open Dcg.Model.TemplateSyntax Dcg.Model.Template Dcg.Model.TemplateAbs Dcg.Model.TemplateLex
open Dcg.Proofs.TemplateAbs Dcg.Proofs.TemplateLex Dcg.Proofs.TemplateLexDoc

/-- **A description cannot leave its docstring — for EVERY text, indentation included.** Read
inside a `\"\"\"` literal, the value `x | escape_docstring | indent(w)` leaves the lexer inside that
literal with at most two quotes pending (which the template's closing line resolves): the escape
rules out three quotes in a row and a dangling backslash, and `indent` rewrites only line breaks,
none of which follows a backslash.  (`docstring_literal_exact` above reads the literal back exactly
but for the un-indented text; this covers what the templates really write.) -/
theorem docstring_value_cannot_leave (w : Nat) (x : List Char) :
    lexAuto.run (.t true) (Dcg.Model.Template.indentStr w (escDoc 0 x)) = LQ.t true ∨
    lexAuto.run (.t true) (Dcg.Model.Template.indentStr w (escDoc 0 x)) = LQ.t1 true ∨
    lexAuto.run (.t true) (Dcg.Model.Template.indentStr w (escDoc 0 x)) = LQ.t2 true :=
  docstring_value_stays_inside w x

/-- the hypothesis of the template theorems: every interpolated value EXCEPT docstring text
(`… | escape_docstring | indent(w)` at a docstring site, for which nothing is assumed) is lexically
neutral for the class of its site -/
def NeutralValues (o : Out) : Prop := ∀ p ∈ o.slots, docSite p.1 = false → LexHyp p.1 p.2

theorem neutralValues_all {ctx : List (String × Val)} {t : List Tpl} {o : Out}
    (hr : renderTemplate ctx t = .ok o) (h : NeutralValues o) : ∀ p ∈ o.slots, LexHyp p.1 p.2 := by
  intro p hp
  cases hd : docSite p.1 with
  | true => exact lexHyp_of_docSite (Dcg.Proofs.TemplateSlots.renderTemplate_fromEval hr) p hp hd
  | false => exact h p hp hd

/-- every template lies inside the modelled Jinja fragment (no `unsupported` node) -/
theorem templates_in_fragment :
    Dcg.Gen.TemplateAst.templates.all (fun t => Tpl.unsupportedCountL t.2 == 0) = true :=
  Dcg.Proofs.TemplateCheckLex.no_unsupported

/-- **Input text cannot leave its lexical context — for every template and EVERY environment.**
In any rendering in which each interpolated value other than docstring text is lexically neutral
for the class of its site (`NeutralValues`; for docstring text nothing is assumed,
`docstring_value_cannot_leave`) (`LexHyp`: identifiers/type hints/repr values are neutral in code state, escaped keys inside
`'…'`, escaped docstring text inside a triple-quoted string, comment lines inside a comment),
the Python lexer ends in code state or in a `#` comment: every literal the template opens is
closed by the template's own quotes, whatever the environment makes of the `if`/`for` structure.
That the analysis succeeds also means that at every `{{ … }}` site every lexical state that the
control flow can produce is one that `Model/Sites.allowed` permits for the site's class. -/
theorem template_lexically_closed (name : String) (t : List Tpl)
    (ht : Dcg.Gen.TemplateAst.templates.lookup name = some t) (ctx : List (String × Val)) (o : Out)
    (hr : renderTemplate ctx t = .ok o) (hv : NeutralValues o) :
    lexGood (lexAuto.run .code o.text) = true := by
  have hv := neutralValues_all hr hv
  have hc : check lexAuto .code lexGood [] [] t = true := by
    have hall := Dcg.Proofs.TemplateCheckLex.lexCheckAll_ok
    unfold Dcg.Proofs.TemplateCheckLex.lexCheckAll at hall
    have hm : (name, t) ∈ Dcg.Gen.TemplateAst.templates := mem_of_lookup ht
    exact List.all_eq_true.mp hall (name, t) hm
  exact lex_check_sound [] [] t hc ctx o hr (Consistent_nil _) hv

/-- **Every interpolation is made in a lexical state its class may occupy — in every rendering.**
For every template, every environment and every interpolation `s` made outside a
`{% filter %}` block: the rendered text is `s.before ++ s.value ++ rest`, and the lexer state
reached on `s.before` is one that `Model/Sites.allowed` permits for the reviewed class of the
site's expression (schema text only inside a triple-quoted string and only through
`escape_docstring`, a TypedDict key only inside `'…'`, identifiers / type hints / repr values in
code, comment lines in a comment; no quote or backslash pending).  This is the per-site statement
that the table-based `site_safe` only asserted of the Python analysis' output; here it is proved
of the renderings themselves.  (Interpolations inside the `indent(4)` filter block — the two sites
of the included Config templates — are covered by this theorem applied to `pydantic/Config.jinja2`
and `pydantic_v2/ConfigDict.jinja2` themselves, which the block includes in code state.) -/
theorem sites_in_allowed_states (name : String) (t : List Tpl)
    (ht : Dcg.Gen.TemplateAst.templates.lookup name = some t) (ctx : List (String × Val)) (o : Out)
    (hr : renderTemplate ctx t = .ok o) (hv : NeutralValues o) :
    ∀ s ∈ o.sites, siteAllowed s.expr (lexAuto.run .code s.before) = true ∧
      ∃ rest, o.text = s.before ++ s.value ++ rest := by
  have hv := neutralValues_all hr hv
  have hc : check lexAuto .code lexGood [] [] t = true := by
    have hall := Dcg.Proofs.TemplateCheckLex.lexCheckAll_ok
    unfold Dcg.Proofs.TemplateCheckLex.lexCheckAll at hall
    exact List.all_eq_true.mp hall (name, t) (mem_of_lookup ht)
  intro s hs
  obtain ⟨qs, hq⟩ := Dcg.Proofs.TemplateSites.sites_allowed_of_check lexSound .code lexGood [] [] t hc ctx o hr
    (Consistent_nil _) hv s hs
  refine ⟨?_, Dcg.Proofs.TemplateSites.renderTemplate_positioned hr s hs⟩
  have hq' : lslot s.expr (lexAuto.run .code s.before) = some qs := hq
  unfold lslot at hq'
  split at hq'
  · assumption
  · cases hq'

/-- **The Python site table is what the Lean analysis computes.** The table `Gen/Templates` (sites
with their lexical states, final states) written by the data-flow analysis in
`vlib/translate/templates.py` equals, row by row, the per-site state sets of the sound Lean
analysis over the template ASTs — the Python analysis is checked by the kernel on every run instead
of being trusted, and `site_safe` above is a statement about the verified analysis. -/
theorem python_site_table_is_lean_analysis : Dcg.Proofs.TemplateCheckTable.tableAgrees = true :=
  Dcg.Proofs.TemplateCheckTable.tableAgrees_ok

/-- values of plain characters (no quote, backslash, `#`, line break) — identifiers, dotted names,
base lists, type hints without string literals — satisfy the hypothesis at every site -/
theorem plain_values_lexically_neutral (e : Expr) (v : List Char)
    (h : ∀ c ∈ v, plainCh c = true) : LexHyp e v := lexHyp_of_plain e v h

/-- non-vacuity of the two theorems above: a rendering of the functional TypedDict template with a
key that is not an identifier and a described class; all its values satisfy the hypothesis -/
example : ∃ o, renderTemplate [("class_name", .str "M".toList), ("description", .str "a \"doc\"".toList),
      ("all_fields", .list [.dict [("key", .str "a b".toList), ("type_hint", .str "str".toList)]])]
      Dcg.Gen.TemplateAst.t_TypedDictFunction = .ok o ∧ o.sites.length = 5 ∧ NeutralValues o := by
  refine ⟨_, rfl, by decide +kernel, ?_⟩
  suffices h : ∀ p : Expr × List Char, p ∈ _ → LexHyp p.1 p.2 from fun p hp _ => h p hp
  intro p hp
  refine lexHypB_sound ?_
  revert p
  rw [← List.all_eq_true]
  decide +kernel

/-- non-vacuity: the hypothesis holds for an escaped docstring text that ends in two quotes and
contains a newline, at a docstring site; and for a key inside `'…'` -/
example : LexHyp (.filter (.filter (.name "description") .escapeDocstring) (.indent 4))
    "say \"\"\\\"hi\n    there\"\"".toList := lexHypB_sound (by decide +kernel)
example : LexHyp (.attr (.name "field") "key") "a\\'b".toList := lexHypB_sound (by decide +kernel)
/-- …and fails for an unescaped triple quote in a docstring, and for a raw quote in a key -/
example : lexHypB (.filter (.filter (.name "description") .escapeDocstring) (.indent 4)) "a\"\"\"b".toList = false := by
  decide +kernel
example : lexHypB (.attr (.name "field") "key") "a'b".toList = false := by decide +kernel

end TemplateLex

/-! ### Code-state sites written by Python code: class keywords (msgspec `tag_field=…, tag=…`) -/

/-- **Class keyword values are generator-authored, repr-rendered, or a sanitised identifier between
quotes.** Every `add_base_class_kwarg(name, value)` call of the generator (regenerated from the
sources' AST on every run) passes a string constant, a `represented_default`, or an f-string that
puts ONLY reviewed expressions (`field_name`: a sanitised identifier) between its hand-written
quotes — the value class `reprValue` that `Model/Sites` assigns to the `{{ value }}` site of
msgspec.jinja2 is thereby an obligation on the Python code, not an assumption.  Raw input (a wire
name, an alias) between hand-written quotes breaks this theorem. -/
theorem class_keyword_values_safe :
    Dcg.Gen.CodeSites.kwargSites.all Dcg.Model.CodeSites.kwargSiteOK = true ∧
    Dcg.Gen.CodeSites.kwargSites ≠ [] := by decide

/-- **Every return path of the extra-key sanitiser is the field-name resolver.** For the field models
that write extra schema keys (`x-…` keywords, and with `--field-include-all-keys` EVERY unknown keyword of
a property schema: `not`, `if`, `else`, `class`, …) as keyword NAMES of `Field(...)`, every function bound
to `JsonSchemaParser.get_field_extra_key` (regenerated from the AST on every run: lambdas, methods of the
class, every `return` of them, `a if c else b` split) returns
`self.model_resolver.get_valid_field_name_and_alias(key)[0]` of the untouched key on EVERY path — an
identifier that is not a keyword (C07) — so input text can only become the name of a keyword argument,
never a keyword or an operator.  A fast path that returns the key unchanged (`if key.isidentifier(): return
key`: `str.isidentifier` is true of `not`, `class`, `None`) breaks this obligation; the identity function is
accepted only under `not can_have_extra_keys`, where keys are written as string literals of a dict. -/
theorem field_extra_key_sanitiser_resolves :
    Dcg.Gen.CodeSites.fieldExtraKeySanitiser.all Dcg.Model.CodeSites.sanitiserPathOK = true ∧
    Dcg.Gen.CodeSites.fieldExtraKeySanitiser.any Dcg.Model.CodeSites.sanitiserBindsKeywordCase = true := by decide

end Dcg.Props.C10
