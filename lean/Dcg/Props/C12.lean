import Dcg.Proofs.Modules
import Dcg.Proofs.ModulesNorm
import Dcg.Props.C02
import Dcg.Proofs.CrossRef
import Dcg.Proofs.SharedCell
/-
C12 — in multi-module output every cross-module reference resolves inside the package.
Only property theorems live here; helper lemmas are in Dcg/Proofs/Modules.lean.

Vocabulary: a module path is a list of names below the output root (`[]` = the root package);
`emitted cur init exact base ref cls` is the import `__change_from_import` writes into module
`cur` for class `cls` of module `ref`; `designated importer pyInit r` is the module that import
names by Python's rule (`Dcg/Py/Import.resolveFrom`, trusted, validated against importlib);
`fileMap mods` is the file map `Parser.parse()` builds from the module paths that have models,
given in the order `sorted(key=(len, path), reverse=True)` yields (`deepestFirst`).
-/
namespace Dcg.Props.C12
open Dcg.Py.Import Dcg.Model.Modules Dcg.Proofs.Modules

private def n (s : String) : Name := s.toList

/-! ### relative imports resolve -/

/-- FULL STRENGTH for package-file importers (holds since the repair of D8, commit dc968b7):
for ALL importer / importee module paths of any depth — sibling, cousin, ancestor, root and
descendant importees alike — the import written into the package `__init__` of `cur`
(`relative`, one more dot unless the importee lies below the package) designates, by Python's
rule from that file's location, exactly the importee's module. (`cur ≠ []`: the root package file is never processed with
`init = True`; it is `relative_resolves_root`.) -/
theorem relative_resolves_package_file (cur ref : MPath) (cls : Name)
    (hn : namesNonempty ref = true) (hcur : cur ≠ []) (hne : cur ≠ ref) :
    ∃ r, emitted cur true false false ref cls = some r ∧ designated cur true r = some ref := by
  by_cases hp : cur <+: ref
  · exact emitted_designates_init_descendant cur ref cls false false (noEmpty_of_bool hn) hcur hp hne
  · exact emitted_designates cur ref cls true false false (noEmpty_of_bool hn) hp (by simp)

/-- the former D8 witness: `a.b.M` (in `a/b/__init__.py`) referring to `a.b.d.X` now gets `from . import d` -/
example : emitted [n "a", n "b"] true false false [n "a", n "b", n "d"] (n "X") = some ⟨1, [], n "d", true⟩ ∧
    designated [n "a", n "b"] true ⟨1, [], n "d", true⟩ = some [n "a", n "b", n "d"] := by decide
/-- … and a cousin importee still gets the extra dot -/
example : designated [n "a", n "b"] true ((emitted [n "a", n "b"] true false false [n "a", n "c"] (n "Y")).get (by decide))
    = some [n "a", n "c"] := by decide

/-- FULL STRENGTH for plain-module importers (FALSE as a statement about arbitrary pairs, kept
visible): a plain module `cur.py` importing from a module below `cur`. -/
def RelativeResolvesPlain : Prop :=
  ∀ (cur ref : MPath) (cls : Name), namesNonempty ref = true → cur ≠ ref →
    ∃ r, emitted cur false false false ref cls = some r ∧ designated cur false r = some ref

/-- PARTIAL, all depths: a plain module resolves every importee that does not lie below it.
The excluded case cannot arise in a covered file map: a module with a descendant is written as a
package file (`descendant_implies_init_partial`). -/
theorem relative_resolves_plain_partial (cur ref : MPath) (cls : Name)
    (hn : namesNonempty ref = true) (h : cur.isPrefixOf ref = false) :
    ∃ r, emitted cur false false false ref cls = some r ∧ designated cur false r = some ref :=
  emitted_designates cur ref cls false false false (noEmpty_of_bool hn)
    (fun hp => by rw [List.isPrefixOf_iff_prefix.mpr hp] at h; cases h) (by simp)

example : (n "a" :: [n "b"]).isPrefixOf [n "a", n "c"] = false := by decide
example : designated [n "a", n "b", n "c"] false ((emitted [n "a", n "b", n "c"] false false false [n "x", n "y"] (n "Y")).get (by decide))
    = some [n "x", n "y"] := by decide
example : designated [n "a", n "b"] false ((emitted [n "a", n "b"] false false false [] (n "Z")).get (by decide))
    = some [] := by decide

/-- REFUTATION of the plain-module statement: from a *plain* module `a/b.py` the import of
`a.b.d.X` is `from . import d`, which Python reads as `a.d`. This is why the file map must turn
every module with descendants into a package (it does not always: `descendant_implies_init_false`). -/
theorem plain_importer_descendant_unresolved :
    emitted [n "a", n "b"] false false false [n "a", n "b", n "d"] (n "X") = some ⟨1, [], n "d", true⟩ ∧
    designated [n "a", n "b"] false ⟨1, [], n "d", true⟩ = some [n "a", n "d"] ∧
    designated [n "a", n "b"] false ⟨1, [], n "d", true⟩ ≠ some [n "a", n "b", n "d"] := by decide

theorem relative_resolves_plain_false : ¬ RelativeResolvesPlain := by
  intro h
  obtain ⟨r, hr, hd⟩ := h [n "a", n "b"] [n "a", n "b", n "d"] (n "X") (by decide) (by decide)
  have h1 := plain_importer_descendant_unresolved
  rw [h1.1] at hr
  cases hr
  exact h1.2.2 hd

/-- The root `__init__.py` is processed with `init = False` although Python treats it as a
package file; every import written there resolves (all importees, any depth, any form). -/
theorem relative_resolves_root (ref : MPath) (cls : Name) (exact isBase : Bool)
    (hn : namesNonempty ref = true) (h : ref ≠ []) :
    ∃ r, emitted [] false exact isBase ref cls = some r ∧ designated [] true r = some ref :=
  emitted_designates_root ref cls exact isBase (noEmpty_of_bool hn) h

/-! ### exact imports (`--use-exact-imports`, and always for base classes) -/

/-- PARTIAL, package-file importers: `from <dots><pkg>.<module> import Class` designates the
importee's module unless the importee's module is a prefix of the importer's (a class of an
ancestor package). Importees BELOW the package are included. -/
theorem exact_resolves_package_file_partial (cur ref : MPath) (cls : Name) (exact isBase : Bool)
    (hn : namesNonempty ref = true) (hcur : cur ≠ []) (hne : cur ≠ ref) (h2 : ref.isPrefixOf cur = false) :
    ∃ r, emitted cur true exact isBase ref cls = some r ∧ designated cur true r = some ref := by
  by_cases hp : cur <+: ref
  · exact emitted_designates_init_descendant cur ref cls exact isBase (noEmpty_of_bool hn) hcur hp hne
  · exact emitted_designates cur ref cls true exact isBase (noEmpty_of_bool hn) hp
      (fun _ hq => by rw [List.isPrefixOf_iff_prefix.mpr hq] at h2; cases h2)

/-- PARTIAL, plain-module importers: neither path may be a prefix of the other. -/
theorem exact_resolves_plain_partial (cur ref : MPath) (cls : Name) (exact isBase : Bool)
    (hn : namesNonempty ref = true) (h1 : cur.isPrefixOf ref = false) (h2 : ref.isPrefixOf cur = false) :
    ∃ r, emitted cur false exact isBase ref cls = some r ∧ designated cur false r = some ref :=
  emitted_designates cur ref cls false exact isBase (noEmpty_of_bool hn)
    (fun hp => by rw [List.isPrefixOf_iff_prefix.mpr hp] at h1; cases h1)
    (fun _ hp => by rw [List.isPrefixOf_iff_prefix.mpr hp] at h2; cases h2)

example : designated [n "a", n "b"] false ((emitted [n "a", n "b"] false true false [n "a", n "c"] (n "X")).get (by decide))
    = some [n "a", n "c"] := by decide
example : designated [n "a", n "b"] true ((emitted [n "a", n "b"] true true false [n "a", n "b", n "d"] (n "X")).get (by decide))
    = some [n "a", n "b", n "d"] := by decide

/-- REFUTATION of the exact form without the second hypothesis (open finding C12-exact-ancestor):
`a.b.M` deriving from (or, under `--use-exact-imports`, referring to) `a.X` — a class of the
ancestor package `a/__init__.py` — gets `from .X import X`, i.e. module `a.X`, which does not exist. -/
theorem exact_ancestor_member_unresolved :
    emitted [n "a", n "b"] false false true [n "a"] (n "X") = some ⟨1, [n "X"], n "X", false⟩ ∧
    designated [n "a", n "b"] false ⟨1, [n "X"], n "X", false⟩ = some [n "a", n "X"] ∧
    designated [n "a", n "b"] false ⟨1, [n "X"], n "X", false⟩ ≠ some [n "a"] := by decide

/-! ### the file map -/

/-- a module one of whose *children* is processed is written as a package `__init__.py`
(all inputs in deepest-first order) -/
theorem child_implies_init (mods : List MPath) (hd : deepestFirst mods = true)
    (a : Assigned) (ha : a ∈ assign [] (procOrder mods))
    (c : Proc) (hc : c ∈ procOrder mods) (hcm : c.mod ≠ []) (hch : c.mod.dropLast = a.mod) :
    a.key = .init a.mod ∧ (a.mod ≠ [] → a.init = true) :=
  child_implies_init_key hd ha hc hcm hch

/-- FULL STRENGTH (FALSE on the pinned tree): a module that has any descendant module is a package file. -/
def DescendantImpliesInit : Prop :=
  ∀ (mods : List MPath), deepestFirst mods = true →
    ∀ a ∈ assign [] (procOrder mods), ∀ p ∈ procOrder mods,
      a.mod <+: p.mod → a.mod ≠ p.mod → a.key = .init a.mod

/-- PARTIAL: under `covered` (every package between the root and a processed module was reached
by the gap filler — a decidable condition on the input) a module with a descendant is always
written as a package `__init__`, so "plain module with the importee below it" cannot arise. -/
theorem descendant_implies_init_partial (mods : List MPath) (hd : deepestFirst mods = true)
    (hcov : covered mods = true) (a : Assigned) (ha : a ∈ assign [] (procOrder mods))
    (p : Proc) (hp : p ∈ procOrder mods) (hpre : a.mod <+: p.mod) (hne : a.mod ≠ p.mod) :
    a.key = .init a.mod ∧ (a.mod ≠ [] → a.init = true) :=
  descendant_implies_init_key hd hcov ha hp hpre hne

/-- witness input for the refutations below: definitions `b.c.d.M`, `a.y.z.N`, `b.K` (+ root) -/
def gapWitness : List MPath := [[n "b", n "c", n "d"], [n "a", n "y", n "z"], [n "b"], []]

example : deepestFirst gapWitness = true ∧ covered gapWitness = false := by decide
/-- non-vacuity of `covered`: `a.b.M`, `a.b.d.X`, `a.c.Y`, `Z` -/
example : deepestFirst [[n "a", n "b", n "d"], [n "a", n "c"], [n "a", n "b"], []] = true ∧
    covered [[n "a", n "b", n "d"], [n "a", n "c"], [n "a", n "b"], []] = true := by decide

/-- REFUTATION (defect found by this check): the gap filler only walks up from the module processed
immediately before; `b` has the descendant `b.c.d` and is still written as plain `b.py`. -/
theorem descendant_implies_init_false : ¬ DescendantImpliesInit := by
  intro h
  have := h gapWitness (by decide) ⟨[n "b"], true, .py [] (n "b"), false⟩ (by decide)
    ⟨[n "b", n "c", n "d"], true⟩ (by decide) (by decide) (by decide)
  exact absurd this (by decide)

/-- PARTIAL: under `covered` the file map never contains both `x.py` and a file below `x/`. -/
theorem no_shadowing_partial (mods : List MPath) (hd : deepestFirst mods = true)
    (hcov : covered mods = true) : shadowFree (keys (fileMap mods)) = true :=
  no_shadowing_of_covered hd hcov

/-- REFUTATION of the full statement: for `gapWitness` the output has `b.py` and `b/c/d.py`. -/
theorem no_shadowing_false :
    shadowFree (keys (fileMap gapWitness)) = false ∧
    FileKey.py [] (n "b") ∈ keys (fileMap gapWitness) ∧
    FileKey.py [n "b", n "c"] (n "d") ∈ keys (fileMap gapWitness) := by decide

/-- every module with models gets a file of its own … -/
theorem module_has_file (mods : List MPath) (m : MPath) (hm : m ∈ mods) :
    FileKey.init m ∈ keys (fileMap mods) ∨
      (m ≠ [] ∧ FileKey.py m.dropLast (m.getLast?.getD []) ∈ keys (fileMap mods)) :=
  module_has_file_key hm

/-- … and the package directly above it has an `__init__.py`. -/
theorem model_parent_has_init (mods : List MPath) (m : MPath) (hm : m ∈ mods) (hne : m ≠ []) :
    FileKey.init m.dropLast ∈ keys (fileMap mods) :=
  model_parent_has_init_key hm hne

/-- `parents_have_init` for ALL ancestors is FALSE without `--treat-dot-as-module`: `a.b.c.M`, `d.e.X`
gives `a/b/__init__.py` but no `a/__init__.py` (Python then treats `a` as a namespace package). -/
theorem parents_have_init_false :
    parentsHaveInit (keys (fileMap [[n "a", n "b", n "c"], [n "d", n "e"], []])) = false := by decide

/-- with `--treat-dot-as-module`, `__postprocess_result_modules` gives every package directory its `__init__.py` -/
theorem treatDot_parents_have_init (mods : List MPath)
    (h : ((fileMap mods).find? (·.1.isInit)).isSome = true) :
    parentsHaveInit (keys (fileMapOpt true mods)) = true := by
  simp only [fileMapOpt, if_true]
  exact postTreatDot_parentsHaveInit _ h

/-- … but it does so by copying the *first* `__init__.py` body over all of them (observed on the
pinned tree): the models of package `a` are replaced by the empty body of `a/b/__init__.py`. -/
theorem treatDot_clobbers_init :
    (fileMapOpt false [[n "a", n "b", n "c"], [n "a"], []]).lookup (.init [n "a"]) = some (some [n "a"]) ∧
    (fileMapOpt true [[n "a", n "b", n "c"], [n "a"], []]).lookup (.init [n "a"]) = some none := by decide

/-! ### composition: every import of a covered file map resolves, except the exact/ancestor case -/

/-- In every deepest-first, covered file map, for every module `a` of the map (package file,
plain module or root) and every importee with models, the emitted import designates the
importee's module by Python's rule from the file `a` is written to. The only exclusion left is
the exact form of an import from an ancestor package (`hex`); `covered` is what rules out
"plain module with the importee below it". -/
theorem imports_resolve_in_file_map (mods : List MPath) (hd : deepestFirst mods = true)
    (hcov : covered mods = true) (a : Assigned) (ha : a ∈ assign [] (procOrder mods))
    (ref : MPath) (href : ref ∈ mods) (hn : namesNonempty ref = true)
    (cls : Name) (exact isBase : Bool) (hne : ref ≠ a.mod)
    (hex : (exact || isBase) = true → ¬ ref <+: a.mod) :
    ∃ r, emitted a.mod a.init exact isBase ref cls = some r ∧
      designated a.mod a.key.isInit r = some ref := by
  by_cases hroot : a.mod = []
  · -- the root package file
    obtain ⟨l1, p, l2, _, rfl⟩ := mem_assign ha
    rw [assignOne_mod] at hroot
    rcases assignOne_cases (parentsAfter [] l1) p with ⟨_, hk, hi⟩ | ⟨h0, _⟩ | ⟨h0, _⟩
    · rw [assignOne_mod, hroot, hk, hi]
      exact emitted_designates_root ref cls exact isBase (noEmpty_of_bool hn) (by rw [assignOne_mod, hroot] at hne; exact hne)
    · exact absurd hroot h0
    · exact absurd hroot h0
  · have hp : (⟨ref, true⟩ : Proc) ∈ procOrder mods := mem_procFrom_of_mem href
    by_cases hpre : a.mod <+: ref
    · -- importee below importer: the importer is a package file (covered) and uses the single dot
      have hinit := descendant_implies_init_key hd hcov ha hp hpre (fun h => hne h.symm)
      rw [hinit.1, hinit.2 hroot]
      exact emitted_designates_init_descendant a.mod ref cls exact isBase (noEmpty_of_bool hn) hroot hpre (fun h => hne h.symm)
    · obtain ⟨l1, p, l2, _, rfl⟩ := mem_assign ha
      rcases assignOne_cases (parentsAfter [] l1) p with ⟨h0, _⟩ | ⟨_, _, hk, hi⟩ | ⟨_, _, hk, hi⟩
      · rw [assignOne_mod] at hroot; exact absurd h0 hroot
      · rw [hk, hi]; exact emitted_designates _ ref cls true exact isBase (noEmpty_of_bool hn) hpre hex
      · rw [hk, hi]; exact emitted_designates _ ref cls false exact isBase (noEmpty_of_bool hn) hpre hex

/-- non-vacuity of the composition: `a.b.M`, `a.b.d.X`, `a.c.Y`, `Z` — the plain module `a/c.py` and the package
file `a/b/__init__.py`, both importing from `a.b.d` (for the latter: a module below it), satisfy every hypothesis -/
example :
    let mods : List MPath := [[n "a", n "b", n "d"], [n "a", n "c"], [n "a", n "b"], []]
    deepestFirst mods = true ∧ covered mods = true ∧
    (⟨[n "a", n "c"], true, .py [n "a"] (n "c"), false⟩ : Assigned) ∈ assign [] (procOrder mods) ∧
    (⟨[n "a", n "b"], true, .init [n "a", n "b"], true⟩ : Assigned) ∈ assign [] (procOrder mods) ∧
    [n "a", n "b", n "d"] ∈ mods ∧ namesNonempty [n "a", n "b", n "d"] = true ∧
    ([n "a", n "b"] <+: [n "a", n "b", n "d"]) := by decide

/-- non-vacuity of `child_implies_init` and of the treat-dot hypothesis -/
example :
    let mods : List MPath := [[n "a", n "b", n "d"], [n "a", n "b"], []]
    deepestFirst mods = true ∧ (⟨[n "a", n "b", n "d"], true⟩ : Proc) ∈ procOrder mods ∧
    (⟨[n "a", n "b"], true, .init [n "a", n "b"], true⟩ : Assigned) ∈ assign [] (procOrder mods) ∧
    ((fileMap mods).find? (·.1.isInit)).isSome = true := by decide

/-! ### renaming a class inside its module (`DataModel.class_name` setter, per-module duplicate names)

The models are grouped into modules by `module_path` BEFORE `__replace_duplicate_name_in_module` renames
the classes whose names collide inside one module (`models.Pet` / `models.pet` → `Pet`, `PetModel`);
every import of the renamed class is computed from its `module_path` AFTER the renaming. Both must be the
same path, for models read from input files too, where the path also holds directories and file stem. -/

/-- Renaming through the setter never moves a model: for EVERY dotted or undotted name, every new class
name without a dot, and every source file (or none), the module path computed from the new name is the
module path of the old name, and the class name read back is the one that was set. -/
theorem rename_keeps_module_path (treatDot : Bool) (name cls : List Char)
    (file : Option (List Name × Name)) (hcls : '.' ∉ cls) :
    getModulePath treatDot (setClassName name cls) file = getModulePath treatDot name file ∧
    className (setClassName name cls) = cls :=
  ⟨getModulePath_setClassName treatDot name cls file hcls, className_setClassName name cls hcls⟩

/-- the same for a whole module: after `__replace_duplicate_name_in_module` (whatever it renames, to
whatever dot-free names) every model still has the module path it was grouped under -/
theorem rename_all_keeps_module_paths (treatDot : Bool) (file : Option (List Name × Name))
    (jobs : List (List Char × Option (List Char)))
    (h : ∀ j ∈ jobs, ∀ c, j.2 = some c → '.' ∉ c) :
    (renameAll jobs).map (fun nm => getModulePath treatDot nm file) =
      jobs.map (fun j => getModulePath treatDot j.1 file) := by
  induction jobs with
  | nil => rfl
  | cons j rest ih =>
    obtain ⟨nm, o⟩ := j
    have ih' := ih (fun j hj => h j (List.mem_cons_of_mem _ hj))
    cases o with
    | none => simp only [renameAll, List.map_cons, ih']
    | some c =>
      simp only [renameAll, List.map_cons, ih']
      rw [getModulePath_setClassName treatDot nm c file (h (nm, some c) (by simp) c rfl)]

/-- non-vacuity: the two definitions of `api.json` that collapse to `Pet` in module `api.models`; the second is renamed -/
example :
    let jobs := [(n "models.Pet", none), (n "models.pet", some (n "PetModel"))]
    (∀ j ∈ jobs, ∀ c, j.2 = some c → '.' ∉ c) ∧
    renameAll jobs = [n "models.Pet", n "models.PetModel"] ∧
    (renameAll jobs).map (fun nm => getModulePath false nm (some ([n "my-api"], n "api"))) =
      [[n "my-api", n "api", n "models"], [n "my-api", n "api", n "models"]] := by decide

/-- COMPOSITION with `relative_resolves_package_file`: the import a package file writes for the RENAMED
class designates, by Python's rule, the module the class was grouped under (and is written to). -/
theorem renamed_class_import_resolves_package_file (cur : MPath) (treatDot : Bool) (name cls : List Char)
    (file : Option (List Name × Name)) (hcls : '.' ∉ cls)
    (hn : namesNonempty (getModulePath treatDot name file) = true) (hcur : cur ≠ [])
    (hne : cur ≠ getModulePath treatDot name file) :
    ∃ r, emitted cur true false false (getModulePath treatDot (setClassName name cls) file) cls = some r ∧
      designated cur true r = some (getModulePath treatDot name file) := by
  rw [getModulePath_setClassName treatDot name cls file hcls]
  exact relative_resolves_package_file cur _ cls hn hcur hne

/-- … and so does the import a plain module writes (importee not below the importer) -/
theorem renamed_class_import_resolves_plain_partial (cur : MPath) (treatDot : Bool) (name cls : List Char)
    (file : Option (List Name × Name)) (hcls : '.' ∉ cls)
    (hn : namesNonempty (getModulePath treatDot name file) = true)
    (h : cur.isPrefixOf (getModulePath treatDot name file) = false) :
    ∃ r, emitted cur false false false (getModulePath treatDot (setClassName name cls) file) cls = some r ∧
      designated cur false r = some (getModulePath treatDot name file) := by
  rw [getModulePath_setClassName treatDot name cls file hcls]
  exact relative_resolves_plain_partial cur _ cls hn h

/-- non-vacuity, on the shape of a real input: `models.pet` of `api.json` renamed to `PetModel` stays in
`api.models`; the root module `zoo` imports it as `from .api import models` -/
example :
    setClassName (n "models.pet") (n "PetModel") = n "models.PetModel" ∧
    getModulePath false (n "models.PetModel") (some ([], n "api")) = [n "api", n "models"] ∧
    emitted [n "zoo"] false false false [n "api", n "models"] (n "PetModel") = some ⟨1, [n "api"], n "models", true⟩ ∧
    designated [n "zoo"] false ⟨1, [n "api"], n "models", true⟩ = some [n "api", n "models"] := by decide

/-- why the prefix must come from the NAME: rebuilt from the module name (which already holds the file's
own module `api`) the path would count the file twice -/
example :
    getModulePath false (joinDot (getModulePath false (n "models.pet") (some ([], n "api")) ++ [n "PetModel"]))
      (some ([], n "api")) = [n "api", n "api", n "models"] := by decide

/-! ### the keys of the dict `parse()` returns (input file trees: directory names with `"-"`) -/

/-- No part of any key of the result — directory names, file stems — contains `"-"`, with and without
`--treat-dot-as-module`, for ALL module paths (raw directory names of any shape included). -/
theorem result_keys_hyphen_free (treatDot : Bool) (mods : List MPath) :
    ∀ k ∈ keys (resultsFinal treatDot mods), k.hyphenFree = true := by
  unfold resultsFinal
  split
  · exact hyphenFree_keys_postTreatDot (hyphenFree_keys_rekey_normHyphen _)
  · exact hyphenFree_keys_rekey_flattenDots (hyphenFree_keys_rekey_normHyphen _)

/-- one entry per path: no two files of the result have the same key -/
theorem result_keys_distinct (treatDot : Bool) (mods : List MPath) :
    (keys (resultsFinal treatDot mods)).Nodup := by
  unfold resultsFinal
  split
  · exact nodup_keys_postTreatDot (nodup_keys_rekey _ _)
  · exact nodup_keys_rekey _ _

/-- A module that is itself a package (processed with `init = True`) is stored under the raw key of its
placeholder, so after the final pass its body and the placeholder that made it a package are ONE file,
`<normalised module path>/__init__.py`, and that file is in the result. -/
theorem package_file_meets_placeholder (mods : List MPath) (a : Assigned)
    (ha : a ∈ assign [] (procOrder mods)) (hi : a.init = true) :
    writtenKey a = .init a.mod ∧ FileKey.init a.mod ∈ parentsAfter [] (procOrder mods) ∧
    (writtenKey a).normHyphen = .init (a.mod.map normHyphen) ∧
    FileKey.init (a.mod.map normHyphen) ∈ keys (resultsHyphen mods) := by
  obtain ⟨hk, hp⟩ := init_key_is_placeholder ha hi
  refine ⟨hk, hp, by rw [hk]; rfl, ?_⟩
  exact mem_keys_rekey.mpr ⟨.init a.mod, mem_keys_resultsRaw.mpr (Or.inl hp), rfl⟩

/-- PARTIAL (two decidable side conditions: no other module is written to the same file, no other raw key
falls on the same normalised key): the models of every processed module — plain module or package — are
found in the result under the NORMALISED key of the module, i.e. where an import statement looks. -/
theorem module_body_at_normalised_key_partial (mods : List MPath) (a : Assigned)
    (ha : a ∈ assign [] (procOrder mods)) (hw : a.written = true)
    (hs : soleWriter mods a = true) (hp : solePath mods a = true) :
    (resultsHyphen mods).lookup (writtenKey a).normHyphen = some (bodyOf a) :=
  lookup_resultsHyphen ha hw hs hp

/-- non-vacuity on the shape of a real tree: `my-api/x.json` with a dotted definition `sub.Model` (so that
`my-api.x` is a package), `my-api/y.json`, `common.json` -/
example :
    let mods : List MPath := [[n "my-api", n "x", n "sub"], [n "my-api", n "y"], [n "my-api", n "x"], [n "common"]]
    let a : Assigned := ⟨[n "my-api", n "x"], true, .init [n "my-api", n "x"], true⟩
    deepestFirst mods = true ∧ a ∈ assign [] (procOrder mods) ∧ a.written = true ∧
    soleWriter mods a = true ∧ solePath mods a = true ∧
    (resultsHyphen mods).lookup (.init [n "my_api", n "x"]) = some (some [n "my-api", n "x"]) ∧
    keys (resultsFinal false mods) = [.init [n "my_api", n "x"], .init [n "my_api"], .init [],
      .py [n "my_api", n "x"] (n "sub"), .py [n "my_api"] (n "y"), .py [] (n "common")] := by decide

/-- REFUTATION of the statement without the side conditions: directories `my-api/` and `my_api/` fall on
one package. Without `soleWriter`: the plain modules `my_api/x` and `my-api/x` are written to one file, the
models of the first are lost. Without `solePath`: the package files `my_api/x/__init__.py` and
`my-api/x/__init__.py` have different raw keys that the final pass merges, the models of the first are lost. -/
theorem module_body_lost_on_key_clash :
    (let mods : List MPath := [[n "my_api", n "x"], [n "my-api", n "x"]]
     let a : Assigned := ⟨[n "my_api", n "x"], true, .py [n "my_api"] (n "x"), false⟩
     a ∈ assign [] (procOrder mods) ∧ a.written = true ∧ solePath mods a = true ∧ soleWriter mods a = false ∧
     (resultsHyphen mods).lookup (writtenKey a).normHyphen = some (some [n "my-api", n "x"])) ∧
    (let mods : List MPath := [[n "my_api", n "x", n "s"], [n "my-api", n "x", n "s"], [n "my_api", n "x"], [n "my-api", n "x"]]
     let a : Assigned := ⟨[n "my_api", n "x"], true, .init [n "my_api", n "x"], true⟩
     a ∈ assign [] (procOrder mods) ∧ a.written = true ∧ soleWriter mods a = true ∧ solePath mods a = false ∧
     (resultsHyphen mods).lookup (writtenKey a).normHyphen = some (some [n "my-api", n "x"])) := by decide

/-! ### names -/

/-- a sanitised file stem has the shape of an identifier (`[A-Za-z_][A-Za-z0-9_]*`) … -/
theorem sanitized_stem_identifier_shape (stem : List Char) (h : stem ≠ []) :
    isAsciiIdentShape (sanitizeModuleName false stem) = true :=
  sanitize_shape stem h

/-- … but keywords are let through (defect found by this check: `class.json` ⇒ `class.py`,
`from . import class`), and directory names are not sanitised at all. -/
theorem sanitized_stem_may_be_keyword :
    sanitizeModuleName false (n "class") = n "class" ∧
    getModulePath false (n "Model") (some ([n "my-dir"], n "pet")) = [n "my-dir", n "pet"] := by decide

/-- … and it consists of ASCII characters only, with or without `--treat-dot-as-module`. Python applies
the NFKC normalisation to every identifier it compiles, the names in `import` statements included, and
NFKC leaves ASCII text alone (checked against `unicodedata` on all 128 characters in every run): the
file written under a sanitised stem is the file the import statements that name it look for. -/
theorem sanitized_stem_ascii (treatDot : Bool) (stem : List Char) :
    (sanitizeModuleName treatDot stem).all (fun c => decide (c.toNat < 128)) = true :=
  sanitize_ascii treatDot stem

/-- the micro sign (U+00B5, which NFKC turns into U+03BC) and the ligature U+FB01 do not survive -/
example : sanitizeModuleName false [Char.ofNat 0xB5, '_', 'u'] = n "__u" ∧
    sanitizeModuleName false [Char.ofNat 0xFB01, 'x'] = n "_x" := by decide

/-! ### the names of imports ("each use of a foreign model is qualified so that it reaches that import") -/

/-- `__change_from_import` FIRST registers every class of the module in the module's scoped resolver and
only THEN hands out the names of the imports. For every module — any classes (pairwise different model
paths `classes.map (·.1)`, names that `get_valid_field_name` leaves alone), any excluded member names,
any sequence of foreign references `reqs` (resolver keys that are no model paths; repeated keys and
repeated names allowed) — no import is given the name of a class of the module: a foreign class whose
short name equals a local class name is always imported `as` something else, so the bare name keeps
meaning the local class and `module.Name` written in OTHER modules keeps reaching it. -/
theorem import_names_avoid_local_classes (vn : List Char → List Char) (excl : List (List Char))
    (classes reqs : List (List Char × List Char)) (names : List (List Char))
    (hv : ∀ pc ∈ classes, vn pc.2 = pc.2) (hnd : (classes.map (·.1)).Nodup)
    (hk : ∀ r ∈ reqs, r.1 ∉ classes.map (·.1))
    (h : importNames vn excl classes reqs = some names) :
    ∀ nm ∈ names, nm ∉ classes.map (·.2) :=
  importNames_avoid hv hnd hk h

/-- non-vacuity, on the shape of a real module: `jobs.Job` (refers to the root `Status`), `jobs.Status`,
`jobs.Step`; one import asking for the name `Status` gets `Status_1` -/
example :
    let classes := [(n "#/definitions/jobs.Job", n "Job"), (n "#/definitions/jobs.Status", n "Status"),
      (n "#/definitions/jobs.Step", n "Step")]
    let reqs := [(n "./Status#", n "Status")]
    (∀ pc ∈ classes, id pc.2 = pc.2) ∧ (classes.map (·.1)).Nodup ∧ (∀ r ∈ reqs, r.1 ∉ classes.map (·.1)) ∧
    importNames id [] classes reqs = some [n "Status_1"] := by decide

/-- Why the order of the two loops matters (kept as a theorem: this is the statement above for the
MERGED loop, and it is false): when each class is registered only right before its own references are
served, the import met while `Job` is processed takes the bare name `Status` — the name of the class
`jobs.Status` that is registered afterwards. -/
theorem merged_loops_take_local_class_name :
    importNamesMerged id ⟨[], []⟩
      [(n "#/definitions/jobs.Job", n "Job", [(n "./Status#", n "Status")]),
       (n "#/definitions/jobs.Status", n "Status", []),
       (n "#/definitions/jobs.Step", n "Step", [])] = some [n "Status"] ∧
    n "Status" ∈ [n "Job", n "Status", n "Step"] := by decide

section CollapseLedger
open Dcg.Model.Types Dcg.Model.Imports Dcg.Proofs.Imports Dcg.Proofs.ImportLedger

/-! ### the import line of a foreign module under `--collapse-root-models` (C02's ledger model, read-only) -/

/-- The import block of ONE module (the `Imports` object `__change_from_import` fills and
`__collapse_root_models` takes from), for EVERY history of `append` / `remove` /
`remove_referenced_imports` of any length that is disciplined (`ledgerRun`: every batch taken back was
filed; `okRun`: no removal before its append — the harness records the real history of every module of the
family "one foreign root model used k times" and checks both, plus the per-use discipline of
`remove_referenced_imports`): the line `from . import types` (key `k`) is in the block at the end IF AND ONLY IF
the uses filed and not taken back as a batch outnumber the single removals — one `append` per use, one
`remove_referenced_imports` per collapsed use: the line survives exactly as long as a use remains. A
generator that files the import once per CLASS and takes it back once per USE runs out of credit while
an ordinary use of the same module is still written (`line_lost_when_filed_once_per_class`). -/
theorem import_line_survives_iff_use_remains (os : List LOp) (s : State) (L : Ledger)
    (hl : ledgerRun {} {} os = some L) (ok : okRun {} (os.map LOp.op) = true)
    (h : run {} (os.map LOp.op) = some s) (k : Key) :
    present s k = true ↔ (L.debits.count k : Int) < (credit L.filed k : Int) := by
  have hc := Dcg.Props.C02.ledger_counts os s L hl h k
  have hi := (Dcg.Props.C02.counter_invariant (os.map LOp.op) s ok h k).1
  rw [hi, hc]
  omega

namespace CollapseWitness
def sTypes : Str := ['t', 'y', 'p', 'e', 's']
def pMoney : Str := ['#', 'M']
def pAddr : Str := ['#', 'A']
/-- `from . import types`, filed for a use of `types.Money` / of `types.Address` -/
def forMoney : Imp := { from_ := some ['.'], name := sTypes, refPath := some pMoney }
def forAddr : Imp := { from_ := some ['.'], name := sTypes, refPath := some pAddr }
def kTypes : Key := (some ['.'], sTypes)
/-- two uses of the root model and one of the ordinary model, filed per use; both root-model uses collapsed -/
def perUse : List LOp := [.app [forMoney], .app [forMoney], .app [forAddr], .rr pMoney, .rr pMoney]
/-- the same module when the import is filed once per class -/
def perClass : List LOp := [.app [forMoney], .app [forAddr], .rr pMoney, .rr pMoney]
end CollapseWitness

open CollapseWitness in
/-- non-vacuity of `import_line_survives_iff_use_remains`: the hypotheses hold of the per-use history, and the
line is there (credit 3, two collapsed uses) -/
example : (ledgerRun {} {} perUse).isSome = true ∧ okRun {} (perUse.map LOp.op) = true ∧
    ((run {} (perUse.map LOp.op)).map (fun s => present s kTypes)) = some true := by
  decide

open CollapseWitness in
/-- Filed once per class, taken back once per use: the counter of `from . import types` reaches zero and the
line is dropped although the use of `types.Address` is still written — why the per-use discipline of the
recorded histories is checked (a history like this one is reported as a broken correspondence and starts the
failing-input search). -/
theorem line_lost_when_filed_once_per_class :
    ((run {} (perClass.map LOp.op)).map (fun s => present s kTypes)) = some false := by
  decide

end CollapseLedger

section CrossRef
open Dcg.Model.CrossRef Dcg.Proofs.CrossRef

/-! ### how a use of a foreign class is written (`__change_from_import`) and what it reaches (Model/CrossRef) -/

/-- "The import line it appends binds exactly the name the use is spelled with": for EVERY module (any path,
package file or not, both settings of `--use-exact-imports`), any member names, classes and sequence of
foreign references, every use the pass writes — `Class`, `Alias` or `alias.Class` — starts with the name
`Import.alias` of the import appended for it (whatever name the scoped resolver handed out). -/
theorem import_binds_spelled_name (vn : List Char → List Char) (exact : Bool) (cur : MPath) (init : Bool)
    (excl : List (List Char)) (classes : List (List Char × List Char)) (uses : List Use) (ws : List Written)
    (h : changeFromImport vn exact cur init excl classes uses = some ws) :
    ∀ w ∈ ws, w.imp.name ≠ [] → w.head = w.alias := by
  intro w hw hn
  obtain ⟨u, _, r, a, _, rfl⟩ := mem_changeFromImport h w hw
  rw [(mkWritten_fixed u r a).2.1] at hn
  rw [mkWritten_head u r a hn, (mkWritten_fixed u r a).2.2]

/-- FULL STRENGTH (FALSE of the code, kept visible): every use written by the pass whose import designates
the defining module reaches the class. -/
def WrittenUseResolves : Prop :=
  ∀ (T : Table) (pyInit : Bool) (vn : List Char → List Char) (exact : Bool) (cur : MPath) (init : Bool)
    (excl : List (List Char)) (classes : List (List Char × List Char)) (uses : List Use) (ws : List Written),
    changeFromImport vn exact cur init excl classes uses = some ws →
    ∀ w ∈ ws, designated cur pyInit w.imp = some w.use.ref → w.use.cls ∈ classesOf T w.use.ref →
      isModule T w.use.ref = true → w.imp.name ≠ [] →
      resolveUse T cur pyInit w = some (.cls w.use.ref w.use.cls)

/-- PARTIAL (decidable side condition `moduleFormOk`): for every table of modules and classes, every module
and every sequence of foreign references, each use the pass writes — in EITHER spelling: the class imported
under its own name or an alias (`from .. import Class [as Alias]`, the exact form included), or the module
imported and the class reached as `alias.Class` — resolves, by Python's rules (relative import from the
importer's file, attribute before sub-module, attribute of the bound module), to the class `cls` of the
defining module `ref`, provided the import designates that module (`hdes`: that is
`relative_resolves_package_file`, `relative_resolves_plain_partial`, `exact_resolves_*_partial`,
`imports_resolve_in_file_map`), the module defines the class, and — for the module form only — the alias is
not the class name, the module is not named like the class, and the package the module is imported from
has no class named like the module. Without the side condition the statement is false:
`module_named_like_class_unresolved`. -/
theorem written_use_resolves_partial (T : Table) (pyInit : Bool) (vn : List Char → List Char) (exact : Bool)
    (cur : MPath) (init : Bool) (excl : List (List Char)) (classes : List (List Char × List Char))
    (uses : List Use) (ws : List Written)
    (h : changeFromImport vn exact cur init excl classes uses = some ws) :
    ∀ w ∈ ws, designated cur pyInit w.imp = some w.use.ref → w.use.cls ∈ classesOf T w.use.ref →
      isModule T w.use.ref = true → w.imp.name ≠ [] → moduleFormOk T w = true →
      resolveUse T cur pyInit w = some (.cls w.use.ref w.use.cls) := by
  intro w hw hdes hcls hmod hn hok
  obtain ⟨u, _, r, a, hem, rfl⟩ := mem_changeFromImport h w hw
  obtain ⟨h1, h2, h3⟩ := mkWritten_fixed u r a
  unfold moduleFormOk at hok
  rw [h1, h2] at hdes
  rw [h1] at hcls hmod
  rw [h2] at hn
  rw [h1, h2, h3] at hok
  unfold resolveUse resolveSpelled
  rw [h1, h2, h3, mkWritten_head u r a hn]
  simp only [ne_eq, not_true_eq_false, if_false]
  unfold designated at hdes
  cases hm : r.isModule with
  | false =>
    have hname := emitted_class_form hem hm
    rw [hm] at hdes
    simp only [Bool.false_eq_true, if_false] at hdes
    rw [mkWritten_attr_class u r a hname]
    unfold importTarget
    rw [hdes]
    simp only [hname, hcls, if_true]
  | true =>
    rw [hm] at hdes hok
    simp only [if_true] at hdes
    simp only [Bool.not_true, Bool.false_or, Bool.and_eq_true, decide_eq_true_eq, Bool.not_eq_true',
      ne_eq] at hok
    obtain ⟨⟨⟨ha, hc⟩, _⟩, hnc⟩ := hok
    obtain ⟨p, hp, href⟩ := resolveFrom_snoc hdes
    rw [mkWritten_attr_module u r a hn ha hc]
    unfold importTarget
    rw [hp]
    have hd : u.ref.dropLast = p := by rw [href, List.dropLast_concat]
    rw [hd] at hnc
    have hnc' : r.name ∉ classesOf T p := by
      intro hin
      rw [List.contains_eq_mem, decide_eq_false_iff_not] at hnc
      exact hnc hin
    simp only [hnc', if_false, ← href, hmod, if_true, hcls]

/-- non-vacuity, on the shape of a real package: module `b` (plain file) uses `a.K` as a member (module form,
`from . import a`, `a.K`), the root class `Z` (class form, `from . import Z`) and `c.K` under a member named `c`
(module form under an alias, `from . import c as c_1`, `c_1.K`); every hypothesis holds of every use -/
example :
    let T : Table := [⟨[], [n "Z"]⟩, ⟨[n "a"], [n "K"]⟩, ⟨[n "b"], [n "User"]⟩, ⟨[n "c"], [n "K"]⟩]
    let uses : List Use := [⟨[n "a"], n "K", false⟩, ⟨[], n "Z", false⟩, ⟨[n "c"], n "K", false⟩]
    ∃ ws, changeFromImport id false [n "b"] false [n "c"] [(n "#/definitions/b.User", n "User")] uses = some ws ∧
      ws.map (fun w => (w.alias, w.render (fun _ c => c))) = [(n "a", n "a.K"), (n "Z", n "Z"), (n "c_1", n "c_1.K")] ∧
      ∀ w ∈ ws, designated [n "b"] false w.imp = some w.use.ref ∧ w.use.cls ∈ classesOf T w.use.ref ∧
        isModule T w.use.ref = true ∧ w.imp.name ≠ [] ∧ moduleFormOk T w = true := by
  refine ⟨_, rfl, ?_⟩
  decide

/-- REFUTATION of the full statement (defect found by this check, finding C12-module-named-like-class;
replayed on the real generator): definition `Pet.Pet` used from module `b`. `relative` answers `from . import Pet`,
the resolver hands out the name `Pet`, which IS the class name, so `data_type.alias` is not set and the member is
annotated `Pet` — the MODULE `Pet`, not its class. (The same test `short_name == import_` writes the bare alias
`Pet_1` when the name `Pet` is taken.) -/
theorem module_named_like_class_unresolved :
    let T : Table := [⟨[], [n "Model"]⟩, ⟨[n "Pet"], [n "Pet"]⟩, ⟨[n "b"], [n "User"]⟩]
    let w : Written := ⟨⟨[n "Pet"], n "Pet", false⟩, ⟨1, [], n "Pet", true⟩, n "Pet", n "Pet", none, none⟩
    changeFromImport id false [n "b"] false [n "pet"] [(n "#/definitions/b.User", n "User")]
      [⟨[n "Pet"], n "Pet", false⟩] = some [w] ∧
    designated [n "b"] false w.imp = some [n "Pet"] ∧ n "Pet" ∈ classesOf T [n "Pet"] ∧ isModule T [n "Pet"] = true ∧
    resolveUse T [n "b"] false w = some (.module [n "Pet"]) ∧ moduleFormOk T w = false := by decide

theorem written_use_resolves_false : ¬ WrittenUseResolves := by
  intro hall
  have hw := module_named_like_class_unresolved
  simp only at hw
  obtain ⟨h1, h2, h3, h4, h5, _⟩ := hw
  have := hall _ false id false [n "b"] false [n "pet"] [(n "#/definitions/b.User", n "User")] _ _ h1 _
    (List.mem_singleton.mpr rfl) h2 h3 h4 (by decide)
  rw [h5] at this
  cases this

/-! ### `__change_imported_model_name`: renaming a class that collides with an imported name -/

/-- A use whose `data_type.alias` was not set follows every later renaming: its text is the class name the
referenced model has when the module is rendered. Uses of classes of the module itself are of this kind
(`__change_from_import` skips them), so inside the module a renamed class is renamed at every use. -/
theorem unaliased_use_follows_rename (w : Written) (now : MPath → Name → Name) (h : w.dtAlias = none) :
    w.render now = now w.use.ref w.use.cls ∧ w.spelledNow now = (now w.use.ref w.use.cls, none) := by
  unfold Written.render Written.spelledNow
  rw [h]
  exact ⟨rfl, rfl⟩

/-- The pass renames ONLY classes whose class name is among the imported names: every other model keeps its
`reference.name` (same position, same name), so `written_use_resolves_partial` goes on holding of every use of
such a class over the table after the pass. -/
theorem rename_pass_keeps_unimported (cn : List Char → List Char) (imported : List (List Char)) (s : Scope)
    (classes : List (List Char × List Char)) (out : List (List Char))
    (h : renamePass cn imported s classes = some out) :
    out.length = classes.length ∧
    ∀ i (hi : i < classes.length) (ho : i < out.length),
      imported.contains (classNameOf (classes[i]).2) = false → out[i] = (classes[i]).2 :=
  renamePass_keeps classes s out h

/-- the table after a renaming: every class `c` of module `m` is now called `now m c` -/
def renameTable (now : MPath → Name → Name) (T : Table) : Table :=
  T.map (fun e => { e with classes := e.classes.map (now e.path) })

/-- FULL STRENGTH (FALSE of the code, kept visible): a use that reached its class before the pass reaches it,
under the name the class has now, after the pass. -/
def RenameKeepsForeignUses : Prop :=
  ∀ (T : Table) (cur : MPath) (pyInit : Bool) (w : Written) (now : MPath → Name → Name),
    resolveUse T cur pyInit w = some (.cls w.use.ref w.use.cls) →
    resolveAfter (renameTable now T) cur pyInit w now = some (.cls w.use.ref (now w.use.ref w.use.cls))

/-- REFUTATION (defect found by this check, finding C12-renamed-after-use; replayed on the real generator):
module `a` has the class `Literal` and a discriminated union, for which `from typing import Literal` is added
to its import block after `__change_from_import` ran. Module `b` was processed with `a.Literal` stored as the
text of its use. `__change_imported_model_name` then renames the class to `Literal1` (`renamePass`), inside `a`
every use follows, and `b` still says `a.Literal`: no class of that name is left in module `a`. -/
theorem rename_breaks_frozen_use :
    let w : Written := ⟨⟨[n "a"], n "Literal", false⟩, ⟨1, [], n "a", true⟩, n "a", n "a", some (n "Literal"), some (n "a.Literal")⟩
    let now : MPath → Name → Name := fun m c => if m = [n "a"] ∧ c = n "Literal" then n "Literal1" else c
    let T : Table := [⟨[n "a"], [n "Literal", n "Cat"]⟩, ⟨[n "b"], [n "User"]⟩]
    let T' : Table := renameTable now T
    changeFromImport id false [n "b"] false [] [(n "#/definitions/b.User", n "User")] [⟨[n "a"], n "Literal", false⟩] = some [w] ∧
    resolveUse T [n "b"] false w = some (.cls [n "a"] (n "Literal")) ∧
    renamePass id [n "Literal", n "BaseModel"] ⟨[⟨n "k1", n "Literal", n "Literal"⟩, ⟨n "k2", n "Cat", n "Cat"⟩], []⟩
      [(n "k1/imported_name", n "a.Literal"), (n "k2/imported_name", n "a.Cat")] = some [n "a.Literal1", n "a.Cat"] ∧
    w.render now = n "a.Literal" ∧ classesOf T' [n "a"] = [n "Literal1", n "Cat"] ∧
    resolveAfter T' [n "b"] false w now = none := by decide

theorem rename_keeps_foreign_uses_false : ¬ RenameKeepsForeignUses := by
  intro hall
  have hw := rename_breaks_frozen_use
  simp only at hw
  obtain ⟨_, h2, _, _, _, h5⟩ := hw
  have := hall _ _ _ _ (fun m c => if m = [n "a"] ∧ c = n "Literal" then n "Literal1" else c) h2
  rw [h5] at this
  cases this

end CrossRef

/-! ### the spelling of a use is kept in the data-type object (Model/SharedCell)

`__change_from_import` stores the spelling module `m` needs for a cross-module use (`Circle`, `shapes.Circle`,
`shapes_1.Circle`) in `DataType.alias` of the object the use sits in, module after module; the modules are rendered
after all of them were processed. -/
section SharedCells
open Dcg.Model.SharedCell Dcg.Proofs.SharedCell

/-- The full-strength statement — every use reads, when its module is rendered, the spelling its own module computed
for it — is FALSE of the mechanism as soon as an object is reachable from two modules (`shared_cell_reads_last_writer`,
`shared_cell_keeps_stale_spelling`). Kept visible. -/
def render_eq_spelling_full : Prop :=
  ∀ hist : List Use, coherent hist = true → ∀ u ∈ hist, render hist u = u.sp

/-- Per-module spelling is right when no object is shared between modules: for EVERY history of uses (any number of
modules, objects, uses, any processing order) in which no object is met in two different modules and the uses of one
object inside a module get one spelling, every use reads — after ALL modules were processed — exactly the spelling
its own module's import block gives it. (`unshared` is the invariant the harness checks on the real run, by object
identity: c12_shared.) -/
theorem render_eq_spelling_partial (hist : List Use) (hu : unshared hist = true) (hc : coherent hist = true)
    (u : Use) (hm : u ∈ hist) : render hist u = u.sp :=
  run_reach hist u.cell u.sp empty (allSp_of hist hu hc u hm) ⟨u, hm, rfl⟩ rfl

/-- non-vacuity: two modules, three objects, qualified and plain spellings -/
example : unshared [⟨0, 1, none⟩, ⟨0, 2, none⟩, ⟨1, 3, some "s.C".toList⟩, ⟨1, 3, some "s.C".toList⟩] = true ∧
    coherent [⟨0, 1, none⟩, ⟨0, 2, none⟩, ⟨1, 3, some "s.C".toList⟩, ⟨1, 3, some "s.C".toList⟩] = true := by decide

/-- The same for spellings computed per (module, reference) — what `relative()` + the scoped resolver are: whatever
function `sp` of (module, reference) gives the spelling and whatever reference `refOf` an object carries, if no object
is met in two modules then every use (m, c) reads `sp m (refOf c)`. Coherence needs no hypothesis here. -/
theorem per_module_spelling_read_back (sp : Nat → Nat → Spelling) (refOf : Nat → Nat) (uses : List (Nat × Nat))
    (hu : unshared (histOf sp refOf uses) = true) (m c : Nat) (hm : (m, c) ∈ uses) :
    render (histOf sp refOf uses) ⟨m, c, sp m (refOf c)⟩ = sp m (refOf c) := by
  have hmem : (⟨m, c, sp m (refOf c)⟩ : Use) ∈ histOf sp refOf uses :=
    List.mem_map.mpr ⟨(m, c), hm, rfl⟩
  have hall : allSp (histOf sp refOf uses) c (sp m (refOf c)) := by
    intro v hv hcell
    obtain ⟨⟨m', c'⟩, hmc, rfl⟩ := List.mem_map.mp hv
    simp only at hcell
    subst hcell
    have h1 := List.all_eq_true.mp (List.all_eq_true.mp hu _ hmem) _ (List.mem_map.mpr ⟨(m', c'), hmc, rfl⟩)
    simp only [Bool.or_eq_true, bne_iff_ne, ne_eq, beq_iff_eq, not_true_eq_false, false_or] at h1
    simp only [h1]
  exact run_reach _ c _ empty hall ⟨_, hmem, rfl⟩ rfl

/-- non-vacuity: module 0 beside the class (plain name), module 1 elsewhere (qualified), objects 1..3 not shared -/
example : unshared (histOf (fun m _ => if m = 0 then none else some "s.C".toList) (fun _ => 9) [(0, 1), (1, 2), (1, 3)]) = true := by
  decide

/-- An object met in two modules reads the LAST writer, for every history before it: whatever module `m'` wanted for
its use sitting in object `c`, once a later use of the same object writes `a` the earlier one reads `a`. -/
theorem shared_cell_reads_last_writer (hist : List Use) (m m' c : Nat) (s : Spelling) (a : List Char) :
    render (hist ++ [⟨m, c, some a⟩]) ⟨m', c, s⟩ = some a := by
  unfold render
  rw [run_append]
  simp [run, write]

/-- … so the earlier module's use is misspelt whenever the two modules spell the class differently. -/
theorem shared_cell_misread (hist : List Use) (m m' c : Nat) (s : Spelling) (a : List Char) (h : s ≠ some a) :
    render (hist ++ [⟨m, c, some a⟩]) ⟨m', c, s⟩ ≠ s := by
  rw [shared_cell_reads_last_writer]; exact fun e => h e.symm

/-- non-vacuity of `shared_cell_misread`: `from . import Circle` (plain) in the module processed first -/
example : (none : Spelling) ≠ some "shapes.Circle".toList := by decide

/-- Witness, refuting `render_eq_spelling_full`: object 7 copied shallowly from the base's member (module 1,
`from . import shapes` → `shapes.Circle`) into the child (module 0, beside the class: `from . import Circle`, plain).
The child is processed first and reads `shapes.Circle` — a name its import block does not bind. -/
theorem shared_cell_written_twice_keeps_last :
    coherent [⟨0, 7, none⟩, ⟨1, 7, some "shapes.Circle".toList⟩] = true ∧
    unshared [⟨0, 7, none⟩, ⟨1, 7, some "shapes.Circle".toList⟩] = false ∧
    render [⟨0, 7, none⟩, ⟨1, 7, some "shapes.Circle".toList⟩] ⟨0, 7, none⟩ = some "shapes.Circle".toList := by
  decide

/-- The other processing order: the module processed LATER needs no qualification, writes nothing (`alias != name`
guards the assignment and nothing resets the alias) and reads the stale spelling of the earlier module. -/
theorem shared_cell_keeps_stale_spelling :
    coherent [⟨0, 7, some "p.Circle".toList⟩, ⟨1, 7, none⟩] = true ∧
    render [⟨0, 7, some "p.Circle".toList⟩, ⟨1, 7, none⟩] ⟨1, 7, none⟩ = some "p.Circle".toList := by
  decide

theorem render_eq_spelling_false : ¬ render_eq_spelling_full := by
  intro h
  have := h [⟨0, 7, none⟩, ⟨1, 7, some "shapes.Circle".toList⟩] (by decide) ⟨0, 7, none⟩ (by decide)
  revert this; decide

end SharedCells

end Dcg.Props.C12
