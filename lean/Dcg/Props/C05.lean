import Dcg.Proofs.FieldLift
import Dcg.Proofs.FieldUnionMember
import Dcg.Proofs.FieldRef
import Dcg.Proofs.FieldInherit
import Dcg.Proofs.FieldRefDefault
import Dcg.Gen.ParsePasses
import Dcg.Model.FieldReads
/-
C05 — required, nullable and default semantics of each member are carried over.

Every theorem quantifies over ALL vectors `v : Vec` of the abstract space
  kind (5) × way the schema admits null (3) × listed in `required` × default class (9) ×
  member type (3) × has constraint keyword × {strict-nullable, use-default, force-optional,
  strip-default-none, use-annotated, field-constraints} × where the `required` entry is written
  (own list / allOf sibling item / schema owning the allOf) × kind of JSON name (plain /
  needs alias / keyword / camelCase) × snake-case-field
restricted to `v.valid` (the default fits the type, dict members carry no constraint keyword,
`use_annotated` needs `field_constraints`, the allOf forms are built for listed members only). `sem v` is the authored meaning, in the target library,
of the member that the model renders for `v` through the class template table regenerated from the
Jinja sources (`Dcg.Gen.FieldTemplates`).

The pinned generator violates every clause on some vectors. For each clause the file gives:
the FULL-STRENGTH statement (`…_full`, a `Prop`), a theorem `…_refuted` that it is false with a
concrete witness, the theorem `…_partial` under a decidable hypothesis naming the defect families
(`Dcg.Model.FieldSpec`), and where stated an `…_exact` theorem: the clause fails on *precisely*
those families, so the hypothesis of the partial theorem excludes nothing more than necessary.
Only property theorems live here; the exhaustive kernel evaluations are in `Dcg/Proofs/Field*.lean`.
-/
namespace Dcg.Props.C05
open Dcg.Model.Field Dcg.Proofs.Field Dcg.Gen.FieldTemplates Dcg.Model.TypedDict

/-! ### The class templates, as regenerated on this run -/

/-- Every template's member part uses only atoms the translator understands, reaches its member
loop, and for each of the 128 valuations writes exactly one annotation and at most one `= …`. -/
theorem templates_wellformed : ∀ k : Kind, templateWellFormed k = true := by decide +kernel

/-- The functional-syntax TypedDict template writes the member annotation unconditionally, like the class-syntax one. -/
theorem typeddict_function_template_agrees : typedDictFunctionAgrees = true := by decide

/-- What the regenerated templates decide (annotation through `field.annotated`? `= field.field`?
`= represented_default`?) is, for every kind and every valuation of the atoms, the closed form
`closedDecision` that the exhaustive lemmas are evaluated with. A template edit that changes any
decision makes this theorem — and with it every theorem below — fail to check. -/
theorem template_decisions : tableDecision = closedDecision := decision_eq

/-! ### `required` is decided on the JSON name, wherever the list is written -/

/-- The parser's final `required` flag of the member: listed (in the own `required` list, in an
allOf sibling item that carries only `required`, or on the schema owning the allOf) and not
relaxed by `--force-optional` / `--use-default`. All three code paths compare the ORIGINAL name. -/
theorem required_from_original_name (v : Vec) :
    (fromSchema v).required = (v.inreq && !(v.opts.fo || (v.opts.ud && v.dflt.given))) := by
  have hl := Vec.listed_eq v
  show v.finalRequired = _
  simp only [Vec.finalRequired, hl]
  cases v.inreq <;> cases v.opts.fo <;> cases (v.opts.ud && v.dflt.given) <;> rfl

/-- The `required` flag does not depend on whether the JSON name is a plain identifier, needs an
alias (`foo-bar`), is a keyword (`class`) or is renamed by `--snake-case-field` (`fooBar`). -/
theorem required_independent_of_renaming (v : Vec) (name' : NameKind) (sc' : Bool) :
    (fromSchema { v with name := name', sc := sc' }).required = (fromSchema v).required := by
  rw [required_from_original_name, required_from_original_name]

/-- … nor on which of the three places lists the name. -/
theorem required_independent_of_where_listed (v : Vec) (via' : Via) :
    (fromSchema { v with via := via' }).required = (fromSchema v).required := by
  rw [required_from_original_name, required_from_original_name]

/-- non-vacuity: a keyword-named member listed through an allOf sibling is required, and so is its plain twin -/
example : (fromSchema ⟨.v2, .no, true, .none, .scalar, false, ⟨false, false, false, false, false, false⟩, .sibling, .keyword, false⟩).required = true ∧
    (fromSchema ⟨.v2, .no, true, .none, .scalar, false, ⟨false, false, false, false, false, false⟩, .own, .plain, false⟩).required = true := by decide

/-- The rendered consequence for every kind that can be executed: a listed member without default
and without null in its schema must be supplied whatever its name looks like and wherever it is
listed (instance of `required_nonnullable_must_supply` below, stated for the renamed vectors). -/
example : (sem ⟨.td, .no, true, .none, .scalar, false, ⟨false, false, false, false, false, false⟩, .sibling, .alias, false⟩).mustSupply = true := by decide

/-! ### Clause 1 — a member listed in `required` and without default must be supplied -/

/-- FULL STRENGTH (false on the pinned tree, see `required_nodefault_must_supply_refuted`). -/
def required_nodefault_must_supply_full : Prop :=
  ∀ v : Vec, v.valid = true → v.inreq = true → v.dflt = .none → v.opts.fo = false →
    (sem v).mustSupply = true

/-- D7, concretely: pydantic-v2 output for a required member of type `["string","null"]` with all
options off is `n: Optional[str] = None` — it need not be supplied. -/
def d7Witness : Vec := ⟨.v2, .typelist, true, .none, .scalar, false, ⟨false, false, false, false, false, false⟩, .own, .plain, false⟩

theorem d7_witness :
    d7Witness.valid = true ∧ render d7Witness = ⟨true, false, .no, .lit .none⟩ ∧
    (sem d7Witness).mustSupply = false ∧ d7 d7Witness = true := by decide

theorem required_nodefault_must_supply_refuted : ¬ required_nodefault_must_supply_full := by
  intro h
  have := h d7Witness (by decide) (by decide) (by decide) (by decide)
  revert this; decide

/-- Whenever the parser keeps the member required (listed in `required`, not relaxed by
`--force-optional` / `--use-default`), it must be supplied EXACTLY unless one of three mechanisms
applies: D7 (v2 template appends the default when `data_type.is_optional`), the same condition in
the msgspec template, or pydantic v1 reading a bare `Optional[T]` as "default None". -/
theorem effectively_required_exact (v : Vec) (hv : v.valid = true) (ho : v.omittable = false) :
    (sem v).mustSupply = false ↔ (d7 v || d7m v || v1Bare v) = true :=
  mustExact v hv ho

theorem required_nodefault_must_supply_partial (v : Vec) (hv : v.valid = true)
    (hr : v.inreq = true) (hd : v.dflt = .none) (hf : v.opts.fo = false)
    (hx : (d7 v || d7m v || v1Bare v) = false) : (sem v).mustSupply = true := by
  have ho : v.omittable = false := by simp [Vec.omittable, Vec.hasDefault, hr, hd, hf, Dflt.given]
  have h := effectively_required_exact v hv ho
  cases hm : (sem v).mustSupply
  · have := h.mp hm; rw [hx] at this; cases this
  · rfl

/-- On the part of the space the defects do not touch — schemas that do not admit null — the
clause holds at full strength, for every kind and every option vector. -/
theorem required_nonnullable_must_supply (v : Vec) (hv : v.valid = true)
    (hr : v.inreq = true) (hd : v.dflt = .none) (hf : v.opts.fo = false)
    (hn : v.admitsNull = false) : (sem v).mustSupply = true := by
  have ho : v.omittable = false := by simp [Vec.omittable, Vec.hasDefault, hr, hd, hf, Dflt.given]
  exact required_nodefault_must_supply_partial v hv hr hd hf (mustFamiliesNeedNull' v hv ho hn)

/-- non-vacuity: a required nullable member outside the excluded families (dataclass) -/
example : ∃ v : Vec, v.valid = true ∧ v.inreq = true ∧ v.dflt = .none ∧ v.opts.fo = false ∧
    v.admitsNull = true ∧ (d7 v || d7m v || v1Bare v) = false :=
  ⟨⟨.dc, .typelist, true, .none, .scalar, false, ⟨false, false, false, false, false, false⟩, .own, .plain, false⟩, by decide⟩

/-! ### Clause 2 — a non-required member may be omitted and then reads as None / absent -/

/-- FULL STRENGTH (false on the pinned tree). `omittable`: not listed in `required`, or relaxed by
`--force-optional`, or by `--use-default` when a default is given. -/
def optional_omittable_reads_default_full : Prop :=
  ∀ v : Vec, v.valid = true → v.omittable = true →
    (sem v).mustSupply = false ∧ (v.dflt.isNone = true → (sem v).omitted.noneOrAbsent = true)

/-- `--strip-default-none`, pydantic v2, optional string without default: `n: Optional[str]` — required in pydantic 2. -/
def stripWitness : Vec := ⟨.v2, .no, false, .none, .scalar, false, ⟨false, false, false, true, false, false⟩, .own, .plain, false⟩

theorem strip_witness :
    stripWitness.valid = true ∧ stripWitness.omittable = true ∧
    render stripWitness = ⟨true, false, .no, .none⟩ ∧ (sem stripWitness).mustSupply = true ∧
    stripped stripWitness = true := by decide

theorem optional_omittable_reads_default_refuted : ¬ optional_omittable_reads_default_full := by
  intro h
  have := (h stripWitness (by decide) (by decide)).1
  revert this; decide

/-- An omittable member must be supplied EXACTLY when `--strip-default-none` removed its `= None`
(pydantic v2, dataclasses, and pydantic v1 when the annotation is not `Optional`). -/
theorem optional_omittable_exact (v : Vec) (hv : v.valid = true) (ho : v.omittable = true) :
    (sem v).mustSupply = true ↔ stripped v = true :=
  omitExact v hv ho

theorem optional_omittable_reads_default_partial (v : Vec) (hv : v.valid = true)
    (ho : v.omittable = true) (hx : stripped v = false) :
    (sem v).mustSupply = false ∧ (v.dflt.isNone = true → (sem v).omitted.noneOrAbsent = true) := by
  constructor
  · cases hm : (sem v).mustSupply
    · rfl
    · have := (optional_omittable_exact v hv ho).mp hm; rw [hx] at this; cases this
  · intro hn
    exact noneReads v hv ho hn hx

example : ∃ v : Vec, v.valid = true ∧ v.omittable = true ∧ v.opts.sd = true ∧ stripped v = false :=
  ⟨⟨.ms, .no, false, .none, .scalar, false, ⟨false, false, false, true, false, false⟩, .own, .plain, false⟩, by decide⟩

/-! ### Clause 3 — when a default is given, the omitted member reads as that default -/

/-- FULL STRENGTH (false on the pinned tree): the class can be created and the omitted member's
value is of the schema default's class (the rendered literal is `repr` of the schema default; that
`eval (repr d) = d` for the literal text is C10's subject and the end-to-end oracle's). -/
def default_value_class_preserved_full : Prop :=
  ∀ v : Vec, v.valid = true → v.omittable = true → v.dflt.isNone = false →
    (sem v).loads = true ∧ (sem v).omitted = .value v.dflt

/-- TypedDict cannot carry a default: `n: NotRequired[str]`, the omitted member is absent. -/
def tdDefaultWitness : Vec := ⟨.td, .no, false, .str, .scalar, false, ⟨false, false, false, false, false, false⟩, .own, .plain, false⟩

theorem td_default_witness :
    tdDefaultWitness.valid = true ∧ render tdDefaultWitness = ⟨false, true, .no, .none⟩ ∧
    (sem tdDefaultWitness).omitted = .absent := by decide

/-- msgspec: a non-empty list default is written as a literal (`n: Optional[List[str]] = ['a']`),
which msgspec refuses when the Struct class is created. -/
def msListWitness : Vec := ⟨.ms, .no, false, .listN, .array, false, ⟨false, false, false, false, false, false⟩, .own, .plain, false⟩

theorem ms_list_witness :
    msListWitness.valid = true ∧ render msListWitness = ⟨true, false, .no, .lit .listN⟩ ∧
    (sem msListWitness).loads = false := by decide

theorem default_value_class_preserved_refuted : ¬ default_value_class_preserved_full := by
  intro h
  have := (h tdDefaultWitness (by decide) (by decide) (by decide)).2
  revert this; decide

/-- With a non-null default, an omittable member materialises the schema's default class EXACTLY
outside two families: TypedDict (no defaults at all) and msgspec non-empty list/dict literals. -/
theorem default_value_class_preserved_exact (v : Vec) (hv : v.valid = true)
    (ho : v.omittable = true) (hd : v.dflt.isNone = false) :
    ((sem v).loads = true ∧ (sem v).omitted = .value v.dflt) ↔
      (tdNoDefaults v || msMutableLiteral v) = false :=
  valueExact v hv ho hd

theorem default_value_class_preserved_partial (v : Vec) (hv : v.valid = true)
    (ho : v.omittable = true) (hd : v.dflt.isNone = false)
    (hx : (tdNoDefaults v || msMutableLiteral v) = false) :
    (sem v).loads = true ∧ (sem v).omitted = .value v.dflt :=
  (default_value_class_preserved_exact v hv ho hd).mpr hx

example : ∃ v : Vec, v.valid = true ∧ v.omittable = true ∧ v.dflt = .dictN ∧
    (tdNoDefaults v || msMutableLiteral v) = false :=
  ⟨⟨.v2, .no, true, .dictN, .object, false, ⟨false, true, false, false, false, false⟩, .own, .plain, false⟩, by decide⟩

/-! ### Clause 4 — a list/dict default is not shared between instances -/

/-- FULL STRENGTH (false on the pinned tree only through msgspec class creation). -/
def mutable_default_not_shared_full : Prop :=
  ∀ v : Vec, v.valid = true → v.omittable = true → v.dflt.isMutable = true →
    (sem v).loads = true ∧ (sem v).shared = false

theorem mutable_default_not_shared_refuted : ¬ mutable_default_not_shared_full := by
  intro h
  have := (h msListWitness (by decide) (by decide) (by decide)).1
  revert this; decide

theorem mutable_default_not_shared_partial (v : Vec) (hv : v.valid = true)
    (ho : v.omittable = true) (hd : v.dflt.isMutable = true) (hx : msMutableLiteral v = false) :
    (sem v).loads = true ∧ (sem v).shared = false := by
  have h := mutableExact v hv ho hd hd
  refine ⟨?_, h.1⟩
  cases hl : (sem v).loads
  · have hm : msMutableLiteral v = true := h.2.mp hl
    rw [hx] at hm; cases hm
  · rfl

/-- The mechanism for dataclasses: every list/dict default of an omittable member is written as
`field(default_factory=lambda :…)` (a literal would be refused by `dataclasses`). -/
theorem dataclass_mutable_default_uses_factory (v : Vec) (hv : v.valid = true)
    (ho : v.omittable = true) (hk : v.kind = .dc) (hd : v.dflt.isMutable = true) :
    (render v).asg = .factory v.dflt :=
  dcFactory v hv ho hd hk hd

example : ∃ v : Vec, v.valid = true ∧ v.omittable = true ∧ v.kind = .dc ∧ v.dflt = .listN :=
  ⟨⟨.dc, .no, false, .listN, .array, true, ⟨false, false, false, false, false, true⟩, .own, .plain, false⟩, by decide⟩

/-! ### Clause 5 — a member whose schema admits null accepts null -/

/-- FULL STRENGTH (false on the pinned tree). -/
def nullable_accepts_null_full : Prop :=
  ∀ v : Vec, v.valid = true → v.admitsNull = true → (sem v).acceptsNull = true

/-- OpenAPI `nullable: true` on a required member without `--strict-nullable`: `n: str`. -/
def flagWitness : Vec := ⟨.v2, .flag, true, .none, .scalar, false, ⟨false, false, false, false, false, false⟩, .own, .plain, false⟩

theorem flag_witness :
    flagWitness.valid = true ∧ render flagWitness = ⟨false, false, .no, .none⟩ ∧
    (sem flagWitness).acceptsNull = false ∧ nullableFlagIgnored flagWitness = true := by decide

/-- `--strict-nullable`, required member of type `["array","null"]`: `n: List[str]`. -/
def strictArrayWitness : Vec := ⟨.v2, .typelist, true, .none, .array, false, ⟨true, false, false, false, false, false⟩, .own, .plain, false⟩

theorem strict_array_witness :
    strictArrayWitness.valid = true ∧ render strictArrayWitness = ⟨false, false, .no, .none⟩ ∧
    (sem strictArrayWitness).acceptsNull = false ∧ strictOverridesTypeList strictArrayWitness = true := by decide

/-- TypedDict, non-required member of type `["array","null"]`: `n: NotRequired[List[str]]`. -/
def tdArrayWitness : Vec := ⟨.td, .typelist, false, .none, .array, false, ⟨false, false, false, false, false, false⟩, .own, .plain, false⟩

theorem td_array_witness :
    tdArrayWitness.valid = true ∧ render tdArrayWitness = ⟨false, true, .no, .none⟩ ∧
    (sem tdArrayWitness).acceptsNull = false ∧ tdNoFallback tdArrayWitness = true := by decide

/-- `--strict-nullable`, OpenAPI `nullable: true` array member listed through an allOf sibling
item: `nullable` was computed while the member was not yet required — `n: List[str]`. -/
def lateWitness : Vec := ⟨.v2, .flag, true, .none, .array, false, ⟨true, false, false, false, false, false⟩, .sibling, .plain, false⟩

theorem late_witness :
    lateWitness.valid = true ∧ render lateWitness = ⟨false, false, .no, .none⟩ ∧
    (sem lateWitness).acceptsNull = false ∧ lateStrictNullable lateWitness = true ∧
    (sem { lateWitness with via := .own }).acceptsNull = true := by decide

theorem nullable_accepts_null_refuted : ¬ nullable_accepts_null_full := by
  intro h
  have := h flagWitness (by decide) (by decide)
  revert this; decide

/-- A member whose schema admits null rejects None EXACTLY in four families (`nullable: true`
ignored without strict-nullable; strict-nullable overriding an array's type list; TypedDict
not-required members never falling back to `Optional`; a member made required only after its field object was built losing `nullable` under strict-nullable), pydantic v1's "None default ⇒ None
allowed" aside. -/
theorem nullable_accepts_null_exact (v : Vec) (hv : v.valid = true) (hn : v.admitsNull = true) :
    (sem v).acceptsNull = false ↔
      ((nullableFlagIgnored v || strictOverridesTypeList v || tdNoFallback v || lateStrictNullable v) && !v1NoneDefault v) = true :=
  nullExact v hv hn

theorem nullable_accepts_null_partial (v : Vec) (hv : v.valid = true) (hn : v.admitsNull = true)
    (hx : (nullableFlagIgnored v || strictOverridesTypeList v || tdNoFallback v || lateStrictNullable v) = false) :
    (sem v).acceptsNull = true := by
  cases ha : (sem v).acceptsNull
  · have := (nullable_accepts_null_exact v hv hn).mp ha
    rw [hx] at this; cases this
  · rfl

example : ∃ v : Vec, v.valid = true ∧ v.admitsNull = true ∧ v.opts.sn = true ∧
    (nullableFlagIgnored v || strictOverridesTypeList v || tdNoFallback v || lateStrictNullable v) = false :=
  ⟨⟨.v2, .flag, true, .none, .array, false, ⟨true, false, false, false, false, false⟩, .own, .plain, false⟩, by decide⟩

/-! ### Clause 6 — a required nullable member stays required -/

/-- FULL STRENGTH (false on the pinned tree: D7). Required here means kept required by the parser:
listed in `required` and not relaxed by `--force-optional` / `--use-default`. -/
def required_nullable_stays_required_full : Prop :=
  ∀ v : Vec, v.valid = true → v.inreq = true → v.admitsNull = true → v.omittable = false →
    (sem v).mustSupply = true

theorem required_nullable_stays_required_refuted : ¬ required_nullable_stays_required_full := by
  intro h
  have := h d7Witness (by decide) (by decide) (by decide) (by decide)
  revert this; decide

theorem required_nullable_stays_required_partial (v : Vec) (hv : v.valid = true)
    (_hr : v.inreq = true) (_hn : v.admitsNull = true) (ho : v.omittable = false)
    (hx : (d7 v || d7m v || v1Bare v) = false) : (sem v).mustSupply = true := by
  cases hm : (sem v).mustSupply
  · have := (effectively_required_exact v hv ho).mp hm; rw [hx] at this; cases this
  · rfl

/-- msgspec counterpart of D7: `n: Optional[str] = None` for the same input. -/
def d7mWitness : Vec := ⟨.ms, .typelist, true, .none, .scalar, false, ⟨false, false, false, false, false, false⟩, .own, .plain, false⟩

theorem d7m_witness :
    d7mWitness.valid = true ∧ render d7mWitness = ⟨true, false, .no, .lit .none⟩ ∧
    (sem d7mWitness).mustSupply = false ∧ d7m d7mWitness = true := by decide

/-- pydantic v1 for the same input: `n: Optional[str]`, which pydantic 1 does not require. -/
def v1BareWitness : Vec := ⟨.v1, .typelist, true, .none, .scalar, false, ⟨false, false, false, false, false, false⟩, .own, .plain, false⟩

theorem v1_bare_witness :
    v1BareWitness.valid = true ∧ render v1BareWitness = ⟨true, false, .no, .none⟩ ∧
    (sem v1BareWitness).mustSupply = false ∧ v1Bare v1BareWitness = true := by decide

/-- the one combination in which the generator does mark a nullable member as required for
pydantic: OpenAPI `nullable: true` under `--strict-nullable` gives `n: Optional[str] = Field(...)` -/
example : render ⟨.v1, .flag, true, .none, .scalar, false, ⟨true, false, false, false, false, false⟩, .own, .plain, false⟩ =
    ⟨true, false, .no, .fieldReq⟩ := by decide

/-! ### Member order — the class must exist before any clause can hold

`DataClass.__init__` / `Struct.__init__` sort the members stably by `_has_field_assignment`
(`False` first); Python's dataclasses and msgspec refuse a member without default after one with. -/

/-- dataclasses: the sort key says "has a default" exactly when the template writes a default, for
every vector — so after sorting no member without default follows one with a default. -/
theorem dataclass_sort_key_matches_rendering (v : Vec) (hv : v.valid = true) (hk : v.kind = .dc) :
    sortKey v.kind (fromSchema v) = some (render v).asg.default?.isSome := by
  have h := sortKeyExact v hv
  have hm : msKeyMismatchR v.reduce = false := by
    have hk' : v.reduce.kind = .dc := hk
    simp [msKeyMismatchR, hk']
  cases hs : sortKey v.kind (fromSchema v) with
  | none => rw [hk] at hs; simp [sortKey] at hs
  | some b => rw [(h b hs).mpr hm]; rfl

/-- msgspec: the sort key agrees with what the template writes EXACTLY outside `msKeyMismatch`
(the defaults appended for a required nullable member, and `None` defaults the key believes
stripped): there a member rendered with ` = None` is sorted among the members without default,
and msgspec refuses the Struct when a required member follows it. -/
theorem msgspec_sort_key_exact (v : Vec) (hv : v.valid = true) (hk : v.kind = .ms) :
    sortKey v.kind (fromSchema v) = some (render v).asg.default?.isSome ↔ msKeyMismatch v = false := by
  have h := sortKeyExact v hv
  cases hs : sortKey v.kind (fromSchema v) with
  | none => rw [hk] at hs; simp [sortKey] at hs
  | some b =>
    constructor
    · intro he
      have hb : b = (render v).asg.default?.isSome := Option.some.inj he
      exact (h b hs).mp hb
    · intro hm
      rw [(h b hs).mpr hm]; rfl

theorem msgspec_sort_key_witness :
    sortKey d7mWitness.kind (fromSchema d7mWitness) = some false ∧
    (render d7mWitness).asg = .lit .none ∧ msKeyMismatch d7mWitness = true := by decide

/-! ### The spelling options

`--use-union-operator`, `--use-standard-collections` and `--use-generic-container-types` are not
part of `Vec`: the end-to-end campaign draws them at random and compares with the model that does
not know them. One of them is not only spelling (`semG`). -/

/-- `--use-generic-container-types` takes the class away exactly for a constrained array member of
pydantic-1 output (pydantic 1 refuses `Sequence[…]` with `max_items`); otherwise — and always when
the option is off — the semantics are those every theorem above speaks about. -/
theorem generic_container_exact (v : Vec) (ug : Bool) :
    semG v false = sem v ∧
    (v1SequenceConstraint v ug = false → semG v ug = sem v) ∧
    (v1SequenceConstraint v ug = true → (semG v ug).loads = false) := by
  refine ⟨by simp [semG, v1SequenceConstraint], ?_, ?_⟩ <;> intro h <;> simp [semG, h]

/-- the family is real: `{"type": "array", "maxItems": 9}` → `n: Optional[Sequence[str]] = Field(None, max_items=9)` -/
theorem generic_container_witness :
    let v : Vec := ⟨.v1, .no, false, .none, .array, true, ⟨false, false, false, false, false, false⟩, .own, .plain, false⟩
    v.valid = true ∧ (sem v).loads = true ∧ (semG v true).loads = false := by decide

/-! ### Union-typed members (`anyOf` / `oneOf`): null admitted through an alternative

`DataType.type_hint` collects the hints of the alternatives, skips repeated ones, strips `None`
from each and records in `is_optional` that it did. The theorems below are about lists of
alternatives of ANY length (induction, not enumeration). Model: `Dcg.Model.FieldUnion`. -/

/-- De-duplication and `None`-stripping preserve null admission, `X | Y | None` spelling: if the
type was optional or the hint of SOME alternative admits `None` — also one that repeats an earlier
alternative up to `None`, also one skipped as already collected — the hint written for the union
admits `None`. -/
theorem union_dedup_preserves_null_operator (kids : List PHint) (o : Bool)
    (h : o = true ∨ ∃ k ∈ kids, PHint.admitsNone k = true) : (nodeP kids o).1.admitsNone = true :=
  nodeP_preserves_null kids o h

/-- … and in the `Union[…]` / `Optional[…]` spelling. -/
theorem union_dedup_preserves_null_bracket (kids : List BHint) (o : Bool)
    (h : o = true ∨ ∃ k ∈ kids, BHint.admitsNone k = true) : (nodeB kids o).1.admitsNone = true :=
  nodeB_preserves_null kids o h

/-- non-vacuity, the shape of the regression this guards against: `str` followed by `str | None` -/
example : nodeP [[.atom .a], [.atom .a, .none]] false = ([.atom .a, .atom .a, .none], true) ∧
    nodeB [.atom .a, .opt (.atom .a)] false = (.union [.atom .a, .opt (.atom .a)], false) := by decide

/-- For a member whose alternatives are given by the schema: an alternative of type `null` or with
a type list containing "null" (OpenAPI `nullable: true` counts under strict-nullable) makes the
written annotation admit `None`, in both spellings. -/
theorem union_alternative_null_reaches_annotation (uo sn : Bool) (alts : List Alt)
    (h : alts.any (Alt.effNull sn) = true) : (unionOutcome uo sn alts).1 = true :=
  unionOutcome_text uo sn alts h

/-- `data_type.is_optional` (read by the class templates, D7) is only ever set on a type whose
written hint admits `None`. -/
theorem union_flag_implies_annotation_null (uo sn : Bool) (alts : List Alt)
    (h : (unionOutcome uo sn alts).2 = true) : (unionOutcome uo sn alts).1 = true :=
  unionOutcome_flag_text uo sn alts h

/-- Nothing is invented: alternatives that are all plain type names give an annotation that does
not admit `None` and leave `is_optional` unset — however many they are, whichever repeat. -/
theorem union_of_plain_alternatives_stays_plain (uo sn : Bool) (alts : List Alt)
    (h : alts.all Alt.isPlain = true) : unionOutcome uo sn alts = (false, false) :=
  unionOutcome_plain uo sn alts h

/-- Reduction of a union-typed member to the scalar space: the member is rendered as the scalar
member `asVec` (null source "type list" iff `is_optional` got set), except that its annotation also
admits `None` when the written union does. All theorems above about `render`/`sem` of valid scalar
vectors therefore speak about union-typed members through `asVec`. -/
theorem union_member_reduces_to_scalar (u : UVec) :
    renderU u = { render u.asVec with opt := (render u.asVec).opt || u.textNull } :=
  renderU_eq u

/-- CLAUSE 5 for union-typed members, FULL STRENGTH but for one family: a member with an
alternative that admits null accepts null — every kind, every option vector, both spellings, any
number of alternatives — unless the only null-admitting alternatives are OpenAPI `nullable: true`
ones and strict-nullable is off (`nullable` is not read then; same family as `nullableFlagIgnored`). -/
theorem union_member_accepts_null (u : UVec) (hn : u.admitsNull = true) (hx : u.flagIgnored = false) :
    (semU u).acceptsNull = true := by
  apply semOf_acceptsNull_of_opt
  rw [union_member_reduces_to_scalar]
  have ht : u.textNull = true := by
    apply unionOutcome_text
    obtain ⟨a, ha, hn⟩ := List.any_eq_true.mp hn
    cases hsn : u.base.opts.sn
    · simp only [UVec.flagIgnored, hsn, Bool.not_false, Bool.true_and] at hx
      have : ¬ (∀ a ∈ u.alts, a.nullOnlyByFlag = true) := by
        intro hall; rw [List.all_eq_true.mpr hall] at hx; cases hx
      apply Classical.byContradiction
      intro hno
      apply this
      intro b hb
      cases b with
      | flag x => rfl
      | plain x => rfl
      | nullable x => exact absurd (List.any_eq_true.mpr ⟨_, hb, rfl⟩) hno
      | null => exact absurd (List.any_eq_true.mpr ⟨_, hb, rfl⟩) hno
    · apply List.any_eq_true.mpr
      refine ⟨a, ha, ?_⟩
      cases a <;> simp_all [Alt.effNull, Alt.typeListNull, Alt.admitsNull]
  simp [ht]

/-- the excluded family is real: OpenAPI `anyOf: [{type: string}, {type: string, nullable: true}]`
without strict-nullable is written `n: str` -/
theorem union_flag_ignored_witness :
    let u : UVec := ⟨⟨.v2, .no, true, .none, .scalar, false, ⟨false, false, false, false, false, false⟩, .own, .plain, false⟩,
      [.plain .a, .flag .a], false⟩
    u.valid = true ∧ u.admitsNull = true ∧ u.flagIgnored = true ∧ (semU u).acceptsNull = false := by decide

/-- EXACT: a union-typed member rejects null precisely when its written union does not admit
`None` and the scalar member it reduces to rejects null as well. -/
theorem union_member_null_exact (u : UVec) :
    (semU u).acceptsNull = false ↔ (u.textNull = false ∧ (sem u.asVec).acceptsNull = false) := by
  cases ht : u.textNull
  · have : renderU u = render u.asVec := by rw [union_member_reduces_to_scalar, ht]; simp
    simp [semU, sem, semD, render, this, UVec.asVec, Vec.reduce]
  · have : (semU u).acceptsNull = true := by
      apply semOf_acceptsNull_of_opt; rw [union_member_reduces_to_scalar, ht]; simp
    simp [this]

/-- CLAUSES 1/6 for union-typed members, EXACT: a member the parser keeps required need not be
supplied precisely in the three scalar families evaluated on `asVec` (D7: `= None` appended because
`is_optional` got set; the same in the msgspec template; pydantic-1 bare `Optional`) and in their
union-specific sibling `v1BareText` (pydantic 1 reading the `None` inside the written union). -/
theorem union_member_required_exact (u : UVec) (hv : u.valid = true) (ho : u.asVec.omittable = false) :
    (semU u).mustSupply = false ↔
      (d7 u.asVec || d7m u.asVec || v1Bare u.asVec || v1BareText u) = true := by
  have hva : u.asVec.valid = true := by
    simp only [UVec.valid, Bool.and_eq_true] at hv; exact hv.1
  have hk : u.asVec.kind = u.base.kind := rfl
  have h1 := effectively_required_exact u.asVec hva ho
  have h2 := semOf_mustSupply_opt u.base.kind (render u.asVec) u.textNull
  have hs : sem u.asVec = semOf u.base.kind (render u.asVec) := rfl
  rw [semU, union_member_reduces_to_scalar, h2, ← hs, h1]
  simp only [v1BareText, Bool.or_eq_true, Bool.and_eq_true, beq_iff_eq, Bool.not_eq_true', bne_iff_ne, ne_eq]
  constructor
  · rintro (h | ⟨a, b, c, d, e⟩)
    · exact Or.inl h
    · exact Or.inr ⟨⟨⟨⟨a, b⟩, c⟩, d⟩, e⟩
  · rintro (h | ⟨⟨⟨⟨a, b⟩, c⟩, d⟩, e⟩)
    · exact Or.inl h
    · exact Or.inr ⟨a, b, c, d, e⟩

/-- With no alternative admitting null (all plain) a required union-typed member without default
must be supplied — full strength, every kind, every option vector. -/
theorem union_required_plain_must_supply (u : UVec) (hv : u.valid = true)
    (hr : u.base.inreq = true) (hd : u.base.dflt = .none) (hf : u.base.opts.fo = false)
    (hp : u.alts.all Alt.isPlain = true) : (semU u).mustSupply = true := by
  have hva : u.asVec.valid = true := by
    simp only [UVec.valid, Bool.and_eq_true] at hv; exact hv.1
  have ho := unionOutcome_plain u.unionOp u.base.opts.sn u.alts hp
  have ht : u.textNull = false := by simp [UVec.textNull, ho]
  have hfl : u.flag = false := by simp [UVec.flag, ho]
  have hm := required_nonnullable_must_supply u.asVec hva hr hd hf (by simp [Vec.admitsNull, UVec.asVec, hfl, NullSrc.admitsNull])
  have : renderU u = render u.asVec := by rw [union_member_reduces_to_scalar, ht]; simp
  rw [semU, this]; exact hm

/-- For every kind but pydantic 1, must-supply / value-when-omitted / class creation / sharing of a
union-typed member are those of `asVec`, so clauses 2–4 hold for it exactly as proved above. -/
theorem union_member_other_clauses (u : UVec) (hk : u.base.kind ≠ .v1) :
    (semU u).mustSupply = (sem u.asVec).mustSupply ∧ (semU u).omitted = (sem u.asVec).omitted ∧
    (semU u).loads = (sem u.asVec).loads ∧ (semU u).shared = (sem u.asVec).shared := by
  rw [semU, union_member_reduces_to_scalar]
  exact semOf_rest_opt u.base.kind (render u.asVec) u.textNull hk

/-- non-vacuity and the two spellings side by side: a required `anyOf: [{type: string},
{type: [string, null]}]` member is `n: str | str | None = None` under the union operator
(`is_optional` set ⇒ D7) and `n: Union[str, Optional[str]]` without it; both accept null. -/
theorem union_member_witness :
    let b : Vec := ⟨.v2, .no, true, .none, .scalar, false, ⟨false, false, false, false, false, false⟩, .own, .plain, false⟩
    let uo : UVec := ⟨b, [.plain .a, .nullable .a], true⟩
    let ub : UVec := ⟨b, [.plain .a, .nullable .a], false⟩
    uo.valid = true ∧ uo.flag = true ∧ renderU uo = ⟨true, false, .no, .lit .none⟩ ∧ (semU uo).acceptsNull = true ∧
    d7 uo.asVec = true ∧
    ub.valid = true ∧ ub.flag = false ∧ renderU ub = ⟨true, false, .no, .none⟩ ∧ (semU ub).acceptsNull = true ∧
    (semU ub).mustSupply = true := by decide

/-! ### `$ref`-typed members: a reference to a definition that admits null

`DataType.type_hint` marks a type optional when the model its reference points to is nullable
(`type: ["object", "null"]`). The test is evaluated when the modules are rendered — after every
definition of every document has been parsed — so it must not matter where the definition stands
relative to the schema that refers to it. Model: `Dcg.Model.FieldRef`. -/

/-- The rule reads the DEFINITION, wherever it stands among the parse events: when `r` is defined
(once) as nullable / not nullable, every `DataType` that refers to `r` ends up with `is_optional`
equal to that — whether it was built before or after the definition was parsed, in the same
document or in another one, and whatever else was parsed in between. -/
theorem ref_rule_reads_the_definition (evs : List Ev) (r : Nat) (n : Bool)
    (hm : Ev.define r n ∈ evs) (hn : (definedRefs evs).Nodup) : lazyOptional evs r = n :=
  lazyOptional_of_mem hm hn

/-- ORDER INDEPENDENCE, any number of definitions and members: reordering the parse events in any
way (definitions before or after their users, files loaded in another order) changes `is_optional`
of no reference. -/
theorem ref_rule_independent_of_definition_order (a b : List Ev) (h : a.Perm b)
    (hn : (definedRefs a).Nodup) (r : Nat) : lazyOptional a r = lazyOptional b r :=
  lazyOptional_perm h hn r

/-- non-vacuity: two definitions (one nullable), three members, two orders -/
example : lazyFlags [.use 0, .define 1 false, .use 1, .define 0 true, .use 0] = [true, false, true] ∧
    lazyFlags [.define 0 true, .define 1 false, .use 0, .use 1, .use 0] = [true, false, true] := by decide

/-- What the guarded regression looks like: the same test evaluated when the `DataType` is
CONSTRUCTED sees `source = None` for a definition parsed later — the forward reference loses its
null while the backward one keeps it (so reordering the definitions hides the fault). -/
theorem ref_rule_at_construction_loses_forward_references :
    eagerFlags [.use 0, .define 0 true] = [false] ∧ lazyFlags [.use 0, .define 0 true] = [true] ∧
    eagerFlags [.define 0 true, .use 0] = [true] ∧ lazyFlags [.define 0 true, .use 0] = [true] := by decide

/-- The member: its field record, its rendered shape and what it means in the target library do not
depend on whether the reference is a forward or a backward one. -/
theorem ref_member_independent_of_definition_order (r : RefVec) (f : Bool) :
    fromRef { r with forward := f } = fromRef r ∧ renderR { r with forward := f } = renderR r ∧
    semR { r with forward := f } = semR r := by
  have hfl : ({ r with forward := f } : RefVec).flag = r.flag := by rw [RefVec.flag_eq, RefVec.flag_eq]
  have h1 : fromRef { r with forward := f } = fromRef r := by
    unfold fromRef RefVec.asVec
    rw [hfl]
  refine ⟨h1, ?_, ?_⟩
  · simp only [renderR, renderRD, h1]
  · simp only [semR, renderR, renderRD, h1]

/-- Reduction to the scalar space: a `$ref`-typed member renders as the scalar member `asVec`, whose
null source is "type list" exactly when the definition is `type: [..., "null"]` — in either order.
Every theorem above about `render` / `sem` of valid scalar vectors speaks about `$ref`-typed members
through `asVec`. -/
theorem ref_member_reduces_to_scalar (r : RefVec) :
    renderR r = render r.asVec ∧ semR r = sem r.asVec ∧
    r.asVec.nullsrc = (if definitionNullable r.target then .typelist else .no) := by
  refine ⟨renderR_eq r, semR_eq r, ?_⟩
  simp only [RefVec.asVec, RefVec.flag_eq]

/-- FULL STRENGTH of clause 5 for `$ref`-typed members (false on the pinned tree, see
`ref_keyword_on_definition_witness`) -/
def ref_member_accepts_null_full : Prop :=
  ∀ r : RefVec, r.valid = true → r.admitsNull = true → (semR r).acceptsNull = true

/-- CLAUSE 5 for `$ref`-typed members: a member that refers to a definition whose type list contains
"null" accepts null — every kind, every option vector, required or not, wherever the `required`
entry is written, FORWARD OR BACKWARD reference. -/
theorem ref_member_accepts_null (r : RefVec) (ht : r.target = .typelist) : (semR r).acceptsNull = true := by
  apply semOf_acceptsNull_of_opt
  apply renderFieldD_opt_of_dio
  show r.flag = true
  rw [RefVec.flag_eq, ht]; rfl

/-- the excluded family is real: the definition admits null through the OpenAPI keyword
(`nullable: true` next to `type: object`); the keyword is not read for a model, so a required member
referring to it is written `n: T` — also under strict-nullable -/
theorem ref_keyword_on_definition_witness :
    let r : RefVec := ⟨⟨.v2, .no, true, .none, .scalar, false, ⟨true, false, false, false, false, false⟩, .own, .plain, false⟩, .flag, true⟩
    r.valid = true ∧ r.admitsNull = true ∧ r.keywordOnDefinition = true ∧
    renderR r = ⟨false, false, .no, .none⟩ ∧ (semR r).acceptsNull = false := by decide

theorem ref_member_accepts_null_refuted : ¬ ref_member_accepts_null_full := by
  intro h
  have := h ⟨⟨.v2, .no, true, .none, .scalar, false, ⟨true, false, false, false, false, false⟩, .own, .plain, false⟩, .flag, true⟩
    (by decide) (by decide)
  revert this; decide

/-- CLAUSES 1/6 for `$ref`-typed members, EXACT: a member the parser keeps required need not be
supplied precisely in the three scalar families evaluated on `asVec` (D7: the v2 template appends
`= None` because `is_optional` got set; the same in the msgspec template; pydantic-1 bare `Optional`). -/
theorem ref_member_required_exact (r : RefVec) (hv : r.valid = true) (ho : r.asVec.omittable = false) :
    (semR r).mustSupply = false ↔ (d7 r.asVec || d7m r.asVec || v1Bare r.asVec) = true := by
  have hva : r.asVec.valid = true := by
    simp only [RefVec.valid, Bool.and_eq_true] at hv; exact hv.1
  rw [semR_eq]
  exact effectively_required_exact r.asVec hva ho

/-- A required `$ref`-typed member whose definition is not nullable must be supplied — full strength. -/
theorem ref_member_plain_definition_must_supply (r : RefVec) (hv : r.valid = true)
    (hr : r.base.inreq = true) (hd : r.base.dflt = .none) (hf : r.base.opts.fo = false)
    (ht : definitionNullable r.target = false) : (semR r).mustSupply = true := by
  have hva : r.asVec.valid = true := by
    simp only [RefVec.valid, Bool.and_eq_true] at hv; exact hv.1
  rw [semR_eq]
  refine required_nonnullable_must_supply r.asVec hva hr hd hf ?_
  simp [Vec.admitsNull, RefVec.asVec, RefVec.flag_eq, ht, NullSrc.admitsNull]

/-- non-vacuity and the defect families met through a reference: a required member referring to a
nullable definition, forward reference, is `n: Optional[T]` for dataclasses (must be supplied, accepts
null) and `n: Optional[T] = None` in pydantic-2 output (D7) -/
theorem ref_member_witness :
    let o : Opts := ⟨false, false, false, false, false, false⟩
    let dc : RefVec := ⟨⟨.dc, .no, true, .none, .scalar, false, o, .own, .plain, false⟩, .typelist, true⟩
    let v2 : RefVec := ⟨⟨.v2, .no, true, .none, .scalar, false, o, .own, .plain, false⟩, .typelist, true⟩
    dc.valid = true ∧ renderR dc = ⟨true, false, .no, .none⟩ ∧ (semR dc).mustSupply = true ∧ (semR dc).acceptsNull = true ∧
    v2.valid = true ∧ renderR v2 = ⟨true, false, .no, .lit .none⟩ ∧ d7 v2.asVec = true := by decide

/-! ### Inherited members: a `required` entry of a subclass schema for a member it inherits

`S = allOf: [{$ref: B}, …]` lists a member of `B` as required without declaring it again. The member
must then be required in `S` (clause 1), whatever the model kind and — for TypedDict — whichever syntax
the classes are written in. Model: `Dcg.Model.FieldInherit`, `Dcg.Model.TypedDict`. -/

/-- Reduction: for an inherited optional member listed by the schema that OWNS the allOf, the field the
subclass gets (`__override_required_field`: a copy of the base's field with `required = True`) is the
field record — hence the rendered member — of the same member declared by the subclass itself in the
owner form, as long as `--force-optional` / `--use-default` do not apply. Every theorem above about
`render` / `sem` of scalar vectors therefore speaks about required-only overrides. -/
theorem inherited_override_as_declared_by_owner (i : IVec) (ho : i.relist = .owner)
    (hr : i.base.inreq = false) (hv : i.base.via = .own) (hf : i.base.opts.fo = false)
    (hu : (i.base.opts.ud && i.base.dflt.given) = false) :
    fromInherit i = fromSchema { i.base with inreq := true, via := .owner } ∧
    renderI i = render { i.base with inreq := true, via := .owner } := by
  have h := asOverride_eq_owner i.base hr hv hf hu
  have hov : i.overridden = true := by simp [IVec.overridden, ho]
  refine ⟨by simp only [fromInherit, hov, if_true, h], ?_⟩
  simp only [renderI, IVec.overrideShape, overrideShapeD, hov, if_true, Option.getD_some, h]
  rfl

/-- FULL STRENGTH of clause 1 for inherited members (false on the pinned tree): listed by the subclass
schema in any of the three places, no default, not relaxed ⇒ must be supplied. -/
def inherited_relisted_must_supply_full : Prop :=
  ∀ i : IVec, i.valid = true → i.relist ≠ .no → i.base.dflt = .none → i.base.opts.fo = false →
    (semI i).mustSupply = true

/-- a `required` entry written in an allOf ITEM (`allOf: [{$ref: B}, {required: [n]}]`) is never applied
to an inherited member: the subclass has no field of its own and the member stays `n: Optional[str] = None` -/
theorem relisted_in_allof_item_witness :
    let i : IVec := ⟨⟨.v2, .no, false, .none, .scalar, false, ⟨false, false, false, false, false, false⟩, .own, .plain, false⟩, .sibling⟩
    i.valid = true ∧ i.listed = true ∧ i.relistDropped = true ∧ i.overrideShape = none ∧
    renderI i = ⟨true, false, .no, .lit .none⟩ ∧ (semI i).mustSupply = false := by decide

/-- dataclasses: `class S(B): n: str` on top of `class B: n: Optional[str] = None` — the parser's field
is required and nothing is assigned, but `dataclasses` picks the class attribute `B.n = None` up as
the default of the re-annotated field -/
theorem dataclass_override_keeps_default_witness :
    let i : IVec := ⟨⟨.dc, .no, false, .none, .scalar, false, ⟨false, false, false, false, false, false⟩, .own, .plain, false⟩, .owner⟩
    i.valid = true ∧ (fromInherit i).required = true ∧ renderI i = ⟨false, false, .no, .none⟩ ∧
    i.dcKeepsDefault = true ∧ (semI i).mustSupply = false := by decide

theorem inherited_relisted_must_supply_refuted : ¬ inherited_relisted_must_supply_full := by
  intro h
  have := h ⟨⟨.v2, .no, false, .none, .scalar, false, ⟨false, false, false, false, false, false⟩, .own, .plain, false⟩, .sibling⟩
    (by decide) (by decide) (by decide) (by decide)
  revert this; decide

/-- CLAUSES 1/6 for a required-only override in the OWNER form, EXACT: an inherited optional member the
owner of the allOf lists as required (and that no option relaxes) need not be supplied in the subclass
precisely (a) for dataclasses when the base's default is a literal (`dcKeepsDefault`), and (b) in the
three scalar families evaluated on the member as the subclass would declare it (D7, its msgspec
sibling, pydantic-1 bare `Optional` — all need a schema that admits null). -/
theorem inherited_override_required_exact (i : IVec) (hv : i.valid = true) (ho : i.relist = .owner)
    (hr : i.base.inreq = false) (hf : i.base.opts.fo = false)
    (hu : (i.base.opts.ud && i.base.dflt.given) = false) :
    let b' : Vec := { i.base with inreq := true, via := .owner }
    (semI i).mustSupply = false ↔ (i.dcKeepsDefault || d7 b' || d7m b' || v1Bare b') = true := by
  intro b'
  have hvia : i.base.via = .own := by
    simp only [IVec.valid, Bool.and_eq_true, beq_iff_eq] at hv; exact hv.2
  have hbv : i.base.valid = true := by
    simp only [IVec.valid, Bool.and_eq_true] at hv; exact hv.1
  have hov : i.overridden = true := by simp [IVec.overridden, ho]
  have hred := asOverride_eq_owner i.base hr hvia hf hu
  have hshape : i.overrideShape = some (render b') := by
    simp only [IVec.overrideShape, overrideShapeD, hov, if_true, hred]; rfl
  have hvb' : b'.valid = true := by
    simp only [Vec.valid, Bool.and_eq_true] at hbv ⊢
    refine ⟨hbv.1, ?_⟩; simp [b']
  have hom : b'.omittable = false := by
    simp only [Vec.omittable, Vec.hasDefault, b', hf, hu]; rfl
  have hex := effectively_required_exact b' hvb' hom
  cases hk : i.dcKeepsDefault
  · -- not the dataclass family: the subclass's declaration alone decides
    have hsem : semI i = sem b' := by
      simp only [semI, inheritSem, hshape]
      split
      · rename_i hc
        split
        · rename_i d hd
          exfalso
          simp only [Bool.and_eq_true, beq_iff_eq] at hc
          simp [IVec.dcKeepsDefault, hc.1, hov, hshape, hc.2, hd] at hk
        · rfl
      · rfl
    rw [hsem, hex]; simp
  · -- dataclass keeping the literal default of the base
    simp only [IVec.dcKeepsDefault, Bool.and_eq_true, beq_iff_eq, hshape] at hk
    obtain ⟨⟨⟨hkd, _⟩, hs⟩, hb⟩ := hk
    have : (semI i).mustSupply = false := by
      simp only [semI, inheritSem, hshape, hkd]
      cases hba : i.baseShape.asg <;> simp [hba] at hb
      simp [hs, semOf, Asg.default?]
    simp [this]

/-- … so a required-only override of a member whose schema does not admit null must be supplied in the
subclass — every kind but the dataclass family, every option vector, every kind of name. -/
theorem inherited_override_must_supply (i : IVec) (hv : i.valid = true) (ho : i.relist = .owner)
    (hr : i.base.inreq = false) (hd : i.base.dflt = .none) (hf : i.base.opts.fo = false)
    (hn : i.base.nullsrc.admitsNull = false) (hx : i.dcKeepsDefault = false) : (semI i).mustSupply = true := by
  have hu : (i.base.opts.ud && i.base.dflt.given) = false := by simp [hd, Dflt.given]
  have hex := inherited_override_required_exact i hv ho hr hf hu
  have hbv : i.base.valid = true := by
    simp only [IVec.valid, Bool.and_eq_true] at hv; exact hv.1
  have hvb' : ({ i.base with inreq := true, via := .owner } : Vec).valid = true := by
    simp only [Vec.valid, Bool.and_eq_true] at hbv ⊢
    refine ⟨hbv.1, ?_⟩; simp
  have hom : ({ i.base with inreq := true, via := .owner } : Vec).omittable = false := by
    simp [Vec.omittable, Vec.hasDefault, hf, hd, Dflt.given]
  have hfam := mustFamiliesNeedNull' _ hvb' hom hn
  cases hm : (semI i).mustSupply
  · have := hex.mp hm
    simp only [d7, d7m, v1Bare] at this
    simp only [MustFamiliesNeedNull] at hfam
    simp [hx] at this
    simp [Bool.or_eq_false_iff] at hfam
    rcases this with (h | h) | h <;> simp_all
  · rfl

/-- CLAUSE 5 for a required-only override: whether the subclass accepts null for the member is what the
scalar theorems say about the member declared by the subclass in the owner form (the dataclass family
`dcKeepsDefault` changes the default, not the annotation) — in particular `nullable_accepts_null_exact`
names the families on which null is rejected (among them `lateStrictNullable`: `nullable` is not
recomputed for the copy). -/
theorem inherited_override_null_as_declared_by_owner (i : IVec) (hv : i.valid = true) (ho : i.relist = .owner)
    (hr : i.base.inreq = false) (hf : i.base.opts.fo = false)
    (hu : (i.base.opts.ud && i.base.dflt.given) = false) :
    (semI i).acceptsNull = (sem { i.base with inreq := true, via := .owner }).acceptsNull := by
  have hvia : i.base.via = .own := by
    simp only [IVec.valid, Bool.and_eq_true, beq_iff_eq] at hv; exact hv.2
  have hov : i.overridden = true := by simp [IVec.overridden, ho]
  have hred := asOverride_eq_owner i.base hr hvia hf hu
  have hshape : i.overrideShape = some (render { i.base with inreq := true, via := .owner }) := by
    simp only [IVec.overrideShape, overrideShapeD, hov, if_true, hred]; rfl
  simp only [semI, hshape, inheritSem_acceptsNull]
  rfl

/-- the override does not look at `--force-optional` / `--use-default`: a member those options make
omittable for the schema is required in the subclass all the same -/
theorem override_ignores_relaxation_witness :
    let i : IVec := ⟨⟨.v2, .no, false, .none, .scalar, false, ⟨false, false, true, false, false, false⟩, .own, .plain, false⟩, .owner⟩
    i.valid = true ∧ i.omittable = true ∧ i.overrideIgnoresRelaxation = true ∧
    renderI i = ⟨false, false, .no, .none⟩ ∧ (semI i).mustSupply = true := by decide

/-! #### TypedDict: the key of a required-only override is required, in both syntaxes -/

theorem tdTag_required (h : Nat) (r : Bool) : tdTagRequired (tdTag h r) = r := by
  cases r <;> simp [tdTagRequired, tdTag] <;> omega

/-- On top of `Model/TypedDict` (C07's `typedDict_key_type_last_declaration`): whatever the base classes
declare — any number, any depth, each in the syntax its own members call for — a key the class declares
(once) carries THE CLASS'S OWN declaration in the class object Python builds, in class syntax
(`class S(B): name: str`) and in functional syntax (one dict display over `all_fields`, the inherited
entries first: the last entry of a repeated key wins). -/
theorem typedDict_own_declaration_of_key_wins (bases : List TdClass) (fields : List TdField) (o : TdField)
    (ho : o ∈ fields) (hn : (fields.map TdField.key).Nodup) :
    dictGet o.key (TdClass.cls bases fields).rendered = some o.tag :=
  rendered_get_of_mem bases fields o ho hn

/-- CLAUSE 1 for TypedDict: the copy `__override_required_field` puts into the subclass's members is a
REQUIRED declaration of the inherited key; the class Python builds therefore has the key required —
also when a key that is no identifier (anywhere among the own members) forces the functional syntax. -/
theorem typedDict_required_override_is_required (bases : List TdClass) (fields : List TdField)
    (name orig : Option (List Char)) (h : Nat)
    (ho : (⟨name, orig, tdTag h true⟩ : TdField) ∈ fields) (hn : (fields.map TdField.key).Nodup) :
    (dictGet (TdField.key ⟨name, orig, tdTag h true⟩) (TdClass.cls bases fields).rendered).map tdTagRequired = some true := by
  rw [typedDict_own_declaration_of_key_wins bases fields _ ho hn]
  simp [tdTag_required]

/-- non-vacuity, the shape that matters: the base declares `id` (required), `name` and `display-name` (not
required; the second key forces functional syntax); the subclass adds `note` and re-declares `name` and
`display-name` as required. Python's class has five keys, the re-declared ones required. -/
example :
    let base := TdClass.cls [] [⟨some "id".toList, some "id".toList, tdTag 0 true⟩,
      ⟨some "name".toList, some "name".toList, tdTag 1 false⟩,
      ⟨some "display_name".toList, some "display-name".toList, tdTag 2 false⟩]
    let sub := TdClass.cls [base] [⟨some "note".toList, some "note".toList, tdTag 3 false⟩,
      ⟨some "name".toList, some "name".toList, tdTag 1 true⟩,
      ⟨some "display_name".toList, some "display-name".toList, tdTag 2 true⟩]
    tdFunctional [⟨some "display_name".toList, some "display-name".toList, tdTag 2 true⟩] = true ∧
    sub.rendered.map (fun e => (e.1, tdTagRequired e.2)) =
      [("id".toList, true), ("name".toList, true), ("display-name".toList, true), ("note".toList, false)] := by
  decide +kernel

/-- What the guarded regression looks like: writing every key of the functional syntax only once is
harmless when the LAST declaration is kept (that is what Python does with a repeated key anyway) and
loses the required-only override when the FIRST one — the base's — is kept. -/
theorem typedDict_keeping_first_declaration_loses_override :
    let all : List TdField := [⟨some "name".toList, some "name".toList, tdTag 1 false⟩,
      ⟨some "display_name".toList, some "display-name".toList, tdTag 2 false⟩,
      ⟨some "name".toList, some "name".toList, tdTag 1 true⟩]
    (dictGet "name".toList (dictOf (all.map TdField.entry))).map tdTagRequired = some true ∧
    (dictGet "name".toList (dictOf ((keepFirstGo [] all).map TdField.entry))).map tdTagRequired = some false := by
  decide +kernel

/-! #### dataclasses / msgspec: the subclass must be creatable -/

/-- a base member with a default followed by a subclass member without one: Python refuses the class
(dataclasses: `non-default argument follows default argument`; msgspec likewise) — no other kind has
such a rule -/
theorem inherited_default_before_required_witness :
    classOrderOk .dc [(0, .attr)] [(1, .none)] = false ∧ classOrderOk .ms [(0, .attr)] [(1, .none)] = false ∧
    classOrderOk .dc [(0, .none)] [(1, .none), (2, .attr)] = true := by decide

/-- re-declaring keeps the position; a dataclass re-annotation without `= …` keeps the literal default
of the base (so the order stays legal and the member stays optional), msgspec does not -/
theorem reannotation_in_place_witness :
    mergeDecls .dc [(0, .attr), (1, .attr)] [(1, .none)] = [(0, .attr), (1, .attr)] ∧
    mergeDecls .ms [(0, .attr), (1, .attr)] [(1, .none)] = [(0, .attr), (1, .none)] ∧
    classOrderOk .ms [(0, .attr), (1, .attr)] [(1, .none)] = false ∧
    classOrderOk .ms [(0, .attr), (1, .attr)] [(0, .none)] = true := by decide

theorem class_order_rule_only_for_dataclass_and_msgspec (k : Kind) (hd : k ≠ .dc) (hm : k ≠ .ms)
    (base own : List Decl) : classOrderOk k base own = true := by
  cases k <;> first | rfl | exact absurd rfl hd | exact absurd rfl hm

/-! ### Members that take their default from the definition they refer to (`port: {$ref: Port}`, `Port: {type: integer, default: 8080}`)

"The schema's default" of a member that is a bare `$ref` is the default its definition carries. The generator moves it from the
definition's (root) model to the field in the post-pass `__set_reference_default_value_to_field` of `Parser.parse`; the passes
`__reuse_model` and `__collapse_root_models` of the same loop restructure what the field refers to. The order of that loop is
C09's generated table `Dcg.Gen.ParsePasses.calls` and the meaning of the passes C09's `Dcg.Model.ParsePasses` — both imported
unchanged. A root of that model is any root definition here (no lemma looks at what it wraps); `hasV v d`: the default `d` is
the value `v` (raw, or converted to an enum member for `v`). -/
section RefDefault
open Dcg.Model.ParsePasses Dcg.Proofs.FieldRefDefault

/-- the passes of the per-module loop of `Parser.parse`, as extracted on this run -/
def parsePasses : List Pass := Dcg.Gen.ParsePasses.calls.map (·.pass)

/-- OBLIGATION ON THE CODE (re-decided by the kernel on the table extracted on every run): in the per-module loop of `Parser.parse`
the pass `__set_reference_default_value_to_field` is called, unconditionally and exactly once, and not at or after the first call of
`__collapse_root_models` — i.e. the definition's default is moved to the member while the member still refers to the definition. -/
theorem reference_default_pass_before_restructuring :
    Dcg.Gen.ParsePasses.recognised = true ∧
    Dcg.Gen.ParsePasses.calls.all (fun c => c.pass != .setReferenceDefaultValueToField || !c.guarded) = true ∧
    before .setReferenceDefaultValueToField .collapseRootModels parsePasses = true := by decide

/-- THE MECHANISM, for pass lists of ANY length and every state (induction over the list, no enumeration): if the reference-default
pass is called and not at or after the first `__collapse_root_models`, then a member without default of its own that refers to a
root definition carrying the default `v` ends with the default `v` — whatever else runs before, between and after, with
`--reuse-model`, `--collapse-root-models` and `--set-default-enum-member` on or off. -/
theorem definition_default_reaches_member_any_order (o : Dcg.Model.ParsePasses.Opts) (ps : List Pass) (s : Dcg.Model.ParsePasses.St) (i r v : Nat) (f : Dcg.Model.ParsePasses.Field)
    (hn : noneFrom .setReferenceDefaultValueToField .collapseRootModels ps = true) (hm : .setReferenceDefaultValueToField ∈ ps)
    (hf : s.fields[i]? = some f) (hty : f.ty = .root r) (hd : f.dflt = .none) (hr : rootDflt s.roots r = some (some v)) :
    ∃ f', (run o ps s).fields[i]? = some f' ∧ hasV v f'.dflt = true :=
  definition_default_reaches_state o ps s i r v f hn hm hf hty hd hr

/-- … hence for the pass list the code HAS (the hypothesis about the order is decided on the extracted table): every member that is
a bare reference to a root definition with default `v` ends with `v`, under every option vector -/
theorem definition_default_reaches_member (o : Dcg.Model.ParsePasses.Opts) (s : Dcg.Model.ParsePasses.St) (i r v : Nat) (f : Dcg.Model.ParsePasses.Field)
    (hf : s.fields[i]? = some f) (hty : f.ty = .root r) (hd : f.dflt = .none) (hr : rootDflt s.roots r = some (some v)) :
    ∃ f', (run o parsePasses s).fields[i]? = some f' ∧ hasV v f'.dflt = true :=
  definition_default_reaches_state o parsePasses s i r v f (by decide) (by decide) hf hty hd hr

/-- the hypotheses are satisfiable: root 5 carries the default 3, the one field refers to it and has none of its own; with
`--collapse-root-models` the field ends as the root's type with the default 3 -/
example : (run ⟨true, true, false⟩ parsePasses ⟨[⟨1, 7⟩], [⟨5, 1, some 3⟩], [⟨.root 5, .none⟩]⟩).fields = [⟨.copy 1, .raw 3⟩] := by decide

/-- a default of the member's own is never replaced (any pass list, any order, any options): the definition's default is only
taken by a member that has none -/
theorem own_default_wins_over_definition (o : Dcg.Model.ParsePasses.Opts) (ps : List Pass) (s : Dcg.Model.ParsePasses.St) (i v : Nat) (f : Dcg.Model.ParsePasses.Field)
    (hf : s.fields[i]? = some f) (hd : hasV v f.dflt = true) :
    ∃ f', (run o ps s).fields[i]? = some f' ∧ hasV v f'.dflt = true :=
  own_default_kept_state o ps s i v f hf hd

/-- the order hypothesis is NEEDED (kernel-checked refutation of the statement without it): with the reference-default pass AFTER
`__collapse_root_models` the member has been folded into the root's type, refers to no definition any more, and ends WITHOUT
default — while its sibling with a default of its own keeps it -/
theorem reference_default_after_collapse_loses_it :
    let s : Dcg.Model.ParsePasses.St := ⟨[⟨1, 7⟩], [⟨5, 1, some 3⟩], [⟨.root 5, .none⟩, ⟨.root 5, .raw 4⟩]⟩
    let moved := (parsePasses.filter (· != .setReferenceDefaultValueToField)).flatMap
      (fun p => if p = .collapseRootModels then [p, .setReferenceDefaultValueToField] else [p])
    (run ⟨false, true, false⟩ moved s).fields = [⟨.copy 1, .none⟩, ⟨.copy 1, .raw 4⟩] ∧
    (run ⟨false, true, false⟩ parsePasses s).fields = [⟨.copy 1, .raw 3⟩, ⟨.copy 1, .raw 4⟩] ∧
    (run ⟨false, false, false⟩ moved s).fields = [⟨.root 5, .raw 3⟩, ⟨.root 5, .raw 4⟩] := by decide

end RefDefault


/-! ### Name capture: what the default expression of a rendered member reads in the class body -/
section NameCapture
open Dcg.Model.FieldReads

/-- FULL STRENGTH (false of the code): whatever the earlier members of the class are called, the
default expression rendered for a member reads none of them. -/
def default_expression_never_captured_full : Prop :=
  ∀ (v : Vec) (bound : List String), captured bound (reads v.kind (render v).asg) = false

/-- The only bare name that the default expression of ANY rendered member (all vectors of the
space, every kind) reads while the class body runs is the helper its template calls (`Field` /
`field`): defaults are literals or sit in the body of a lambda. A regression that writes a bare
builtin / class name there (`field(default_factory=list)`) breaks the tie of this function with
the real member line (campaign "default expression reads"). -/
theorem default_expression_reads_only_helper (v : Vec) :
    ∀ n ∈ reads v.kind (render v).asg, n = helper v.kind := by
  intro n hn
  cases h : (render v).asg <;> simp [reads, h] at hn <;> exact hn

/-- `…_partial`: if no earlier member with a class-level value is named like the helper, no default
expression of the class is captured - so an omitted member reads what the generator wrote. -/
theorem default_expression_never_captured_partial (v : Vec) (bound : List String)
    (hb : bound.contains (helper v.kind) = false) :
    captured bound (reads v.kind (render v).asg) = false := by
  unfold captured
  rw [List.any_eq_false]
  intro n hn
  rw [default_expression_reads_only_helper v n hn]
  intro hc
  rw [hb] at hc
  exact Bool.false_ne_true hc

/-- non-vacuity: a member named `list` with a value in front of a dataclass member with an empty-list default -/
example : (boundBy [("list", true), ("id", false)]).contains (helper .dc) = false := by decide

/-- The full-strength statement is false: a dataclass member called `field` with a value in front of
a member whose default is written `field(default_factory=lambda :[])` (known finding
C05-FIELD-HELPER-NAME-CAPTURED; replayed on the real code by its witness). -/
theorem default_expression_never_captured_refuted : ¬ default_expression_never_captured_full := by
  intro h
  have := h { kind := .dc, nullsrc := .no, inreq := false, dflt := .listE, ty := .array, constr := false,
              opts := default, via := .own, name := .plain, sc := false } (boundBy [("field", true)])
  revert this
  decide +kernel

end NameCapture

end Dcg.Props.C05
