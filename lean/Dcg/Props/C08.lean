import Dcg.Model.Determinism
import Dcg.Proofs.Determinism
import Dcg.Gen.SetSites
import Dcg.Gen.ModuleState
import Dcg.Proofs.Write
import Dcg.Gen.GenerateSteps
/-
C08 — output is a function of input and options only.

What is PROVED here is about the abstraction: (1) kernel-checked completeness of the review — every
order-sensitive use of a set, every memoised function and every class-level mutable object found in
the source by the translator is sorted at the point of use, consumed order-insensitively, or on the
reviewed list with a tag; (2) the universal lemmas the tags stand for. Hash randomisation, dict
ordering, the Jinja/black/isort internals and process history are run-time behaviour that no
theorem here exhibits: they are covered by the differential runs of vlib/props/c08.py only.
-/
namespace Dcg.Props.C08
open Dcg.Model.Determinism Dcg.Proofs.Determinism Dcg.Gen.SetSites Dcg.Gen.ModuleState

/-! ### Tables (re-checked by the kernel against the current source) -/

def siteJustified (s : SetSite) : Bool :=
  s.isSorted || s.kind == k! "comp:set" || orderFreeConsumers.contains s.consumer ||
  (reviewedSetSites.lookup (s.file, s.func, s.expr, s.kind)).isSome

/-- Every iteration / join / list() / tuple() / comprehension / formatting over a set-typed
expression in the source is wrapped in `sorted(`, builds a set, feeds an order-insensitive call, or
is on the reviewed list. -/
theorem setSites_all_justified : setSites.all siteJustified = true ∧ setSites.isEmpty = false := by
  decide +kernel

/-- the three emission points named by the property are sorted at the point of use -/
theorem emission_points_sorted :
    [(k! "imports.py", k! "Imports._set_alias", k! "imports"),
     (k! "parser/jsonschema.py", k! "JsonSchemaParser._resolve_unparsed_json_pointer", k! "reserved_refs"),
     (k! "parser/jsonschema.py", k! "JsonSchemaParser._parse_file", k! "reserved_refs")].all
      (fun p => setSites.any (fun s => s.file == p.1 && s.func == p.2.1 && s.expr == p.2.2 && s.isSorted) &&
                setSites.all (fun s => !(s.file == p.1 && s.func == p.2.1 && s.expr == p.2.2) || s.isSorted)) = true := by
  decide +kernel

def cacheOK (c : CacheSite) : Bool :=
  c.free.all (fun fv => pureBindings.contains fv.2 || reviewedFree.contains (c.func, fv.1)) &&
  (if c.decorator == k! "cached_property" then (reviewedCachedProperties.lookup (c.file, c.func)).isSome
   else c.selfAttrs.isEmpty)

/-- Every memoised function reads, besides its parameters, only imports, functions, classes and
module constants (no mutable module-level object); process-wide caches (`lru_cache`) read nothing
through `self`/`cls`; every per-object cache (`cached_property`) is on the reviewed list. -/
theorem cacheSites_pure : cacheSites.all cacheOK = true ∧ cacheSites.isEmpty = false := by
  decide +kernel

def returnOK (c : CacheSite) : Bool :=
  c.decorator == k! "cached_property" || immutableReturns.contains c.returns ||
  match reviewedCacheReturns.lookup (c.file, c.func) with
  | some .noCaller => c.callers == 0
  | some _ => true
  | none => false

/-- Every process-wide memoised function (`lru_cache`, `cache`) returns a value of an immutable type (`str`, `bool`, …) or is
on the reviewed list (enum member, instance of a shared class that is never written to, compiled template, dead code — the
last one re-checked: nothing in the package loads its name). A new cache whose result is a dict, a list, `Any` or an object
(e.g. a loaded document that the parser rewrites in place) breaks this. -/
theorem memoised_results_immutable_or_reviewed :
    cacheSites.all returnOK = true ∧ (cacheSites.any (fun c => c.decorator != k! "cached_property")) = true := by
  decide +kernel

def listingOK (s : ListingSite) : Bool :=
  (s.isSorted && s.keyShape == k! "natural") ||
  match reviewedListingSites.lookup (s.file, s.func, s.call) with
  | some .sortedByBasenameThenPath => s.isSorted && s.keyShape == k! "basename-then-path"
  | none => false

/-- Every call of a directory-listing primitive in the source (`rglob`, `glob`, `iglob`, `iterdir`, `os.walk`, `os.fwalk`,
`os.listdir`, `os.scandir`) is the first argument of `sorted(` without a key (the natural order of paths is total:
`perm_invariant_of_sorted`), or is on the reviewed list with the key shape `lambda p: (p.name, p.as_posix())` that
`iterSource_perm_invariant` talks about (recognised structurally by the translator; every other key is shape `other` and
breaks this). The two sites the package has are still there, each with its shape: `get_first_file` sorted without key (the
inferred input type of a directory does not depend on the listing order), `Parser.iter_source` sorted by (basename, path). -/
theorem listing_sites_sorted :
    listingSites.all listingOK = true ∧
    expectedListingSites.all (fun e => listingSites.any (fun s =>
      s.file == e.1 && s.func == e.2.1 && s.call == e.2.2.1 && s.isSorted && s.keyShape == e.2.2.2)) = true := by
  decide +kernel

/-- Every mutable object created in a class body (shared by all instances and all runs) is on the
reviewed list: pydantic field default, constant, or rebound per run. -/
theorem classMutables_reviewed :
    classMutables.all (fun m => (reviewedClassMutables.lookup (m.1, m.2.1, m.2.2.1)).isSome) = true := by
  decide +kernel

/-- The premise of `cache_transparent` for values that are objects: the instances that are shared process-wide
(returned by a memoised function or bound to a module-level constant — the `Import` singletons) are never written to.
Every attribute store whose attribute is a field name of such a class, and every dynamic `setattr`, is on the reviewed
list as a write to some OTHER object; the set of shared classes is the reviewed one. -/
theorem memoised_values_never_mutated :
    memoValueWrites.all (fun w => (reviewedMemoWrites.lookup (w.1, w.2.1, w.2.2.1)).isSome) = true ∧
    memoClasses.map (·.1) = knownSharedClasses := by decide +kernel

/-! ### Module-level mutable objects and what memoised functions read besides their arguments -/

def escapeOK (e : Escape) : Bool :=
  if e.mutated then reviewedMutatedAliases.contains (e.file, e.func, e.kind, e.target, e.const)
  else e.kind == k! "attr" || e.kind == k! "local" || e.kind == k! "classattr" ||
       (reviewedModuleEscapes.lookup (e.file, e.func, e.kind, e.target, e.const)).isSome

/-- A dict / list / set bound to a module-level name is ONE object per process. Every place in the source where such an object
itself (not a copy: `{*CONST}`, `set(CONST)`, `CONST | other`, `CONST.copy()` are copies) gets another name or is handed on is in
the regenerated table Gen/ModuleState.moduleMutableEscapes; the obligation: (1) an assignment `self.x = CONST`, `x = CONST`,
`x = CONST if c else {…}`, `x = y or CONST` is only acceptable when nothing in the package mutates an attribute named `x` (a local
`x` in that function) in place — `.add/.update/.append/.extend/.pop/.remove/.clear/.setdefault/…`, `x[k] = v`, `del x[k]`, `x |= …` —
the reviewed exceptions are `reviewedMutatedAliases` (none); (2) every other escape (default value, argument, return) is reviewed
with the reason why the receiver only reads; (3) no statement mutates a module-level mutable under its own name (reviewed
exceptions: none); (4) the objects the review talks about are still in the table. An aliasing assignment of `DEFAULT_FIELD_KEYS`
to `self.field_keys` together with `self.field_keys.update(…)` — one run's keywords kept by every later parser — breaks (1). -/
theorem module_mutables_not_written_through_alias :
    moduleMutableEscapes.all escapeOK = true ∧
    moduleMutableWrites.all (fun w => reviewedModuleWrites.contains w) = true ∧
    expectedModuleMutables.all (fun m => moduleMutables.contains m) = true := by
  decide +kernel

def cacheReadOK (c : CacheRead) : Bool :=
  (reviewedOutsideCaches.lookup (c.file, c.func)).isSome ||
  (reviewedPureCaches.contains (c.file, c.func) && !c.pathParam && c.outside.isEmpty)

/-- The premise of `cache_transparent` that the memoised `f` IS a function of its arguments: every process-wide memoised function
(`lru_cache` / `cache`) is on the reviewed list of functions of their arguments only — and then the translator finds no parameter
annotated as a path / file and no call that reads the file system, the environment or the clock in its body — or on the reviewed
list of caches whose result depends on state outside the arguments (`get_template`: a template FILE), each with its tag. The two
tables list the same functions as `cacheSites`. A new memoised function — e.g. a cached `read_text_file(path, encoding)`, which
keeps returning what the file held at the first call — is on neither list and breaks this. -/
theorem memoised_functions_of_their_arguments_only :
    cacheReads.all cacheReadOK = true ∧
    (cacheSites.filter (fun c => c.decorator != k! "cached_property")).all
      (fun c => cacheReads.any (fun r => r.file == c.file && r.func == c.func)) = true ∧
    cacheReads.length = (cacheSites.filter (fun c => c.decorator != k! "cached_property")).length := by
  decide +kernel

/-! ### The working directory -/

/-- Every call in the source that reads or sets the process's working directory (`Path.cwd()`, `os.getcwd()`, `os.chdir()`,
`abspath`/`realpath`, `.absolute()`, `.resolve()`) or starts a child process that inherits it is on the reviewed list: it runs
inside `with chdir(output)`, it locates the input, it is the save/restore of `chdir` itself, or it belongs to the CLI layer. The
three sites of the formatting stage (`CodeFormatter.__init__`'s default settings path and the two `ruff` child processes) are
present and reviewed as running inside `with chdir(output)`. -/
theorem cwd_reads_reviewed :
    cwdSites.all (fun s => (reviewedCwdSites.lookup s).isSome) = true ∧
    expectedFormatterCwdSites.all (fun e => cwdSites.contains e && reviewedCwdSites.lookup e == some .insideChdirOutput) = true := by
  decide +kernel

/-- The reviewed shape behind the tag `insideChdirOutput`, decided on the effect sequence of `generate()` regenerated from its
`ast` (Gen/GenerateSteps, shared with C20): the only `with chdir(…)` region is entered as `chdir(output)`, `parser.parse()` —
rendering AND formatting — is the one step inside it, `parse()` is handed no settings path, and `chdir` switches to
`path if path.is_dir() else path.parent`. -/
theorem formatting_runs_in_output_directory :
    Dcg.Model.Write.parseInsideChdirOutput Dcg.Gen.GenerateSteps.pre Dcg.Gen.GenerateSteps.chdirSome
      Dcg.Gen.GenerateSteps.parseCallArguments = true := by decide

/-- Consequence in the model of `generate()` (Dcg/Model/Write, any environment, any file system): when `parser.parse()` starts —
every step before it having succeeded — the working directory is the directory `chdir` switched to, which is determined by
`output` alone; two callers in two different directories `orig₁`, `orig₂` format in the same directory. (With `output=None`
nothing is written and `chdir(None)` does not switch: `stdout_run_formats_in_callers_directory`.) -/
theorem formatting_directory_independent_of_callers_cwd (env : Dcg.Model.Write.Env)
    (hc : env.chdirSteps = Dcg.Gen.GenerateSteps.chdirSome) (files : List (Dcg.Model.Write.Path × Dcg.Model.Write.Content))
    (i : Nat) (orig₁ orig₂ target : Dcg.Model.Write.Path) :
    let atParse := Dcg.Model.Write.exec env (fun _ => false) none i false ⟨files, .orig⟩
      (Dcg.Model.Write.stepsBefore "parser.parse" Dcg.Gen.GenerateSteps.pre)
    atParse.st.cwd.denote orig₁ target = target ∧ atParse.st.cwd.denote orig₂ target = target := by
  intro atParse
  have h : atParse = .done ⟨files, .target⟩ := by
    show Dcg.Model.Write.exec env _ none i false _ _ = _
    rw [Dcg.Proofs.Write.exec_noFault_track env _ (by decide), hc]
    have : Dcg.Model.Write.cwdTrack Dcg.Gen.GenerateSteps.chdirSome .orig
        (Dcg.Model.Write.stepsBefore "parser.parse" Dcg.Gen.GenerateSteps.pre) = .target := by decide
    simp only [this]
  rw [h]
  exact ⟨rfl, rfl⟩

/-- the boundary of the statement above: a run without an output path (`output=None`, text to stdout) does not switch, the
formatters then see the caller's directory — no file is written in that case -/
theorem stdout_run_formats_in_callers_directory :
    Dcg.Model.Write.cwdTrack Dcg.Gen.GenerateSteps.chdirNone .orig
      (Dcg.Model.Write.stepsBefore "parser.parse" Dcg.Gen.GenerateSteps.pre) = .orig := by decide

/-! ### Universal lemmas behind the tags -/

/-- `sortedLater` / `sorted(` at the point of use: whatever order a set was iterated in, and whatever
sorting algorithm is used, there is only one sorted arrangement of its elements (total order,
antisymmetric on the elements present). -/
theorem sorted_unique {α : Type} (le : α → α → Prop) (l₁ l₂ s₁ s₂ : List α)
    (anti : ∀ a b, a ∈ l₁ → b ∈ l₁ → le a b → le b a → a = b)
    (hp : l₁.Perm l₂) (h₁ : s₁.Perm l₁) (h₂ : s₂.Perm l₂)
    (hs₁ : s₁.Pairwise le) (hs₂ : s₂.Pairwise le) : s₁ = s₂ := by
  have hperm : s₁.Perm s₂ := h₁.trans (hp.trans h₂.symm)
  refine List.Perm.eq_of_pairwise ?_ hs₁ hs₂ hperm
  intro a b ha hb hab hba
  exact anti a b (h₁.subset ha) ((h₂.trans hp.symm).subset hb) hab hba

/-- the same for the concrete stable merge sort: sorting a permutation gives the same list -/
theorem perm_invariant_of_sorted {α : Type} (le : α → α → Bool) (l₁ l₂ : List α)
    (trans : ∀ a b c, le a b → le b c → le a c) (total : ∀ a b, le a b || le b a)
    (anti : ∀ a b, a ∈ l₁ → b ∈ l₁ → le a b → le b a → a = b)
    (hp : l₁.Perm l₂) : l₁.mergeSort le = l₂.mergeSort le :=
  sorted_unique (fun a b => le a b = true) l₁ l₂ _ _ anti hp
    (List.mergeSort_perm l₁ le) (List.mergeSort_perm l₂ le)
    (List.pairwise_mergeSort trans total l₁) (List.pairwise_mergeSort trans total l₂)

/-- non-vacuity: the hypotheses hold for `≤` on numbers and a non-trivial permutation -/
example : [3, 1, 2].mergeSort (fun a b => decide (a ≤ b)) = [2, 3, 1].mergeSort (fun a b => decide (a ≤ b)) :=
  perm_invariant_of_sorted _ _ _
    (by intro a b c; simp only [decide_eq_true_eq]; omega)
    (by intro a b; simp only [Bool.or_eq_true, decide_eq_true_eq]; omega)
    (by intro a b _ _; simp only [decide_eq_true_eq]; omega)
    (List.isPerm_iff.mp (by decide))

/-- `get_first_file` since the repair of C08-auto-dir (`sorted(path.rglob("*"))`, no key): the file whose text decides the
inferred input type of a directory (`input_file_type=Auto`) does not depend on the order in which the operating system lists
the directory — for every listing, every total order of the entries and every set of entries that are files. -/
theorem firstFile_perm_invariant {α : Type} (le : α → α → Bool) (isFile : α → Bool) (l₁ l₂ : List α)
    (trans : ∀ a b c, le a b → le b c → le a c) (total : ∀ a b, le a b || le b a)
    (anti : ∀ a b, le a b → le b a → a = b) (hp : l₁.Perm l₂) :
    firstFile le isFile l₁ = firstFile le isFile l₂ := by
  unfold firstFile
  rw [perm_invariant_of_sorted le l₁ l₂ trans total (fun a b _ _ => anti a b) hp]

/-- non-vacuity, and the former witness of C08-auto-dir: the hypotheses hold for Python's string order; the directory
`a` (not a file), `a/service_api.json` and `b/thing.json` listed in two orders gives `a/service_api.json` both times -/
example :
    let a := [97]
    let api := [97, 47, 115, 101, 114, 118, 105, 99, 101, 95, 97, 112, 105, 46, 106, 115, 111, 110]
    let thing := [98, 47, 116, 104, 105, 110, 103, 46, 106, 115, 111, 110]
    firstFile strLe (· != a) [thing, api, a] = firstFile strLe (· != a) [a, api, thing] ∧
    firstFile strLe (· != a) [a, api, thing] = some api := by
  intro a api thing
  refine ⟨firstFile_perm_invariant strLe _ _ _ strLe_trans strLe_total strLe_antisymm (List.isPerm_iff.mp (by decide)), ?_⟩
  unfold firstFile
  rw [List.mergeSort_of_pairwise (by decide)]
  decide

/-- Directory inputs (`sorted(self.source.rglob("*"), key=lambda p: (p.name, p.as_posix()))`): the order in which the files of
a directory are parsed does not depend on the order in which the operating system lists them — for EVERY listing, whatever
maps a path to its basename, equal basenames in different directories included. (The entries of a listing are pairwise
distinct paths; the statement does not even need that.) Unconditional since the repair of C08-basename: the key's second
component is the entry itself, so two entries with equal keys are equal (`keyLe_antisymm`). -/
theorem iterSource_perm_invariant (name : Str → Str) (l₁ l₂ : List Str) (hp : l₁.Perm l₂) :
    iterSourceOrder name l₁ = iterSourceOrder name l₂ :=
  perm_invariant_of_sorted (keyLe name) l₁ l₂ (keyLe_trans name) (keyLe_total name)
    (fun a b _ _ => keyLe_antisymm name a b) hp

/-- non-vacuity, and the former witness of C08-basename: `common.json`, `sub/common.json` and `other/delta.json` (code
points) are parsed in the same order — `common.json` before `sub/common.json` — however the directory is listed -/
example :
    let common := [99, 111, 109, 109, 111, 110, 46, 106, 115, 111, 110]
    let sub := [115, 117, 98, 47] ++ common
    let delta := [111, 116, 104, 101, 114, 47, 100, 101, 108, 116, 97, 46, 106, 115, 111, 110]
    basename sub = common ∧
    iterSourceOrder basename [sub, delta, common] = [common, sub, delta] ∧
    iterSourceOrder basename [delta, common, sub] = [common, sub, delta] := by
  intro common sub delta
  have hs : iterSourceOrder basename [common, sub, delta] = [common, sub, delta] :=
    List.mergeSort_of_pairwise (by decide)
  refine ⟨by decide, ?_, ?_⟩
  · rw [iterSource_perm_invariant basename _ [common, sub, delta] (List.isPerm_iff.mp (by decide))]; exact hs
  · rw [iterSource_perm_invariant basename _ [common, sub, delta] (List.isPerm_iff.mp (by decide))]; exact hs

/-- The repair changed nothing for the directories that were already deterministic: when no two listed files have the same
basename, sorting by (basename, path) gives exactly the order that sorting by basename alone (the code before the repair)
gave. Not a statement about the current code's determinism — it relates the repaired key to the old one. -/
theorem iterSource_order_unchanged_for_distinct_basenames (name : Str → Str) (l : List Str)
    (inj : ∀ a ∈ l, ∀ b ∈ l, name a = name b → a = b) :
    iterSourceOrder name l = basenameOnlyOrder name l := by
  unfold iterSourceOrder basenameOnlyOrder
  refine sorted_unique (fun a b => strLe (name a) (name b) = true) l l _ _ ?_ (List.Perm.refl l)
    (List.mergeSort_perm l _) (List.mergeSort_perm l _) ?_ ?_
  · intro a b ha hb hab hba
    exact inj a ha b hb (strLe_antisymm _ _ hab hba)
  · exact (List.pairwise_mergeSort (keyLe_trans name) (keyLe_total name) l).imp (fun h => keyLe_imp_nameLe name _ _ h)
  · exact List.pairwise_mergeSort (le := fun a b => strLe (name a) (name b)) (fun a b c => strLe_trans _ _ _)
      (fun a b => strLe_total _ _) l

/-- the hypothesis is satisfiable by a listing with several files in several directories -/
example : ∀ a ∈ [[97, 47, 120], [98, 47, 121], [122]], ∀ b ∈ [[97, 47, 120], [98, 47, 121], [122]],
    basename a = basename b → a = b := by decide

/-- `buildsASet` / all / any / membership: a fold with an operation whose steps commute gives the
same result for every order of the elements. -/
theorem fold_comm_perm_invariant {α β : Type} (f : β → α → β) (init : β) (l₁ l₂ : List α)
    (comm : ∀ z x y, f (f z x) y = f (f z y) x) (hp : l₁.Perm l₂) :
    l₁.foldl f init = l₂.foldl f init :=
  hp.foldl_eq' (fun x _ y _ z => comm z x y) init

/-- instances: `any` and `all` over a set -/
theorem any_perm_invariant {α : Type} (p : α → Bool) (l₁ l₂ : List α) (hp : l₁.Perm l₂) :
    l₁.any p = l₂.any p := by
  have h : ∀ l : List α, l.any p = l.foldl (fun acc x => acc || p x) false := by
    intro l
    suffices ∀ b, (b || l.any p) = l.foldl (fun acc x => acc || p x) b by simpa using this false
    induction l with
    | nil => simp
    | cons a l ih => intro b; simp [← ih, Bool.or_assoc]
  rw [h, h]
  exact fold_comm_perm_invariant _ _ _ _ (by intro z x y; cases z <;> cases p x <;> cases p y <;> rfl) hp

/-- a comprehension over a set that builds a collection whose order is irrelevant: the results are
permutations of each other (to be consumed by one of the other lemmas) -/
theorem map_perm {α β : Type} (f : α → β) (l₁ l₂ : List α) (hp : l₁.Perm l₂) : (l₁.map f).Perm (l₂.map f) :=
  hp.map f

/-- `removalsCommute`: removing a set of elements one by one gives the same result in every order -/
theorem erase_fold_perm_invariant {α : Type} [BEq α] [LawfulBEq α] (base l₁ l₂ : List α) (hp : l₁.Perm l₂) :
    l₁.foldl List.erase base = l₂.foldl List.erase base :=
  fold_comm_perm_invariant _ _ _ _ (fun _ x y => List.erase_comm x y) hp

/-- `independentWrites`: one write per element to its own key commutes -/
theorem update_fold_perm_invariant {κ ν : Type} [DecidableEq κ] (val : κ → ν) (m : κ → ν) (l₁ l₂ : List κ)
    (hp : l₁.Perm l₂) :
    l₁.foldl (fun m k => update m k (val k)) m = l₂.foldl (fun m k => update m k (val k)) m := by
  apply fold_comm_perm_invariant _ _ _ _ _ hp
  intro z x y
  funext k'
  simp only [update]
  by_cases h1 : k' = y <;> by_cases h2 : k' = x <;> simp_all

/-! ### Memoisation -/

/-- For any cache state that only contains pairs `(x, f x)`, lookup-or-compute returns `f x` and
keeps the invariant. -/
theorem cache_transparent {α β : Type} [BEq α] [LawfulBEq α] (f : α → β) (c : Cache α β) (h : Sound f c) (x : α) :
    (cached f c x).1 = f x ∧ Sound f (cached f c x).2 := by
  unfold cached
  cases hl : c.lookup x with
  | none =>
    refine ⟨rfl, ?_⟩
    intro p hp
    rcases List.mem_cons.mp hp with rfl | hp
    · rfl
    · exact h p hp
  | some y =>
    refine ⟨?_, h⟩
    have : (x, y) ∈ c := by
      clear h
      induction c with
      | nil => simp [List.lookup] at hl
      | cons a c ih =>
        obtain ⟨a1, a2⟩ := a
        simp only [List.lookup] at hl
        split at hl
        · rename_i heq
          have : x = a1 := by simpa using heq
          cases hl
          subst this
          exact List.mem_cons_self
        · exact List.mem_cons_of_mem _ (ih hl)
    exact h (x, y) this

/-- Induction over call histories: starting from any sound cache (in particular the empty cache of a
fresh process, or whatever earlier `generate()` calls left behind), every call in every history
returns what the uncached function returns. -/
theorem cache_history_transparent {α β : Type} [BEq α] [LawfulBEq α] (f : α → β) (c : Cache α β)
    (h : Sound f c) (xs : List α) : (runCalls f c xs).1 = xs.map f ∧ Sound f (runCalls f c xs).2 := by
  induction xs generalizing c with
  | nil => exact ⟨rfl, h⟩
  | cons x xs ih =>
    obtain ⟨h1, h2⟩ := cache_transparent f c h x
    obtain ⟨ih1, ih2⟩ := ih (cached f c x).2 h2
    simp only [runCalls, List.map_cons]
    exact ⟨by rw [h1, ih1], ih2⟩

/-- eviction (bounded `lru_cache`) keeps a cache sound -/
theorem cache_evict_sound {α β : Type} (f : α → β) (c c' : Cache α β) (h : Sound f c) (hs : c'.Sublist c) :
    Sound f c' := fun p hp => h p (hs.subset hp)

/-- the empty cache is sound; a cache holding a stale pair is exactly what the lemma excludes -/
example : Sound (fun n : Nat => n + 1) [] := by intro p hp; cases hp
example : (cached (fun n : Nat => n + 1) [(1, 5)] 1).1 = 5 := by decide

end Dcg.Props.C08
