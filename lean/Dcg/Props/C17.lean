import Dcg.Model.Graphql
import Dcg.Proofs.Graphql
import Dcg.Gen.GraphqlTables
import Dcg.Proofs.GraphqlBridge
import Dcg.Proofs.GraphqlBridgeOp
import Dcg.Proofs.GraphqlOrder
import Dcg.Proofs.GraphqlEnum
/-
C17 — the shape of a GraphQL schema is mirrored by the generated models.
Only property theorems live here; helper lemmas are in Dcg/Proofs/Graphql.lean.
The model (`Dcg/Model/Graphql.lean`) is a transliteration of `GraphQLParser.parse_field` /
`parse_object_like`; its agreement with the code is tested on every run (vlib/props/c17.py).
-/
namespace Dcg.Props.C17
open Dcg.Model.Graphql Dcg.Proofs.Graphql Dcg.Gen.GraphqlTables

/-! ### wrappers: `[t]`, `t!` -/

/-- FULL STRENGTH, all type expressions GraphQL can express (no `!` directly inside `!`): reading the
IR of a field back — a level is nullable iff its `DataType` is optional, the outermost level is
nullable iff the node is optional or the field is not required — gives exactly the declared type:
list depth, the nullability of every level and the named type are preserved. -/
theorem wrappers_roundtrip (t : GType) (h : t.wf = true) : rebuild (parseField false t) = t := by
  have := unroll_denotes t h true
  rw [expect_true] at this
  simpa [rebuild, parseField, FieldIR.topNullable, rebuildDT] using this

/-- non-vacuity: `[[Int!]]!` is well-formed and is read back as itself -/
example : (GType.nonNull (.list (.list (.nonNull (.named "Int".toList))))).wf = true ∧
    rebuild (parseField false (.nonNull (.list (.list (.nonNull (.named "Int".toList)))))) =
      .nonNull (.list (.list (.nonNull (.named "Int".toList)))) := by decide

/-- A field is required exactly when its outermost wrapper is `!` (all type expressions). -/
theorem required_iff_nonnull (t : GType) : (parseField false t).required = t.isNonNull := by
  cases t with
  | named n => rfl
  | list t => rfl
  | nonNull t => simp [parseField, unroll_optional_nonNull, GType.isNonNull]

/-- …and a field that is not required is nullable at the top (it renders as `Optional[...] = None`). -/
theorem nullable_iff_not_required (t : GType) :
    (parseField false t).topNullable = !(parseField false t).required := by
  simp [FieldIR.topNullable, parseField]

/-- The number of nested list levels is preserved, whatever `force_optional_for_required_fields` is. -/
theorem list_depth_preserved (fo : Bool) (t : GType) : (parseField fo t).dt.depth = t.listDepth := by
  simp [parseField, unroll_depth]

/-- The innermost node names the type the wrappers were applied to. -/
theorem named_type_preserved (fo : Bool) (t : GType) : (parseField fo t).dt.typeName = t.baseName := by
  simp [parseField, unroll_typeName]

/-- `force_optional_for_required_fields` removes the outermost `!` and nothing else. -/
theorem force_optional_only_outermost (t : GType) (h : t.wf = true) :
    (parseField true t).required = false ∧ rebuild (parseField true t) = t.nullableTop := by
  refine ⟨rfl, ?_⟩
  have hd := unroll_denotes t h true
  rw [expect_true] at hd
  have ho := unroll_optional t h true
  cases t with
  | named n => rfl
  | list t =>
    simp only [unroll, rebuildDT, DT.optional, wrap, if_true] at hd
    simpa [rebuild, parseField, FieldIR.topNullable, GType.nullableTop, wrap, unroll, DT.optional] using hd
  | nonNull s =>
    simp only [GType.isNonNull, Bool.not_true, Bool.and_false] at ho
    simp only [rebuildDT, ho, wrap] at hd
    simpa [rebuild, parseField, FieldIR.topNullable, GType.nullableTop, wrap] using hd

example : rebuild (parseField true (.nonNull (.list (.nonNull (.named "A".toList))))) =
    .list (.nonNull (.named "A".toList)) := by decide

/-! ### object-like types -/

/-- One member per GraphQL field, in the order of the fields, with the field's name and the IR of
its type; then the `__typename` member whose literal is the type's own name. -/
theorem one_member_per_field_plus_typename (fo : Bool) (n : List Char)
    (fs : List (List Char × GType)) (is : List (List Char)) :
    (parseObjectLike fo n fs is).members.length = fs.length + 1 ∧
    (parseObjectLike fo n fs is).members.dropLast = fs.map (fun f => .field f.1 (parseField fo f.2)) ∧
    (parseObjectLike fo n fs is).members.getLast? = some (.typename n) := by
  simp [parseObjectLike]

/-- The implemented interfaces are exactly the base classes, in the same order. -/
theorem interfaces_are_bases (fo : Bool) (n : List Char) (fs : List (List Char × GType))
    (is : List (List Char)) : (parseObjectLike fo n fs is).bases = is := rfl

/-! ### a type that implements several interfaces: whose declaration of a member counts -/

/-- A GraphQL type has to declare every field of the interfaces it implements, and `parse_object_like`
writes one member for EVERY field of the type. So whatever the classes of the interfaces declare for a
member of the same name (another nullability, another list nesting: legal GraphQL as long as the type's
field is a subtype of each), in whatever order they appear among the bases, the member the class ends up
with is the type's OWN: it never depends on which base Python's MRO (first wins) or a merged table of
inherited fields (`dict.update`: last wins) would pick. -/
theorem own_declaration_wins (fo : Bool) (n : List Char) (fs : List (List Char × GType))
    (is : List (List Char)) (mro : List (List Member)) (f : List Char) (t : GType)
    (hmem : (f, t) ∈ fs) (hnd : (fs.map (·.1)).Nodup) :
    resolveMember (parseObjectLike fo n fs is).members mro f = some (.field f (parseField fo t)) := by
  simp only [resolveMember, parseObjectLike]
  rw [lookup_own_field fo fs f t hmem hnd]

/-- …hence a member is required exactly when the type's OWN field is non-null, whatever the
interfaces say about a field of that name. -/
theorem own_field_required_iff_nonnull (n : List Char) (fs : List (List Char × GType))
    (is : List (List Char)) (mro : List (List Member)) (f : List Char) (t : GType)
    (hmem : (f, t) ∈ fs) (hnd : (fs.map (·.1)).Nodup) :
    ∃ ir, resolveMember (parseObjectLike false n fs is).members mro f = some (.field f ir) ∧
      ir.required = t.isNonNull ∧ (t.wf = true → rebuild ir = t) :=
  ⟨parseField false t, own_declaration_wins false n fs is mro f t hmem hnd, required_iff_nonnull t,
    wrappers_roundtrip t⟩

/-- A member the class does NOT declare comes from the first base along the MRO that declares it. -/
theorem undeclared_member_from_first_base (own : List Member) (mro : List (List Member)) (f : List Char)
    (h : lookupMember own f = none) :
    resolveMember own mro f = mro.findSome? (fun ms => lookupMember ms f) := by
  simp [resolveMember, h]

/-- non-vacuity, and why leaving a member out "because a base declares it identically" is unsound when
two bases disagree: `interface A { f: String }`, `interface B { f: String! }`,
`type T implements A & B { f: String! }` — with its own member, `T.f` is required; without it the
member is `A`'s (first base), which is not required, although `B`'s (last base) is identical to `T`'s -/
example :
    let s : GType := .named "String".toList
    let a := (parseObjectLike false "A".toList [("f".toList, s)] []).members
    let b := (parseObjectLike false "B".toList [("f".toList, .nonNull s)] []).members
    let t := (parseObjectLike false "T".toList [("f".toList, .nonNull s)] ["A".toList, "B".toList]).members
    resolveMember t [a, b] "f".toList = some (.field "f".toList (parseField false (.nonNull s))) ∧
    resolveMember [.typename "T".toList] [a, b] "f".toList = some (.field "f".toList (parseField false s)) ∧
    lookupMember b "f".toList = lookupMember t "f".toList ∧
    (parseField false s).required = false ∧ (parseField false (.nonNull s)).required = true := by
  decide

/-! ### default values of input fields -/

/-- The default value of an input field reaches the member UNCHANGED, for every value graphql-core can
hand over — the falsy ones (`0`, `0.0`, `false`, `""`, `[]`, `{}`) like any other; and it does not
touch what is derived from the field's type. -/
theorem input_default_preserved (fo : Bool) (t : GType) (v : PyVal) :
    (parseFieldD fo true t (.value v)).default = v ∧
    (parseFieldD fo true t (.value v)).hasDefault = !v.isNone ∧
    (parseFieldD fo true t (.value v)).ir = parseField fo t := ⟨rfl, rfl, rfl⟩

/-- No default in the SDL (`Undefined`): the member gets `default=None`, `has_default=False`. -/
theorem undefined_default_is_none (fo isIn : Bool) (t : GType) :
    (parseFieldD fo isIn t .undefined).default = .none ∧
    (parseFieldD fo isIn t .undefined).hasDefault = false := by
  cases isIn <;> exact ⟨rfl, rfl⟩

/-- `= null` in the SDL: the same as no default. -/
theorem null_default_is_none (fo : Bool) (t : GType) :
    (parseFieldD fo true t (.value .none)).default = .none ∧
    (parseFieldD fo true t (.value .none)).hasDefault = false := ⟨rfl, rfl⟩

/-- Fields of object and interface types never get a default. -/
theorem output_field_has_no_default (fo : Bool) (t : GType) (d : DefaultValue) :
    (parseFieldD fo false t d).default = .none ∧ (parseFieldD fo false t d).hasDefault = false :=
  ⟨rfl, rfl⟩

/-- What the member shows: a nullable input field (and every input field under force-optional) shows
exactly the SDL default, `None` when there is none or it is `null`; a required member shows no default. -/
theorem member_default_mirrors_sdl (fo : Bool) (t : GType) (v : PyVal) (h : (fo || !t.isNonNull) = true) :
    (parseFieldD fo true t (.value v)).memberDefault = some v ∧
    (parseFieldD fo true t .undefined).memberDefault = some .none := by
  have hr : (parseField fo t).required = false := by
    cases fo with
    | true => rfl
    | false =>
      rw [required_iff_nonnull]
      simpa using h
  simp [FieldD.memberDefault, parseFieldD, hr, getDefault]

theorem member_default_required (t : GType) (d : DefaultValue) (h : t.isNonNull = true) :
    (parseFieldD false true t d).memberDefault = none := by
  simp [FieldD.memberDefault, parseFieldD, required_iff_nonnull, h]

/-- Why `default_value or None` is NOT `_get_default`: Python's `or` keeps a value exactly when it is
truthy, so the shortcut agrees with the function on the truthy values and on `None`, and on nothing else:
every falsy default other than `None` is lost. -/
theorem or_none_agrees_iff_truthy_or_none (v : PyVal) :
    (if v.truthy then v else PyVal.none) = getDefault true (.value v) ↔ (v.truthy = true ∨ v.isNone = true) := by
  cases hv : v.truthy
  · cases v <;> simp_all [getDefault, PyVal.isNone]
  · simp [getDefault]

/-- non-vacuity: the six falsy defaults of GraphQL are not `None`, are falsy, and are preserved -/
example :
    [PyVal.int 0, .float "0.0".toList, .bool false, .str [], .list [], .dict []].all
      (fun v => !v.truthy && !v.isNone && !(parseFieldD false true (.named "Int".toList) (.value v)).default.isNone
        && (parseFieldD false true (.named "Int".toList) (.value v)).hasDefault) = true := by
  decide

/-! ### generated tables (re-checked by the kernel against the code on every run) -/

/-- the Python type whose JSON values are those of the predefined GraphQL scalar (authored, from the
GraphQL specification §3.5) -/
def specScalar : List (String × String) :=
  [("Int", "int"), ("Float", "float"), ("String", "str"), ("Boolean", "bool"), ("ID", "str")]

/-- Every scalar graphql-core predefines has an entry in DEFAULT_GRAPHQL_SCALAR_TYPES and the entry is
the Python type of its JSON values; nothing else is in the table; the fallback is a Python builtin. -/
theorem scalar_table_total :
    builtinScalars.all (fun s => (defaultScalarTypes.lookup s).isSome
        && defaultScalarTypes.lookup s == specScalar.lookup s) = true ∧
    defaultScalarTypes.all (fun e => builtinScalars.contains e.1) = true ∧
    ["str", "int", "float", "bool"].contains defaultScalarType = true := by decide

/-- Every kind a named GraphQL type can have is collected (`support_graphql_types`), has a parse
method and is rendered (`parse_order`), each exactly once. -/
theorem kinds_all_supported :
    namedTypeKinds.all (fun k => parseOrder.contains k && supportKinds.contains k
        && (kindMethods.lookup k).isSome) = true ∧
    parseOrder.all (fun k => namedTypeKinds.contains k) = true ∧
    parseOrder.length = namedTypeKinds.length := by decide

/-- The `__typename` member: attribute `typename__`, wire name `__typename`, `Literal[<type name>]`,
default `<type name>`, not required. -/
theorem typename_field_shape :
    typenameField.lookup "name" = some "typename__" ∧
    typenameField.lookup "alias" = some "__typename" ∧
    typenameField.lookup "literals" = some "[NAME]" ∧
    typenameField.lookup "default" = some "NAME" ∧
    typenameField.lookup "required" = some "False" ∧
    typenameField.lookup "has_default" = some "True" := by decide


/-! ### behind the IR: the annotation that is written for a field

Composition with C13's model of `DataType.type_hint` / `DataModelFieldBase.type_hint`
(`Model.Types`, `Sem.Typing`) through `Model.GraphqlBridge`:
* `annotation o isEnum fo t`  the text `field.type_hint` of the member `parse_field` builds for a field
                              of GraphQL type `t` (`fo` = force_optional_for_required_fields, `isEnum`
                              = which named types are enums: their leaf also carries a reference);
* `gqlDenote t`               what `t` means as a Python typing: list level ↦ `list[…]`, nullable level ↦
                              the alternative `None`, named type ↦ that name;
* `declared fo t`             `t`, without its outermost `!` under force-optional;
* `okName n`                  the named type is an identifier-like token other than `None`, `Any`, the
                              nine container names and `Union` / `Optional` / `Literal`.
The real `field.type_hint` of the member built by the real GraphQL parser is compared with
`annotation` on every run for all spellings (vlib/props/c17.py, campaign `gql.annotation`). -/

section rendering
open Dcg.Model.GraphqlBridge Dcg.Proofs.GraphqlBridge
open Dcg.Model.Types (Opts)
open Dcg.Sem.Typing (TExpr print denote)

/-- FULL STRENGTH (kept visible; FALSE of the code, see `type_named_any_loses_nullability`): for every
container spelling without the union operator, every well-formed type expression over ANY type name
and both settings of force-optional, the annotation is the printed form of a well-formed typing
expression that denotes the declared GraphQL type. -/
def RenderedHintMirrorsType : Prop :=
  ∀ (o : Opts), o.unionOp = false → ∀ (isEnum : List Char → Bool) (fo : Bool) (t : GType), t.wf = true →
    ∃ e : TExpr, Dcg.Proofs.Types.wfU e = true ∧ annotation o isEnum fo t = print e ∧
      denote e = gqlDenote (declared fo t)

/-- PARTIAL (unbounded nesting of `[ ]` and `!`; `List` / `list` / `Sequence` spellings; required and
force-optional; enum and non-enum leaves): when the named type is `okName`, the annotation text
written for the field is the printed form of a well-formed typing expression — of exactly one: parsing
the text back is unambiguous (C13 `hint_unambiguous`) — and that expression denotes exactly the
declared GraphQL type: a list level is a list, a nullable level has the alternative `None`, a `!`
level has not, the innermost name is the named type.
Composition: `parseField` (C17) ; `toTypes` ; C13 `typeHint_eq_print_typing` (string surgery =
structural rendering) ; `hintE` on a chain = `chainE` ; C13 `optional_keeps_alternatives_text` for the
member-level `Optional[…]` ; `denote (chainE …) = den …` by induction over the type expression. -/
theorem rendered_hint_mirrors_type (o : Opts) (ho : o.unionOp = false) (isEnum : List Char → Bool)
    (fo : Bool) (t : GType) (hwf : t.wf = true) (hn : okName t.baseName = true) :
    ∃ e : TExpr, Dcg.Proofs.Types.wfU e = true ∧ annotation o isEnum fo t = print e ∧
      (∀ e', Dcg.Proofs.Types.wfU e' = true → print e' = annotation o isEnum fo t → e' = e) ∧
      denote e = gqlDenote (declared fo t) := by
  have hn' : okName (unroll (declared fo t) true).typeName = true := by
    rw [unroll_typeName, baseName_declared]; exact hn
  have hw := wfU_chain o ho isEnum _ hn'
  have ha := annotation_eq o ho isEnum fo t hwf hn
  refine ⟨chainE o (unroll (declared fo t) true), hw, ha, ?_, ?_⟩
  · intro e' he' hp
    exact Dcg.Props.C13.hint_unambiguous e' _ he' hw (by rw [hp, ha])
  · rw [(denote_chain o _ hn').2.2, denChain_unroll]
    rfl

/-- non-vacuity: `[[Color!]]!` over an enum, typing spelling — the hypotheses hold, the text is the
expected one, and so is its meaning; under force-optional the outermost `!` is gone -/
example :
    let t : GType := .nonNull (.list (.list (.nonNull (.named "Color".toList))))
    t.wf = true ∧ okName t.baseName = true ∧
    annotation {} (fun _ => true) false t = "List[Optional[List[Color]]]".toList ∧
    (gqlDenote t).show = "list({list(Color);None})".toList ∧
    annotation { stdColl := true } (fun _ => true) true t = "Optional[list[Optional[list[Color]]]]".toList ∧
    (gqlDenote (declared true t)).show = "{list({list(Color);None});None}".toList := by
  decide +kernel

/-- The container spelling does not change the meaning: any two of `List` / `list` / `Sequence` give
annotations whose (unique) parses denote the same type — here as a corollary of
`rendered_hint_mirrors_type`; C13's `spelling_invariant_collections` says the same of the node hint
(`node_hint_spellings_agree`). -/
theorem rendered_hint_spelling_invariant (o o' : Opts) (ho : o.unionOp = false) (ho' : o'.unionOp = false)
    (isEnum : List Char → Bool) (fo : Bool) (t : GType) (hwf : t.wf = true) (hn : okName t.baseName = true) :
    ∃ e e' : TExpr, annotation o isEnum fo t = print e ∧ annotation o' isEnum fo t = print e' ∧
      denote e = denote e' := by
  obtain ⟨e, _, h1, _, h2⟩ := rendered_hint_mirrors_type o ho isEnum fo t hwf hn
  obtain ⟨e', _, h1', _, h2'⟩ := rendered_hint_mirrors_type o' ho' isEnum fo t hwf hn
  exact ⟨e, e', h1, h1', by rw [h2, h2']⟩

/-- the same at the level of the `DataType` chain, directly from C13: the chain of a field is a tree
with plain names that are not container names, so `spelling_invariant_collections` applies to it -/
theorem node_hint_spellings_agree (o o' : Opts) (ho : o.unionOp = false) (ho' : o'.unionOp = false)
    (isEnum : List Char → Bool) (fo : Bool) (t : GType) (hn : okName t.baseName = true) :
    denote (Dcg.Model.HintExpr.hintE o' (toTypes isEnum (parseField fo t).dt)).1 =
      denote (Dcg.Model.HintExpr.hintE o (toTypes isEnum (parseField fo t).dt)).1 := by
  have hn' : okName (parseField fo t).dt.typeName = true := by
    simp only [parseField]; rw [unroll_typeName]; exact hn
  exact (Dcg.Props.C13.spelling_invariant_collections o o' ho ho' _ (wfTree_toTypes isEnum _ hn')
    (freeTree_toTypes isEnum _ hn')).2.2

/-- REFUTATION of the full statement (known finding C17-type-named-Any): a GraphQL type called `Any`
(`scalar Any` is legal SDL). `type_hint` never wraps the text `Any` in `Optional[…]`, so the nullable
ELEMENT of `[Any]` is written `List[Any]`; with the alias `Any: TypeAlias = str` the generator emits,
`[null]` conforms to the GraphQL type and is rejected by the class. -/
theorem type_named_any_loses_nullability :
    annotation {} (fun _ => false) false (.list (.named "Any".toList)) = "Optional[List[Any]]".toList ∧
    (denote (.app Dcg.Sem.Typing.sOptional [.app "List".toList [.atom "Any".toList]])).show
      = "{list(Any);None}".toList ∧
    (gqlDenote (.list (.named "Any".toList))).show = "{list({Any;None});None}".toList := by
  decide +kernel

theorem rendered_hint_full_false : ¬ RenderedHintMirrorsType := by
  intro h
  obtain ⟨e, hw, hp, hd⟩ := h {} rfl (fun _ => false) false (.list (.named "Any".toList)) (by decide)
  rw [type_named_any_loses_nullability.1] at hp
  have he : e = .app Dcg.Sem.Typing.sOptional [.app "List".toList [.atom "Any".toList]] :=
    Dcg.Props.C13.hint_unambiguous e _ hw (by decide) (by rw [← hp]; decide)
  subst he
  have hd' : denote (.app Dcg.Sem.Typing.sOptional [.app "List".toList [.atom "Any".toList]])
      = gqlDenote (.list (.named "Any".toList)) := hd
  have := congrArg Dcg.Sem.Typing.Ty.show hd'
  rw [type_named_any_loses_nullability.2.1, type_named_any_loses_nullability.2.2] at this
  exact absurd this (by decide)

/-- THE `|` SPELLING (`use_union_operator`), proved as well, same hypothesis: the annotation is the
printed form of the PEP 604 expression `X | None` per nullable level, and that expression denotes the
declared GraphQL type. What makes it true here although C13 refutes spelling invariance in general
(`spelling_changes_meaning`): `_remove_none_from_union` splits the text at EVERY `|`, also inside
brackets, and drops the parts equal to `None`; on the text of a GraphQL chain every part either carries
a bracket (`List[Int`, `None]`) or is the type name, so nothing is dropped and `get_optional_type`
only appends ` | None` (Proofs/GraphqlBridgeOp.lean, a string-level proof about `re.split`).
The expression is exhibited, not claimed unique: the printer is not injective on `|` expressions. -/
theorem rendered_hint_mirrors_type_operator (o : Opts) (ho : o.unionOp = true) (isEnum : List Char → Bool)
    (fo : Bool) (t : GType) (hwf : t.wf = true) (hn : okName t.baseName = true) :
    ∃ e : TExpr, annotation o isEnum fo t = print e ∧ denote e = gqlDenote (declared fo t) := by
  have hn' : okName (unroll (declared fo t) true).typeName = true := by
    rw [unroll_typeName, baseName_declared]; exact hn
  refine ⟨Dcg.Proofs.GraphqlBridgeOp.chainB o (unroll (declared fo t) true), ?_, ?_⟩
  · rw [Dcg.Proofs.GraphqlBridgeOp.print_chainB]
    exact Dcg.Proofs.GraphqlBridgeOp.annotationB_eq o ho isEnum fo t hwf hn
  · rw [(Dcg.Proofs.GraphqlBridgeOp.denote_chainB o _ hn').2.2, denChain_unroll]
    rfl

/-- non-vacuity, `|` spelling: `[[Color!]]!` and `[Int]` -/
example :
    annotation { unionOp := true } (fun _ => true) false
      (.nonNull (.list (.list (.nonNull (.named "Color".toList))))) = "List[List[Color] | None]".toList ∧
    annotation { unionOp := true, stdColl := true } (fun _ => false) false (.list (.named "Int".toList))
      = "list[Int | None] | None".toList ∧
    (gqlDenote (.list (.named "Int".toList))).show = "{list({Int;None});None}".toList := by
  decide +kernel

/-- Every spelling the GraphQL parser can be asked for — `List` / `list`, `Optional[…]` / `| None` —
gives an annotation with the same meaning: that of the declared type. -/
theorem rendered_hint_all_spellings (unionOp stdColl : Bool) (isEnum : List Char → Bool) (fo : Bool)
    (t : GType) (hwf : t.wf = true) (hn : okName t.baseName = true) :
    ∃ e : TExpr, annotation (gqlOpts unionOp stdColl) isEnum fo t = print e ∧
      denote e = gqlDenote (declared fo t) := by
  cases unionOp with
  | true => exact rendered_hint_mirrors_type_operator _ rfl isEnum fo t hwf hn
  | false =>
    obtain ⟨e, _, h1, _, h2⟩ := rendered_hint_mirrors_type (gqlOpts false stdColl) rfl isEnum fo t hwf hn
    exact ⟨e, h1, h2⟩

/-- the witness lies outside `okName`, as it must -/
example : okName "Any".toList = false ∧ okName "Date".toList = true := by decide

end rendering

/-! ### unions: what the alias line evaluates, and when it is executed

`Name: TypeAlias = <right-hand side>` is executed when the module is imported (member annotations are
not: the module starts with `from __future__ import annotations`). `Model.GraphqlOrder`:
* `unionTemplate` (GENERATED from `model/template/Union.jinja2` on every run): the `{% if %}` tree and
  every `{{ … }}` site with the Python lexical state it is in; `unionTemplateVars` (GENERATED from
  `parse_union`): the template variables the parser sets from its options;
* `occs env members tpl`  the member occurrences of the rendered alias, each eager (code) or deferred
                           (inside a string literal: a forward reference);
* `emitOrder order defs`  the order of the module's definitions: `parse_raw` visits the kinds in
                           `parse_order`, `sort_data_models` places a model once its reference classes
                           (interfaces; enum-typed fields) are placed, pass after pass;
* `early` / `late`        placed by the first pass / kept back by it;
* `definedBefore l a b`   `a` is bound when the line defining `b` runs.
The real alias text (eager and quoted names by `ast`) and the real order of the module's definitions
are compared with `occs` and `emitOrder` on every run (vlib/props/c17_order.py). -/

section ordering
open Dcg.Model.GraphqlOrder Dcg.Proofs.GraphqlOrder

/-- the kinds of `GraphQLParser.parse_order` -/
def parseKinds : List Kind := parseOrder.filterMap Kind.ofString

/-- The translator understood the whole Union template (every test; no expression other than the class
name and member names in code), so it renders for every non-empty member list and every setting of
the template variables: the theorems below do not hold vacuously. -/
theorem union_template_understood (env : String → Bool) (members : List Name) (hne : members ≠ []) :
    tplKnown unionTemplate = true ∧ safeOther unionTemplate = true ∧
    ∃ os, occs env members unionTemplate = some os :=
  have h : tplKnown unionTemplate = true := by decide
  ⟨h, by decide, occs_total env members hne unionTemplate h⟩

/-- A union alias NEVER looks a member up at import: whatever the template variables are (description,
anything `parse_union` or the user passes in `extra_template_data`) and however many members the union
has — ONE included: the one-member form `Uu: TypeAlias = Union['Alpha']` quotes its member like the
list form does — every member of the rendered alias sits inside a string literal, a forward
reference. So the alias cannot raise NameError, wherever the member classes are emitted.
(From the side condition `safeFrom 1 unionTemplate`, decided by the kernel on the generated template.
Before the repair of C17-single-member-union only `safeFrom 2` held and this theorem carried the
hypothesis `2 ≤ members.length`.) -/
theorem union_alias_members_quoted (env : String → Bool) (members : List Name) (hne : members ≠ [])
    (os : List Occ) (h : occs env members unionTemplate = some os) :
    (∀ o ∈ os, o.eager = false) ∧ eagerMembers os = [] :=
  have hs : safeFrom 1 unionTemplate = true := by decide
  have hlen : 1 ≤ members.length := by
    cases members with
    | nil => exact absurd rfl hne
    | cons _ _ => simp
  have h1 := safeFrom_sound 1 env members hlen unionTemplate os hs h
  ⟨h1, eagerMembers_nil_of_none_eager os h1⟩

/-- non-vacuity: three members and ONE member, with and without a description — all quoted, in order,
nothing evaluated -/
example :
    let ms := ["Aa".toList, "Bb".toList, "Cc".toList]
    (occs (fun _ => false) ms unionTemplate).map quotedMembers = some ms ∧
    (occs (fun _ => false) ms unionTemplate).map eagerMembers = some [] ∧
    (occs (fun v => v == "description") ms unionTemplate).map quotedMembers = some ms ∧
    (occs (fun _ => false) ["Alpha".toList] unionTemplate).map quotedMembers = some ["Alpha".toList] ∧
    (occs (fun _ => false) ["Alpha".toList] unionTemplate).map eagerMembers = some [] ∧
    (occs (fun v => v == "description") ["Alpha".toList] unionTemplate).map eagerMembers = some [] := by decide

/-- The alias lists EXACTLY the members: with two or more members the rendered alias contains — on
every path, whatever the template variables are — every member once, in the order of
`union_object.types`, and no other expression; with one member, exactly that member.
(From the side conditions `shapeA know2 unionTemplate = [eachMember]` and `shapeA know1 unionTemplate ∈
{[firstMember], [eachMember]}`, decided by the kernel on the generated template.) -/
theorem union_alias_lists_exactly_members (env : String → Bool) (members : List Name)
    (os : List Occ) (h : occs env members unionTemplate = some os) :
    (2 ≤ members.length → os.map Occ.forget = members.map some) ∧
    (∀ m, members = [m] → os.map Occ.forget = [some m]) := by
  constructor
  · intro h2
    have hs : shapeA know2 unionTemplate = some [.eachMember] := by decide
    have := shapeA_sound know2 env members (know2_trueOf _ h2) unionTemplate _ os hs h
    simpa [siteForget] using this
  · intro m hm
    subst hm
    have hs : (shapeA know1 unionTemplate == some [.firstMember] || shapeA know1 unionTemplate == some [.eachMember]) = true := by
      decide
    simp only [Bool.or_eq_true, beq_iff_eq] at hs
    rcases hs with hs | hs
    · have := shapeA_sound know1 env [m] know1_trueOf unionTemplate _ os hs h
      simpa [siteForget] using this
    · have := shapeA_sound know1 env [m] know1_trueOf unionTemplate _ os hs h
      simpa [siteForget] using this

/-- Whatever the alias evaluates eagerly is one of the union's members (nothing else of the template
is in code), and the identifiers of its literal text are bound by `DataTypeUnion.DEFAULT_IMPORTS`. -/
theorem union_alias_eager_names_are_members (env : String → Bool) (members : List Name)
    (os : List Occ) (h : occs env members unionTemplate = some os) :
    (∀ n ∈ eagerMembers os, n ∈ members) ∧
    unionLiteralNames.all (fun n => unionDefaultImports.contains n) = true := by
  refine ⟨fun n hn => ?_, by decide⟩
  exact occs_members env members unionTemplate os h n true ((mem_eagerMembers os n).mp hn)

/-- `parse_order` names kinds only, and ends with UNION, which occurs nowhere else in it: every union
alias is handed to `sort_data_models` after every class. -/
theorem parse_order_unions_last :
    parseOrder.all (fun k => (Kind.ofString k).isSome) = true ∧
    parseKinds = parseKinds.dropLast ++ [.union] ∧ parseKinds.dropLast.contains .union = false ∧
    (∀ k : Kind, k ≠ .union → k ∈ parseKinds.dropLast) := by
  refine ⟨by decide, by decide, by decide, ?_⟩
  intro k hk
  cases k <;> first | exact absurd rfl hk | decide

/-- Nothing is lost or invented by the ordering: the emitted definitions are the named types of the
schema, kind by kind. -/
theorem emit_order_is_permutation (defs : List Def) :
    List.Perm (emitOrder parseKinds defs) ((results parseKinds defs).map (·.name)) := by
  have := sortLoop_perm (nodes parseKinds defs).length [] (nodes parseKinds defs)
  simpa [emitOrder, emit, nodes, List.map_map, Function.comp_def] using this

/-- LATE: a type that the first pass of `sort_data_models` keeps back (one of its interfaces, or the
enum of one of its fields, is not placed yet when it is visited — e.g. it implements an interface that
implements an interface visited later) is NOT bound when the alias of ANY union is executed. This is
why a union alias must not evaluate its members (`union_alias_members_quoted`). Still true after the
repair of C17-single-member-union: the repair changed what the one-member alias evaluates, not the
order of the definitions. -/
theorem late_member_unbound_at_alias (defs : List Def)
    (hnd : ((nodes parseKinds defs).map (·.name)).Nodup) (u : Def) (hu : u ∈ defs) (huk : u.kind = .union)
    (m : Name) (hm : late parseKinds defs m = true) :
    definedBefore (emitOrder parseKinds defs) m u.name = false :=
  late_unbound parseKinds (by decide) defs hnd u hu huk m hm

/-- EARLY: a class that the first pass places is bound when any union alias is executed. -/
theorem early_member_bound_at_alias (defs : List Def)
    (hnd : ((nodes parseKinds defs).map (·.name)).Nodup) (u : Def) (hu : u ∈ defs) (huk : u.kind = .union)
    (d : Def) (hd : d ∈ defs) (hdk : d.kind ≠ .union) (he : early parseKinds defs d.name = true) :
    definedBefore (emitOrder parseKinds defs) d.name u.name = true := by
  have hpk := parse_order_unions_last.2.1
  rw [hpk] at hnd he ⊢
  exact early_bound _ defs hnd u hu huk d hd (parse_order_unions_last.2.2.2 d.kind hdk) he

/-- every type of the schema is early or late -/
theorem member_early_or_late (defs : List Def) (d : Def) (hd : d ∈ defs) :
    early parseKinds defs d.name = true ∨ late parseKinds defs d.name = true := by
  refine early_or_late parseKinds defs d ((mem_results parseKinds defs d).mpr ⟨hd, ?_⟩)
  cases d.kind <;> decide

/-- FULL STRENGTH: every name the alias line of a union evaluates at import is bound by then.
(FALSE of the tree before the repair of C17-single-member-union — the one-member alias was the bare
member name and `singleMemberWitness` below refuted it; TRUE since: `aliases_resolve_full`.) -/
def AliasesResolve : Prop :=
  ∀ (env : String → Bool) (defs : List Def), ((nodes parseKinds defs).map (·.name)).Nodup →
    ∀ u ∈ defs, u.kind = .union → u.members ≠ [] →
      (∀ m ∈ u.members, ∃ d ∈ defs, d.name = m ∧ d.kind = .object) →
      aliasResolves unionTemplate env parseKinds defs u = true

/-- The alias of EVERY union resolves at import: all settings of the template variables, any number of
members (one included), wherever `sort_data_models` puts the member classes — early or late — and
whatever the schema is (not even the hypotheses of `AliasesResolve` on the schema are needed: the alias
evaluates no member at all, `union_alias_members_quoted`). Replaces `aliases_resolve_partial`, which
had to assume that the member of a one-member union is early. -/
theorem aliases_resolve (env : String → Bool) (order : List Kind) (defs : List Def) (u : Def)
    (hne : u.members ≠ []) :
    aliasResolves unionTemplate env order defs u = true := by
  obtain ⟨_, _, os, hos⟩ := union_template_understood env u.members hne
  simp only [aliasResolves, hos, (union_alias_members_quoted env u.members hne os hos).2]
  rfl

/-- the full statement, formerly refuted (`aliases_resolve_full_false`), is a theorem -/
theorem aliases_resolve_full : AliasesResolve :=
  fun env defs _ u _ _ hne _ => aliases_resolve env parseKinds defs u hne

/-- the schema of the REPAIRED finding C17-single-member-union: `union Uu = Alpha`, `type Alpha implements
Aged & Base`, `interface Aged implements Base`, `interface Base` (type_map order is lexicographic) -/
def singleMemberWitness : List Def := [
  { name := "Aged".toList, kind := .interface, interfaces := ["Base".toList], fieldTypes := ["Uu".toList] },
  { name := "Alpha".toList, kind := .object, interfaces := ["Aged".toList, "Base".toList], fieldTypes := ["Uu".toList] },
  { name := "Base".toList, kind := .interface, fieldTypes := ["Uu".toList] },
  { name := "Boolean".toList, kind := .scalar },
  { name := "String".toList, kind := .scalar },
  { name := "Uu".toList, kind := .union, members := ["Alpha".toList] }]

/-- THE FUEL SUFFICES (termination half of the ordering model): when the reference graph of the schema
is closed and acyclic — every reference of a type (an interface it implements, the enum of a field) is
a type of the schema of smaller rank; GraphQL validation guarantees it: interfaces cannot implement
each other in a cycle and an enum refers to nothing — the passes of `sort_data_models` place every
definition; the fall-back of the loop is never taken, for any number of types. -/
theorem emit_complete_of_acyclic (defs : List Def) (rank : Name → Nat)
    (h : ∀ d ∈ defs, ∀ r ∈ refs defs d, r = d.name ∨ ∃ d' ∈ defs, d'.name = r ∧ rank r < rank d.name) :
    (emit parseKinds defs).2 = true := by
  apply sortLoop_complete rank _ [] _ (Nat.le_refl _)
  intro nd hnd r hr
  obtain ⟨d, hd, rfl⟩ := List.mem_map.mp hnd
  have hdd := ((mem_results parseKinds defs d).mp hd).1
  rcases h d hdd r hr with h1 | ⟨d', hd', hn, hlt⟩
  · exact Or.inl h1
  · refine Or.inr (Or.inr ⟨{ name := d'.name, refs := refs defs d' }, ?_, hn, hlt⟩)
    refine List.mem_map.mpr ⟨d', (mem_results parseKinds defs d').mpr ⟨hd', ?_⟩, rfl⟩
    cases d'.kind <;> decide

/-- non-vacuity: the schema of the former refutation (below) is ranked by the length of … its own chain
(`Base` 0, `Aged` 1, `Alpha` 2), and is emitted completely -/
example : (emit parseKinds singleMemberWitness).2 = true ∧
    ∀ d ∈ singleMemberWitness, ∀ r ∈ refs singleMemberWitness d, r = d.name ∨
      ∃ d' ∈ singleMemberWitness, d'.name = r ∧
        (fun n => if n = "Aged".toList then 1 else if n = "Alpha".toList then 2 else 0) r <
        (fun n => if n = "Aged".toList then 1 else if n = "Alpha".toList then 2 else 0) d.name := by
  decide

/-- The former REFUTATION of the full statement, now holding (repaired finding
C17-single-member-union): `Aged` is visited before `Base`, so it is late, and so is `Alpha`; the alias of
`Uu` is emitted by the first pass, BEFORE class `Alpha` — and resolves, because it is
`Uu: TypeAlias = Union['Alpha']` and looks nothing up. (Kernel-evaluated on the generated template: on
the tree before the repair the last conjunct is `false`.) -/
theorem single_member_alias_before_member_resolves :
    emitOrder parseKinds singleMemberWitness =
      ["Boolean".toList, "String".toList, "Base".toList, "Uu".toList, "Aged".toList, "Alpha".toList] ∧
    late parseKinds singleMemberWitness "Alpha".toList = true ∧
    definedBefore (emitOrder parseKinds singleMemberWitness) "Alpha".toList "Uu".toList = false ∧
    aliasResolves unionTemplate (fun _ => false) parseKinds singleMemberWitness
      { name := "Uu".toList, kind := .union, members := ["Alpha".toList] } = true := by decide

/-- non-vacuity of `AliasesResolve` / `aliases_resolve_full`: its hypotheses hold of the former witness
(distinct names, `Uu` a union of the schema, non-empty, its member an object type of the schema) -/
example :
    ((nodes parseKinds singleMemberWitness).map (·.name)).Nodup ∧
    ({ name := "Uu".toList, kind := .union, members := ["Alpha".toList] } : Def) ∈ singleMemberWitness ∧
    (∀ m ∈ ["Alpha".toList], ∃ d ∈ singleMemberWitness, d.name = m ∧ d.kind = .object) := by
  refine ⟨by decide, by decide, ?_⟩
  intro m hm
  simp at hm; subst hm
  exact ⟨{ name := "Alpha".toList, kind := .object, interfaces := ["Aged".toList, "Base".toList],
           fieldTypes := ["Uu".toList] }, by decide, rfl, rfl⟩

/-- the same schema with a second member `Beta` (late member and all), and a one-member union over
the early `Beta` -/
example :
    let defs : List Def := singleMemberWitness.dropLast ++
      [{ name := "Beta".toList, kind := .object }, { name := "Uu".toList, kind := .union, members := ["Alpha".toList, "Beta".toList] },
       { name := "Vv".toList, kind := .union, members := ["Beta".toList] }]
    ((nodes parseKinds defs).map (·.name)).Nodup ∧
    late parseKinds defs "Alpha".toList = true ∧ early parseKinds defs "Beta".toList = true ∧
    aliasResolves unionTemplate (fun _ => false) parseKinds defs
      { name := "Uu".toList, kind := .union, members := ["Alpha".toList, "Beta".toList] } = true ∧
    aliasResolves unionTemplate (fun _ => false) parseKinds defs
      { name := "Vv".toList, kind := .union, members := ["Beta".toList] } = true := by decide

end ordering

/-! ### enums: member VALUES vs member NAMES

`GraphQLParser.parse_enum` sends every value name through the enum field-name resolver (keywords get `_`, `mro`
is reserved, a leading underscore gets the special prefix, `capitalise_enum_members` upper-cases, collisions are
numbered) to obtain the member NAME; the member VALUE is written from the GraphQL name itself. The model is C09's
`Dcg.Model.Enum.parseGraphqlEnum` (the loop both enum call sites run), tied to the real parser on every run by the
campaign `gqlenum.values` of vlib/props/c17_enum.py. -/
section enums
open Dcg.Model.Names Dcg.Model.Enum Dcg.Proofs.GraphqlEnum Dcg.Proofs.EnumSites

/-- FULL STRENGTH, every list of GraphQL value names, EVERY setting of the resolver options (capitalise, snake
case, special prefix, aliases …) and of the case tables: whenever the member loop of `parse_enum` returns, the
Enum class has exactly one member per value name and the VALUES Python reads back from the members' right-hand
sides are the GraphQL value names themselves, verbatim and in order — whatever the resolver did to the member
NAMES. No hypothesis on the options: the value never passes through the resolver. -/
theorem graphql_enum_values_verbatim (E : Env) (cfg : Cfg) (names : List (List Char)) (ms : List Dcg.Model.Enum.Member)
    (h : parseGraphqlEnum E cfg names = .ok ms) :
    ms.length = names.length ∧
    ms.map (fun m => evalDefault m.2) = names.map (fun n => some (.str n)) := by
  unfold parseGraphqlEnum at h
  refine ⟨gql_fold_length names names 0 graphqlInit ms h, ?_⟩
  have hd := graphql_fold_defaults names names 0 graphqlInit ms h
  have e : ms.map (fun m => evalDefault m.2) = (ms.map (·.2)).map evalDefault := by simp
  rw [e, hd, List.map_map]
  exact List.map_congr_left (fun n _ => gql_value_read_back n)

/-- non-vacuity: the loop returns on names the resolver must rename — a keyword, `mro`, a leading underscore,
an Enum attribute, and two names that collide after renaming — and the values are the names -/
example :
    parseGraphqlEnum pyEnv {} ["in".toList, "mro".toList, "_x".toList, "name".toList, "and".toList, "and_".toList] =
      .ok [("in_".toList, .lit "'in'".toList), ("mro_".toList, .lit "'mro'".toList), ("field_x".toList, .lit "'_x'".toList),
           ("name".toList, .lit "'name'".toList), ("and_".toList, .lit "'and'".toList), ("and__1".toList, .lit "'and_'".toList)] ∧
    parseGraphqlEnum pyEnv { capitalise := true } ["red".toList, "RED".toList] =
      .ok [("RED".toList, .lit "'red'".toList), ("red_1".toList, .lit "'RED'".toList)] := by
  decide +kernel

/-- the values do not depend on the naming options: two runs over the same value names under ANY two settings
(e.g. with and without `capitalise_enum_members`) give Enum classes with the same values in the same order -/
theorem graphql_enum_values_option_independent (E E' : Env) (cfg cfg' : Cfg) (names : List (List Char))
    (ms ms' : List Dcg.Model.Enum.Member) (h : parseGraphqlEnum E cfg names = .ok ms) (h' : parseGraphqlEnum E' cfg' names = .ok ms') :
    ms.map (fun m => evalDefault m.2) = ms'.map (fun m => evalDefault m.2) := by
  rw [(graphql_enum_values_verbatim E cfg names ms h).2, (graphql_enum_values_verbatim E' cfg' names ms' h').2]

/-- non-vacuity: both runs return and the member names differ -/
example :
    parseGraphqlEnum pyEnv {} ["asc".toList] = .ok [("asc".toList, .lit "'asc'".toList)] ∧
    parseGraphqlEnum pyEnv { capitalise := true } ["asc".toList] = .ok [("ASC".toList, .lit "'asc'".toList)] := by
  decide +kernel

/-- the value of a member is NOT a function of its name: writing the value from the sanitised member name
(`repr(field_name)`) would change the Enum — witness the value `in`, whose member is `in_` -/
theorem graphql_enum_value_is_not_member_name :
    ∃ names ms, parseGraphqlEnum pyEnv {} names = .ok ms ∧
      ms.map (fun m => evalDefault m.2) ≠ ms.map (fun m => some (.str m.1)) :=
  ⟨["in".toList], [("in_".toList, .lit "'in'".toList)], by decide +kernel, by decide +kernel⟩

end enums

end Dcg.Props.C17
