import Dcg.Model.Graphql
import Dcg.Proofs.Graphql
import Dcg.Gen.GraphqlTables
/-
C17 — the shape of a GraphQL schema is mirrored by the generated models.
Only property theorems live here; helper lemmas are in Dcg/Proofs/Graphql.lean.
The model (`Dcg/Model/Graphql.lean`) is a transliteration of `GraphQLParser.parse_field` /
`parse_object_like`; its agreement with the code is tested on every run (vlib/props/c17.py).
-/
namespace Dcg.Props.C17
open Dcg.Model.Graphql Dcg.Proofs.Graphql Dcg.Gen.GraphqlTables

/-! ### wrappers: `[t]`, `t!` -/

/-- FULL STRENGTH, all type expressions GraphQL can express (no `!` directly inside `!`): reading the
IR of a field back — a level is nullable iff its `DataType` is optional, the outermost level is
nullable iff the node is optional or the field is not required — gives exactly the declared type:
list depth, the nullability of every level and the named type are preserved. -/
theorem wrappers_roundtrip (t : GType) (h : t.wf = true) : rebuild (parseField false t) = t := by
  have := unroll_denotes t h true
  rw [expect_true] at this
  simpa [rebuild, parseField, FieldIR.topNullable, rebuildDT] using this

/-- non-vacuity: `[[Int!]]!` is well-formed and is read back as itself -/
example : (GType.nonNull (.list (.list (.nonNull (.named "Int".toList))))).wf = true ∧
    rebuild (parseField false (.nonNull (.list (.list (.nonNull (.named "Int".toList)))))) =
      .nonNull (.list (.list (.nonNull (.named "Int".toList)))) := by decide

/-- A field is required exactly when its outermost wrapper is `!` (all type expressions). -/
theorem required_iff_nonnull (t : GType) : (parseField false t).required = t.isNonNull := by
  cases t with
  | named n => rfl
  | list t => rfl
  | nonNull t => simp [parseField, unroll_optional_nonNull, GType.isNonNull]

/-- …and a field that is not required is nullable at the top (it renders as `Optional[...] = None`). -/
theorem nullable_iff_not_required (t : GType) :
    (parseField false t).topNullable = !(parseField false t).required := by
  simp [FieldIR.topNullable, parseField]

/-- The number of nested list levels is preserved, whatever `force_optional_for_required_fields` is. -/
theorem list_depth_preserved (fo : Bool) (t : GType) : (parseField fo t).dt.depth = t.listDepth := by
  simp [parseField, unroll_depth]

/-- The innermost node names the type the wrappers were applied to. -/
theorem named_type_preserved (fo : Bool) (t : GType) : (parseField fo t).dt.typeName = t.baseName := by
  simp [parseField, unroll_typeName]

/-- `force_optional_for_required_fields` removes the outermost `!` and nothing else. -/
theorem force_optional_only_outermost (t : GType) (h : t.wf = true) :
    (parseField true t).required = false ∧ rebuild (parseField true t) = t.nullableTop := by
  refine ⟨rfl, ?_⟩
  have hd := unroll_denotes t h true
  rw [expect_true] at hd
  have ho := unroll_optional t h true
  cases t with
  | named n => rfl
  | list t =>
    simp only [unroll, rebuildDT, DT.optional, wrap, if_true] at hd
    simpa [rebuild, parseField, FieldIR.topNullable, GType.nullableTop, wrap, unroll, DT.optional] using hd
  | nonNull s =>
    simp only [GType.isNonNull, Bool.not_true, Bool.and_false] at ho
    simp only [rebuildDT, ho, wrap] at hd
    simpa [rebuild, parseField, FieldIR.topNullable, GType.nullableTop, wrap] using hd

example : rebuild (parseField true (.nonNull (.list (.nonNull (.named "A".toList))))) =
    .list (.nonNull (.named "A".toList)) := by decide

/-! ### object-like types -/

/-- One member per GraphQL field, in the order of the fields, with the field's name and the IR of
its type; then the `__typename` member whose literal is the type's own name. -/
theorem one_member_per_field_plus_typename (fo : Bool) (n : List Char)
    (fs : List (List Char × GType)) (is : List (List Char)) :
    (parseObjectLike fo n fs is).members.length = fs.length + 1 ∧
    (parseObjectLike fo n fs is).members.dropLast = fs.map (fun f => .field f.1 (parseField fo f.2)) ∧
    (parseObjectLike fo n fs is).members.getLast? = some (.typename n) := by
  simp [parseObjectLike]

/-- The implemented interfaces are exactly the base classes, in the same order. -/
theorem interfaces_are_bases (fo : Bool) (n : List Char) (fs : List (List Char × GType))
    (is : List (List Char)) : (parseObjectLike fo n fs is).bases = is := rfl

/-! ### generated tables (re-checked by the kernel against the code on every run) -/

/-- the Python type whose JSON values are those of the predefined GraphQL scalar (authored, from the
GraphQL specification §3.5) -/
def specScalar : List (String × String) :=
  [("Int", "int"), ("Float", "float"), ("String", "str"), ("Boolean", "bool"), ("ID", "str")]

/-- Every scalar graphql-core predefines has an entry in DEFAULT_GRAPHQL_SCALAR_TYPES and the entry is
the Python type of its JSON values; nothing else is in the table; the fallback is a Python builtin. -/
theorem scalar_table_total :
    builtinScalars.all (fun s => (defaultScalarTypes.lookup s).isSome
        && defaultScalarTypes.lookup s == specScalar.lookup s) = true ∧
    defaultScalarTypes.all (fun e => builtinScalars.contains e.1) = true ∧
    ["str", "int", "float", "bool"].contains defaultScalarType = true := by decide

/-- Every kind a named GraphQL type can have is collected (`support_graphql_types`), has a parse
method and is rendered (`parse_order`), each exactly once. -/
theorem kinds_all_supported :
    namedTypeKinds.all (fun k => parseOrder.contains k && supportKinds.contains k
        && (kindMethods.lookup k).isSome) = true ∧
    parseOrder.all (fun k => namedTypeKinds.contains k) = true ∧
    parseOrder.length = namedTypeKinds.length := by decide

/-- The `__typename` member: attribute `typename__`, wire name `__typename`, `Literal[<type name>]`,
default `<type name>`, not required. -/
theorem typename_field_shape :
    typenameField.lookup "name" = some "typename__" ∧
    typenameField.lookup "alias" = some "__typename" ∧
    typenameField.lookup "literals" = some "[NAME]" ∧
    typenameField.lookup "default" = some "NAME" ∧
    typenameField.lookup "required" = some "False" ∧
    typenameField.lookup "has_default" = some "True" := by decide

end Dcg.Props.C17
