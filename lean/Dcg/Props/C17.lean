import Dcg.Model.Graphql
import Dcg.Proofs.Graphql
import Dcg.Gen.GraphqlTables
import Dcg.Proofs.GraphqlBridge
import Dcg.Proofs.GraphqlBridgeOp
/-
C17 — the shape of a GraphQL schema is mirrored by the generated models.
Only property theorems live here; helper lemmas are in Dcg/Proofs/Graphql.lean.
The model (`Dcg/Model/Graphql.lean`) is a transliteration of `GraphQLParser.parse_field` /
`parse_object_like`; its agreement with the code is tested on every run (vlib/props/c17.py).
-/
namespace Dcg.Props.C17
open Dcg.Model.Graphql Dcg.Proofs.Graphql Dcg.Gen.GraphqlTables

/-! ### wrappers: `[t]`, `t!` -/

/-- FULL STRENGTH, all type expressions GraphQL can express (no `!` directly inside `!`): reading the
IR of a field back — a level is nullable iff its `DataType` is optional, the outermost level is
nullable iff the node is optional or the field is not required — gives exactly the declared type:
list depth, the nullability of every level and the named type are preserved. -/
theorem wrappers_roundtrip (t : GType) (h : t.wf = true) : rebuild (parseField false t) = t := by
  have := unroll_denotes t h true
  rw [expect_true] at this
  simpa [rebuild, parseField, FieldIR.topNullable, rebuildDT] using this

/-- non-vacuity: `[[Int!]]!` is well-formed and is read back as itself -/
example : (GType.nonNull (.list (.list (.nonNull (.named "Int".toList))))).wf = true ∧
    rebuild (parseField false (.nonNull (.list (.list (.nonNull (.named "Int".toList)))))) =
      .nonNull (.list (.list (.nonNull (.named "Int".toList)))) := by decide

/-- A field is required exactly when its outermost wrapper is `!` (all type expressions). -/
theorem required_iff_nonnull (t : GType) : (parseField false t).required = t.isNonNull := by
  cases t with
  | named n => rfl
  | list t => rfl
  | nonNull t => simp [parseField, unroll_optional_nonNull, GType.isNonNull]

/-- …and a field that is not required is nullable at the top (it renders as `Optional[...] = None`). -/
theorem nullable_iff_not_required (t : GType) :
    (parseField false t).topNullable = !(parseField false t).required := by
  simp [FieldIR.topNullable, parseField]

/-- The number of nested list levels is preserved, whatever `force_optional_for_required_fields` is. -/
theorem list_depth_preserved (fo : Bool) (t : GType) : (parseField fo t).dt.depth = t.listDepth := by
  simp [parseField, unroll_depth]

/-- The innermost node names the type the wrappers were applied to. -/
theorem named_type_preserved (fo : Bool) (t : GType) : (parseField fo t).dt.typeName = t.baseName := by
  simp [parseField, unroll_typeName]

/-- `force_optional_for_required_fields` removes the outermost `!` and nothing else. -/
theorem force_optional_only_outermost (t : GType) (h : t.wf = true) :
    (parseField true t).required = false ∧ rebuild (parseField true t) = t.nullableTop := by
  refine ⟨rfl, ?_⟩
  have hd := unroll_denotes t h true
  rw [expect_true] at hd
  have ho := unroll_optional t h true
  cases t with
  | named n => rfl
  | list t =>
    simp only [unroll, rebuildDT, DT.optional, wrap, if_true] at hd
    simpa [rebuild, parseField, FieldIR.topNullable, GType.nullableTop, wrap, unroll, DT.optional] using hd
  | nonNull s =>
    simp only [GType.isNonNull, Bool.not_true, Bool.and_false] at ho
    simp only [rebuildDT, ho, wrap] at hd
    simpa [rebuild, parseField, FieldIR.topNullable, GType.nullableTop, wrap] using hd

example : rebuild (parseField true (.nonNull (.list (.nonNull (.named "A".toList))))) =
    .list (.nonNull (.named "A".toList)) := by decide

/-! ### object-like types -/

/-- One member per GraphQL field, in the order of the fields, with the field's name and the IR of
its type; then the `__typename` member whose literal is the type's own name. -/
theorem one_member_per_field_plus_typename (fo : Bool) (n : List Char)
    (fs : List (List Char × GType)) (is : List (List Char)) :
    (parseObjectLike fo n fs is).members.length = fs.length + 1 ∧
    (parseObjectLike fo n fs is).members.dropLast = fs.map (fun f => .field f.1 (parseField fo f.2)) ∧
    (parseObjectLike fo n fs is).members.getLast? = some (.typename n) := by
  simp [parseObjectLike]

/-- The implemented interfaces are exactly the base classes, in the same order. -/
theorem interfaces_are_bases (fo : Bool) (n : List Char) (fs : List (List Char × GType))
    (is : List (List Char)) : (parseObjectLike fo n fs is).bases = is := rfl

/-! ### generated tables (re-checked by the kernel against the code on every run) -/

/-- the Python type whose JSON values are those of the predefined GraphQL scalar (authored, from the
GraphQL specification §3.5) -/
def specScalar : List (String × String) :=
  [("Int", "int"), ("Float", "float"), ("String", "str"), ("Boolean", "bool"), ("ID", "str")]

/-- Every scalar graphql-core predefines has an entry in DEFAULT_GRAPHQL_SCALAR_TYPES and the entry is
the Python type of its JSON values; nothing else is in the table; the fallback is a Python builtin. -/
theorem scalar_table_total :
    builtinScalars.all (fun s => (defaultScalarTypes.lookup s).isSome
        && defaultScalarTypes.lookup s == specScalar.lookup s) = true ∧
    defaultScalarTypes.all (fun e => builtinScalars.contains e.1) = true ∧
    ["str", "int", "float", "bool"].contains defaultScalarType = true := by decide

/-- Every kind a named GraphQL type can have is collected (`support_graphql_types`), has a parse
method and is rendered (`parse_order`), each exactly once. -/
theorem kinds_all_supported :
    namedTypeKinds.all (fun k => parseOrder.contains k && supportKinds.contains k
        && (kindMethods.lookup k).isSome) = true ∧
    parseOrder.all (fun k => namedTypeKinds.contains k) = true ∧
    parseOrder.length = namedTypeKinds.length := by decide

/-- The `__typename` member: attribute `typename__`, wire name `__typename`, `Literal[<type name>]`,
default `<type name>`, not required. -/
theorem typename_field_shape :
    typenameField.lookup "name" = some "typename__" ∧
    typenameField.lookup "alias" = some "__typename" ∧
    typenameField.lookup "literals" = some "[NAME]" ∧
    typenameField.lookup "default" = some "NAME" ∧
    typenameField.lookup "required" = some "False" ∧
    typenameField.lookup "has_default" = some "True" := by decide


/-! ### behind the IR: the annotation that is written for a field

Composition with C13's model of `DataType.type_hint` / `DataModelFieldBase.type_hint`
(`Model.Types`, `Sem.Typing`) through `Model.GraphqlBridge`:
* `annotation o isEnum fo t`  the text `field.type_hint` of the member `parse_field` builds for a field
                              of GraphQL type `t` (`fo` = force_optional_for_required_fields, `isEnum`
                              = which named types are enums: their leaf also carries a reference);
* `gqlDenote t`               what `t` means as a Python typing: list level ↦ `list[…]`, nullable level ↦
                              the alternative `None`, named type ↦ that name;
* `declared fo t`             `t`, without its outermost `!` under force-optional;
* `okName n`                  the named type is an identifier-like token other than `None`, `Any`, the
                              nine container names and `Union` / `Optional` / `Literal`.
The real `field.type_hint` of the member built by the real GraphQL parser is compared with
`annotation` on every run for all spellings (vlib/props/c17.py, campaign `gql.annotation`). -/

section rendering
open Dcg.Model.GraphqlBridge Dcg.Proofs.GraphqlBridge
open Dcg.Model.Types (Opts)
open Dcg.Sem.Typing (TExpr print denote)

/-- FULL STRENGTH (kept visible; FALSE of the code, see `type_named_any_loses_nullability`): for every
container spelling without the union operator, every well-formed type expression over ANY type name
and both settings of force-optional, the annotation is the printed form of a well-formed typing
expression that denotes the declared GraphQL type. -/
def RenderedHintMirrorsType : Prop :=
  ∀ (o : Opts), o.unionOp = false → ∀ (isEnum : List Char → Bool) (fo : Bool) (t : GType), t.wf = true →
    ∃ e : TExpr, Dcg.Proofs.Types.wfU e = true ∧ annotation o isEnum fo t = print e ∧
      denote e = gqlDenote (declared fo t)

/-- PARTIAL (unbounded nesting of `[ ]` and `!`; `List` / `list` / `Sequence` spellings; required and
force-optional; enum and non-enum leaves): when the named type is `okName`, the annotation text
written for the field is the printed form of a well-formed typing expression — of exactly one: parsing
the text back is unambiguous (C13 `hint_unambiguous`) — and that expression denotes exactly the
declared GraphQL type: a list level is a list, a nullable level has the alternative `None`, a `!`
level has not, the innermost name is the named type.
Composition: `parseField` (C17) ; `toTypes` ; C13 `typeHint_eq_print_typing` (string surgery =
structural rendering) ; `hintE` on a chain = `chainE` ; C13 `optional_keeps_alternatives_text` for the
member-level `Optional[…]` ; `denote (chainE …) = den …` by induction over the type expression. -/
theorem rendered_hint_mirrors_type (o : Opts) (ho : o.unionOp = false) (isEnum : List Char → Bool)
    (fo : Bool) (t : GType) (hwf : t.wf = true) (hn : okName t.baseName = true) :
    ∃ e : TExpr, Dcg.Proofs.Types.wfU e = true ∧ annotation o isEnum fo t = print e ∧
      (∀ e', Dcg.Proofs.Types.wfU e' = true → print e' = annotation o isEnum fo t → e' = e) ∧
      denote e = gqlDenote (declared fo t) := by
  have hn' : okName (unroll (declared fo t) true).typeName = true := by
    rw [unroll_typeName, baseName_declared]; exact hn
  have hw := wfU_chain o ho isEnum _ hn'
  have ha := annotation_eq o ho isEnum fo t hwf hn
  refine ⟨chainE o (unroll (declared fo t) true), hw, ha, ?_, ?_⟩
  · intro e' he' hp
    exact Dcg.Props.C13.hint_unambiguous e' _ he' hw (by rw [hp, ha])
  · rw [(denote_chain o _ hn').2.2, denChain_unroll]
    rfl

/-- non-vacuity: `[[Color!]]!` over an enum, typing spelling — the hypotheses hold, the text is the
expected one, and so is its meaning; under force-optional the outermost `!` is gone -/
example :
    let t : GType := .nonNull (.list (.list (.nonNull (.named "Color".toList))))
    t.wf = true ∧ okName t.baseName = true ∧
    annotation {} (fun _ => true) false t = "List[Optional[List[Color]]]".toList ∧
    (gqlDenote t).show = "list({list(Color);None})".toList ∧
    annotation { stdColl := true } (fun _ => true) true t = "Optional[list[Optional[list[Color]]]]".toList ∧
    (gqlDenote (declared true t)).show = "{list({list(Color);None});None}".toList := by
  decide +kernel

/-- The container spelling does not change the meaning: any two of `List` / `list` / `Sequence` give
annotations whose (unique) parses denote the same type — here as a corollary of
`rendered_hint_mirrors_type`; C13's `spelling_invariant_collections` says the same of the node hint
(`node_hint_spellings_agree`). -/
theorem rendered_hint_spelling_invariant (o o' : Opts) (ho : o.unionOp = false) (ho' : o'.unionOp = false)
    (isEnum : List Char → Bool) (fo : Bool) (t : GType) (hwf : t.wf = true) (hn : okName t.baseName = true) :
    ∃ e e' : TExpr, annotation o isEnum fo t = print e ∧ annotation o' isEnum fo t = print e' ∧
      denote e = denote e' := by
  obtain ⟨e, _, h1, _, h2⟩ := rendered_hint_mirrors_type o ho isEnum fo t hwf hn
  obtain ⟨e', _, h1', _, h2'⟩ := rendered_hint_mirrors_type o' ho' isEnum fo t hwf hn
  exact ⟨e, e', h1, h1', by rw [h2, h2']⟩

/-- the same at the level of the `DataType` chain, directly from C13: the chain of a field is a tree
with plain names that are not container names, so `spelling_invariant_collections` applies to it -/
theorem node_hint_spellings_agree (o o' : Opts) (ho : o.unionOp = false) (ho' : o'.unionOp = false)
    (isEnum : List Char → Bool) (fo : Bool) (t : GType) (hn : okName t.baseName = true) :
    denote (Dcg.Model.HintExpr.hintE o' (toTypes isEnum (parseField fo t).dt)).1 =
      denote (Dcg.Model.HintExpr.hintE o (toTypes isEnum (parseField fo t).dt)).1 := by
  have hn' : okName (parseField fo t).dt.typeName = true := by
    simp only [parseField]; rw [unroll_typeName]; exact hn
  exact (Dcg.Props.C13.spelling_invariant_collections o o' ho ho' _ (wfTree_toTypes isEnum _ hn')
    (freeTree_toTypes isEnum _ hn')).2.2

/-- REFUTATION of the full statement (known finding C17-type-named-Any): a GraphQL type called `Any`
(`scalar Any` is legal SDL). `type_hint` never wraps the text `Any` in `Optional[…]`, so the nullable
ELEMENT of `[Any]` is written `List[Any]`; with the alias `Any: TypeAlias = str` the generator emits,
`[null]` conforms to the GraphQL type and is rejected by the class. -/
theorem type_named_any_loses_nullability :
    annotation {} (fun _ => false) false (.list (.named "Any".toList)) = "Optional[List[Any]]".toList ∧
    (denote (.app Dcg.Sem.Typing.sOptional [.app "List".toList [.atom "Any".toList]])).show
      = "{list(Any);None}".toList ∧
    (gqlDenote (.list (.named "Any".toList))).show = "{list({Any;None});None}".toList := by
  decide +kernel

theorem rendered_hint_full_false : ¬ RenderedHintMirrorsType := by
  intro h
  obtain ⟨e, hw, hp, hd⟩ := h {} rfl (fun _ => false) false (.list (.named "Any".toList)) (by decide)
  rw [type_named_any_loses_nullability.1] at hp
  have he : e = .app Dcg.Sem.Typing.sOptional [.app "List".toList [.atom "Any".toList]] :=
    Dcg.Props.C13.hint_unambiguous e _ hw (by decide) (by rw [← hp]; decide)
  subst he
  have hd' : denote (.app Dcg.Sem.Typing.sOptional [.app "List".toList [.atom "Any".toList]])
      = gqlDenote (.list (.named "Any".toList)) := hd
  have := congrArg Dcg.Sem.Typing.Ty.show hd'
  rw [type_named_any_loses_nullability.2.1, type_named_any_loses_nullability.2.2] at this
  exact absurd this (by decide)

/-- THE `|` SPELLING (`use_union_operator`), proved as well, same hypothesis: the annotation is the
printed form of the PEP 604 expression `X | None` per nullable level, and that expression denotes the
declared GraphQL type. What makes it true here although C13 refutes spelling invariance in general
(`spelling_changes_meaning`): `_remove_none_from_union` splits the text at EVERY `|`, also inside
brackets, and drops the parts equal to `None`; on the text of a GraphQL chain every part either carries
a bracket (`List[Int`, `None]`) or is the type name, so nothing is dropped and `get_optional_type`
only appends ` | None` (Proofs/GraphqlBridgeOp.lean, a string-level proof about `re.split`).
The expression is exhibited, not claimed unique: the printer is not injective on `|` expressions. -/
theorem rendered_hint_mirrors_type_operator (o : Opts) (ho : o.unionOp = true) (isEnum : List Char → Bool)
    (fo : Bool) (t : GType) (hwf : t.wf = true) (hn : okName t.baseName = true) :
    ∃ e : TExpr, annotation o isEnum fo t = print e ∧ denote e = gqlDenote (declared fo t) := by
  have hn' : okName (unroll (declared fo t) true).typeName = true := by
    rw [unroll_typeName, baseName_declared]; exact hn
  refine ⟨Dcg.Proofs.GraphqlBridgeOp.chainB o (unroll (declared fo t) true), ?_, ?_⟩
  · rw [Dcg.Proofs.GraphqlBridgeOp.print_chainB]
    exact Dcg.Proofs.GraphqlBridgeOp.annotationB_eq o ho isEnum fo t hwf hn
  · rw [(Dcg.Proofs.GraphqlBridgeOp.denote_chainB o _ hn').2.2, denChain_unroll]
    rfl

/-- non-vacuity, `|` spelling: `[[Color!]]!` and `[Int]` -/
example :
    annotation { unionOp := true } (fun _ => true) false
      (.nonNull (.list (.list (.nonNull (.named "Color".toList))))) = "List[List[Color] | None]".toList ∧
    annotation { unionOp := true, stdColl := true } (fun _ => false) false (.list (.named "Int".toList))
      = "list[Int | None] | None".toList ∧
    (gqlDenote (.list (.named "Int".toList))).show = "{list({Int;None});None}".toList := by
  decide +kernel

/-- Every spelling the GraphQL parser can be asked for — `List` / `list`, `Optional[…]` / `| None` —
gives an annotation with the same meaning: that of the declared type. -/
theorem rendered_hint_all_spellings (unionOp stdColl : Bool) (isEnum : List Char → Bool) (fo : Bool)
    (t : GType) (hwf : t.wf = true) (hn : okName t.baseName = true) :
    ∃ e : TExpr, annotation (gqlOpts unionOp stdColl) isEnum fo t = print e ∧
      denote e = gqlDenote (declared fo t) := by
  cases unionOp with
  | true => exact rendered_hint_mirrors_type_operator _ rfl isEnum fo t hwf hn
  | false =>
    obtain ⟨e, _, h1, _, h2⟩ := rendered_hint_mirrors_type (gqlOpts false stdColl) rfl isEnum fo t hwf hn
    exact ⟨e, h1, h2⟩

/-- the witness lies outside `okName`, as it must -/
example : okName "Any".toList = false ∧ okName "Date".toList = true := by decide

end rendering

end Dcg.Props.C17
