import Dcg.Proofs.Names
import Dcg.Proofs.CaseMap
import Dcg.Proofs.TypedDictLink
import Dcg.Proofs.DiscrVisit
/-
C07 — member names are legal identifiers; wire names are preserved.
Only property theorems live here; helper lemmas are in Dcg/Proofs/Names.lean.

Reading guide. `E : Env` are `str.lower`/`str.upper` (parameters; `CaseOK E` says they map an identifier
to an identifier, and one that does not start with `_` to one that does not start with `_` — proved below for
CPython's maps as generated, `python_case_maps_ok`).
`k` selects the resolver class, `cfg` its options, `ign`/`uc` the flags `ignore_snake_case_field` /
`upper_camel`. `PrefixStart cfg` (Dcg/Model/Names) is the guard of the constructor:
`f"{special_field_name_prefix}_".isidentifier()`, i.e. the prefix is empty or an identifier (a leading `_`
allowed) — EVERY resolver object that exists satisfies it (`constructor_admits_iff`). `PrefixOK cfg` is the
stronger: a non-empty identifier not starting with `_` (the default "field" is); only the clauses about a
leading underscore need it. The character classes, keywords and pydantic's reserved names are
the generated tables; every fact used about them is a kernel-evaluated lemma of Dcg/Proofs/Names.
-/
namespace Dcg.Props.C07
open Dcg.Py.Chars Dcg.Py.Ident Dcg.Model.Names Dcg.Proofs.Names Dcg.Gen.Unicode

/-! ### termination of the retry loop -/

/-- FULL STRENGTH, all strings, all three resolvers, EVERY option vector the constructor admits
(`PrefixStart`: the empty prefix and prefixes that start with `_` included — the hypothesis is the
constructor's own guard, not a restriction of the statement): `get_valid_name` returns after at most
`|excludes| + 2` evaluations of the loop condition (the enum resolver adds its own reserved names to the
excludes first). -/
theorem retry_terminates (E : Env) (k : Kind) (cfg : Cfg) (name : List Char) (excl : List (List Char))
    (ign uc : Bool) (hp : PrefixStart cfg) (hE : CaseOK E) :
    getValidName E k cfg name excl ign uc ≠ .outOfFuel := by
  unfold getValidName getValidNameF getValidNameBaseF
  split
  · split
    · intro h; cases h
    · rename_i hne
      exact retry_terminates_good (ident_body hp hE k ign (by simpa using hne) (sanitize_all_idCont _)) _ _ _ _
  · rename_i h; exact absurd h (stage1_ne_outOfFuel _ _ _ _)
  · intro h; cases h

/-- The constructor (`FieldNameResolver.__init__`, all three classes) admits an option vector exactly when
`PrefixStart` holds, and then stores it unchanged… -/
theorem constructor_admits_iff (cfg : Cfg) : construct cfg = some cfg ↔ PrefixStart cfg := by
  unfold construct
  constructor
  · intro h; split at h
    · assumption
    · cases h
  · intro h; rw [if_pos h]

/-- …and REJECTS every other one: it raises, so no resolver object exists on which `get_valid_name` could be
called. This replaces the former refutation `retry_diverges_without_prefixOK` (finding D22, repaired): the
prefixes for which the loop would not end — `"9"`, `"a-b"` — are exactly among those refused here. -/
theorem constructor_rejects_bad_prefix (cfg : Cfg) (h : ¬ PrefixStart cfg) : construct cfg = none := by
  unfold construct; rw [if_neg h]

/-- what the guard means: the prefix is empty or an identifier -/
theorem prefixStart_characterised (cfg : Cfg) :
    PrefixStart cfg ↔ cfg.pfx = [] ∨ isIdentifier cfg.pfx = true := prefixStart_iff cfg

/-- FULL STRENGTH WITHOUT ANY HYPOTHESIS ON THE OPTIONS: constructing a resolver from an arbitrary option
vector and calling `get_valid_name` never hangs — the constructor raises, or the call returns / raises. -/
theorem resolver_never_hangs (E : Env) (k : Kind) (cfg : Cfg) (name : List Char) (excl : List (List Char))
    (ign uc : Bool) (hE : CaseOK E) : newAndGetValidName E k cfg name excl ign uc ≠ .outOfFuel := by
  unfold newAndGetValidName
  cases hc : construct cfg with
  | none => intro h; cases h
  | some c =>
    have hcc : c = cfg := by
      unfold construct at hc; split at hc
      · cases hc; rfl
      · cases hc
    subst hcc
    exact retry_terminates E k c name excl ign uc ((constructor_admits_iff c).mp hc) hE

/-- non-vacuity of both directions: the default, the empty prefix, `_` and `_x` are admitted; `9`, `a-b` and a
blank are refused; the formerly diverging call now ends with the constructor's error -/
example : PrefixStart {} ∧ PrefixStart { pfx := [] } ∧ PrefixStart { pfx := ['_'] } ∧
    PrefixStart { pfx := ['_', 'x'] } := by decide +kernel
example : ¬ PrefixStart { pfx := ['9'] } ∧ ¬ PrefixStart { pfx := ['a', '-', 'b'] } ∧
    ¬ PrefixStart { pfx := [' '] } := by decide +kernel
example : construct { pfx := ['9'] } = none := constructor_rejects_bad_prefix _ (by decide +kernel)
example : newAndGetValidName pyEnv .base { pfx := ['9'] } ['1'] [] false false = .error := by decide +kernel
example : newAndGetValidName pyEnv .base { pfx := ['_', 'x'] } ['1'] [] false false
    = .ok ['_', 'x', '_', 'x', '_', '1'] := by decide +kernel
/-- the stronger hypothesis implies the guard -/
example (cfg : Cfg) (hp : PrefixOK cfg) : PrefixStart cfg := prefixStart_of_prefixOK hp

/-- The hypothesis `CaseOK` holds for CPython's own `str.lower` / `str.upper` as regenerated from the
interpreter (character-wise maps of Dcg/Gen/Unicode): every run of the case tables keeps XID_Start and
XID_Continue interval-wise, every explicit entry character by character, and no image starts with `_`
(kernel-evaluated in Dcg/Proofs/CaseMap). Not covered: the final-sigma context rule of `str.lower`
(U+03A3 ↦ U+03C2 instead of U+03C3 at the end of a word; both are XID_Start, `finalSigma_ok`). -/
theorem python_case_maps_ok : CaseOK pyEnv := Dcg.Proofs.CaseMap.caseOK_pyEnv

theorem finalSigma_ok : finalSigma.all (fun n => inRanges xidStart n && inRanges xidContinue n) = true := by
  decide +kernel

/-- non-vacuity: the default options satisfy `PrefixOK`; ASCII-only lower/upper satisfies `CaseOK` too -/
example : PrefixOK {} := by decide +kernel
example : CaseOK asciiEnv := caseOK_asciiEnv
example (name : List Char) (excl : List (List Char)) :
    getValidName pyEnv .pydantic { snakeCase := true } name excl false false ≠ .outOfFuel :=
  retry_terminates _ _ _ _ _ _ _ (by decide +kernel) python_case_maps_ok
example : getValidName asciiEnv .enum { capitalise := true } "fooBar baz".toList [] false false ≠ .outOfFuel :=
  retry_terminates _ _ _ _ _ _ _ (by decide +kernel) caseOK_asciiEnv
/-- …and on the prefixes `PrefixOK` excludes: empty with `remove_special_field_name_prefix`, leading `_` under
snake case -/
example (name : List Char) (excl : List (List Char)) :
    getValidName pyEnv .enum { pfx := [], removePrefix := true } name excl false false ≠ .outOfFuel :=
  retry_terminates _ _ _ _ _ _ _ (by decide +kernel) python_case_maps_ok
example (name : List Char) (excl : List (List Char)) (uc : Bool) :
    getValidName pyEnv .pydantic { pfx := ['_', 'X'], snakeCase := true } name excl false uc ≠ .outOfFuel :=
  retry_terminates _ _ _ _ _ _ _ (by decide +kernel) python_case_maps_ok

/-! ### legality of the result -/

/-- FULL STRENGTH, for every option vector the constructor admits (`PrefixStart`): whatever `get_valid_name`
returns is an identifier, is not a keyword, is none of the excluded names, and (enum resolver) is none of the
names the resolver reserves by itself (`Dcg.Gen.EnumSites.resolverExcludes`, read off
`EnumFieldNameResolver.get_valid_name`). -/
theorem result_legal (E : Env) (k : Kind) (cfg : Cfg) (name : List Char) (excl : List (List Char))
    (ign uc : Bool) (hp : PrefixStart cfg) (hE : CaseOK E) (r : List Char)
    (h : getValidName E k cfg name excl ign uc = .ok r) :
    isIdentifier r = true ∧ isKeyword r = false ∧ r ∉ excl ∧
      (k = .enum → ∀ x ∈ Dcg.Gen.EnumSites.resolverExcludes, r ≠ x) := by
  obtain ⟨s, hne, hs, hb, hr⟩ := result_shape h
  have hgood := ident_body hp hE k ign hne hs
  simp only [bad, Bool.or_eq_false_iff, Bool.not_eq_eq_eq_not, Bool.not_false] at hb
  obtain ⟨⟨hid, hkw⟩, hex⟩ := hb
  have hnotin : r ∉ effExcl k excl := by simpa using hex
  refine ⟨?_, hkw, ?_, ?_⟩
  · rcases hr with hr | ⟨j, hr⟩
    · simp only [Bool.or_eq_true, Bool.not_eq_eq_eq_not, Bool.not_true] at hid
      rcases hid with hid | hv
      · exact hid
      · -- rejected by `_validate_field_name`: an attribute of BaseModel, all of which are identifiers
        cases k <;> simp only [validate] at hv <;> try cases hv
        have : r ∈ pydReserved := by simpa [isPydReserved] using hv
        exact List.all_eq_true.mp reserved_identifier _ this
    · rw [hr]; exact ident_cand hgood uc j
  · intro hin
    apply hnotin
    unfold effExcl; split
    · exact List.mem_append_right _ hin
    · exact hin
  · intro hk x hx heq
    apply hnotin
    subst hk heq
    simp only [effExcl, if_true]
    exact List.mem_append_left _ hx

/-- FULL STRENGTH for enum members, relative to the call: when `mro` (the one public attribute of `enum.Enum` a
member name can collide with) is reserved for the call — by the resolver itself (`resolverExcludes`) or by the
excludes the caller passes — the name returned by the enum resolver is not `mro`. That the hypothesis holds at
EVERY call site of the enum resolver is the obligation `enum_call_sites_reviewed` of Props/C09 (the initial
excludes of each caller are read off the source). -/
theorem enum_member_never_mro (E : Env) (cfg : Cfg) (name : List Char) (excl : List (List Char))
    (ign uc : Bool) (hp : PrefixStart cfg) (hE : CaseOK E) (r : List Char)
    (hres : mro ∈ Dcg.Gen.EnumSites.resolverExcludes ++ excl)
    (h : getValidName E .enum cfg name excl ign uc = .ok r) : r ≠ mro := by
  have hl := result_legal E .enum cfg name excl ign uc hp hE r h
  rcases List.mem_append.mp hres with hm | hm
  · exact hl.2.2.2 rfl mro hm
  · intro heq
    exact hl.2.2.1 (heq ▸ hm)

/-- non-vacuity: `MRO` under snake case sanitises to `mro`; with `mro` reserved for the call it gets a number -/
example : mro ∈ Dcg.Gen.EnumSites.resolverExcludes ++ [mro] ∧
    getValidName pyEnv .enum { snakeCase := true } ['M', 'R', 'O'] [mro] false false = .ok ['m', 'r', 'o', '_', '1'] := by
  decide +kernel

/-- non-vacuity of `result_legal` beyond `PrefixOK`: the empty prefix with `remove_special_field_name_prefix`
(`_1` is stripped to `1`, re-prefixed to `_1`, which is excluded, so the loop numbers it), and the prefix `_`
(`__1` is stripped to `1` and re-prefixed to `__1`) -/
example : getValidName pyEnv .base { pfx := [], removePrefix := true } ['_', '1'] [['_', '1']] false false
    = .ok ['_', '1', '_', '1'] := by decide +kernel
example : getValidName pyEnv .pydantic { pfx := ['_'], removePrefix := true } ['_', '_', '1'] [] false false
    = .ok ['_', '_', '1'] := by decide +kernel

/-- non-vacuity and a sanity check on a nasty input: `"___"` with `remove_special_field_name_prefix`
(formerly defect D2: the code returned `_1`) -/
example : getValidName pyEnv .pydantic { removePrefix := true } ['_', '_', '_'] [] false false
    = .ok ['f', 'i', 'e', 'l', 'd', '_'] := by decide +kernel

/-- FULL STRENGTH for members (`upper_camel = False`; `ModelResolver` never capitalises members):
the pydantic resolver's result is no attribute of `pydantic.BaseModel` and does not start with `_`. -/
theorem result_pydantic (E : Env) (cfg : Cfg) (name : List Char) (excl : List (List Char)) (ign : Bool)
    (hp : PrefixOK cfg) (hE : CaseOK E) (hcap : cfg.capitalise = false) (r : List Char)
    (h : getValidName E .pydantic cfg name excl ign false = .ok r) :
    isPydReserved r = false ∧ r.head? ≠ some '_' := by
  obtain ⟨s, hne, hs, _, hr⟩ := result_shape h
  have hgood := good_body hp hE .pydantic ign hne hs
  rcases hr with hr | ⟨j, hr⟩
  · simp only [firstName, hcap, Bool.false_eq_true, if_false] at hr
    rw [hr]
    exact ⟨by unfold body; exact suffixReserved_not_reserved _, hgood.2⟩
  · rw [hr]; exact ⟨cand_not_reserved _ _ _, (good_cand hgood false j).2⟩

/-- the same clause for every resolver, including capitalised enum members -/
theorem result_no_leading_underscore (E : Env) (k : Kind) (cfg : Cfg) (name : List Char)
    (excl : List (List Char)) (ign : Bool) (hp : PrefixOK cfg) (hE : CaseOK E) (r : List Char)
    (h : getValidName E k cfg name excl ign false = .ok r) : r.head? ≠ some '_' := by
  obtain ⟨s, hne, hs, _, hr⟩ := result_shape h
  have hgood := good_body hp hE k ign hne hs
  rcases hr with hr | ⟨j, hr⟩
  · simp only [firstName, Bool.false_eq_true, if_false] at hr
    rw [hr]
    split
    · exact (hE.2 _ hgood.1).2 hgood.2
    · exact hgood.2
  · rw [hr]; exact (good_cand hgood false j).2

/-- `PrefixOK` is needed for the underscore clause (`PrefixStart`, the constructor's guard, is not enough):
with an empty prefix `"1"` becomes `_1` -/
theorem leading_underscore_without_prefixOK :
    getValidName pyEnv .pydantic { pfx := [] } ['1'] [] false false = .ok ['_', '1'] := by
  decide +kernel

/-! ### members of one class are pairwise distinct -/

/-- FULL STRENGTH (no hypothesis on the options beyond: no property is renamed by the user's `aliases`
map): the loop of `parse_object_fields` — over ordinary AND boolean-schema (`true`/`false`) properties,
in any order — yields pairwise distinct member names, none of them among the names excluded at the start. -/
theorem fields_distinct (E : Env) (k : Kind) (cfg : Cfg) :
    ∀ (props : List (List Char × Bool)) (excl : List (List Char)) (fs : List FieldOut)
      (ex : List (List Char)),
      (∀ p ∈ props, cfg.aliases.lookup p.1 = none) →
      foldProps E k cfg props excl = .ok (fs, ex) →
      (fs.map (·.1.1)).Pairwise (· ≠ ·) ∧ ∀ f ∈ fs.map (·.1.1), f ∉ excl := by
  intro props
  induction props with
  | nil =>
    intro excl fs ex _ h
    simp only [foldProps, Res.ok.injEq, Prod.mk.injEq] at h
    obtain ⟨h, _⟩ := h; subst h; simp
  | cons p ps ih =>
    obtain ⟨n, isBool⟩ := p
    intro excl fs ex hal h
    obtain ⟨fa, fs', hfa, hrest, rfl⟩ := foldProps_cons_ok h
    have hvn := field_name_not_excluded (hal (n, isBool) List.mem_cons_self) hfa
    obtain ⟨hp, hex⟩ := ih (fa.1 :: excl) fs' ex (fun m hm => hal m (List.mem_cons_of_mem _ hm)) hrest
    refine ⟨?_, ?_⟩
    · simp only [List.map_cons, List.pairwise_cons]
      refine ⟨fun g hg heq => ?_, hp⟩
      exact hex g hg (by rw [← heq]; exact List.mem_cons_self)
    · intro g hg
      simp only [List.map_cons, List.mem_cons] at hg
      rcases hg with hg | hg
      · rw [hg]; exact hvn
      · exact fun hin => hex g hg (List.mem_cons_of_mem _ hin)

/-- The invariant behind it, stated for the boolean-schema branch too: every emitted member name — of an
ordinary property or of a `true`/`false` one — is in `exclude_field_names` from the moment it is given
(so it is in the final set), the initial excludes are kept, and there is exactly one member per
property, typed `Any` exactly for the boolean-schema ones. -/
theorem excludes_invariant (E : Env) (k : Kind) (cfg : Cfg) :
    ∀ (props : List (List Char × Bool)) (excl : List (List Char)) (fs : List FieldOut)
      (ex : List (List Char)),
      foldProps E k cfg props excl = .ok (fs, ex) →
      (∀ f ∈ fs, f.1.1 ∈ ex) ∧ (∀ e ∈ excl, e ∈ ex) ∧ fs.map (·.2) = props.map (·.2) := by
  intro props
  induction props with
  | nil =>
    intro excl fs ex h
    simp only [foldProps, Res.ok.injEq, Prod.mk.injEq] at h
    obtain ⟨h1, h2⟩ := h; subst h1; subst h2; simp
  | cons p ps ih =>
    obtain ⟨n, isBool⟩ := p
    intro excl fs ex h
    obtain ⟨fa, fs', _, hrest, rfl⟩ := foldProps_cons_ok h
    obtain ⟨h1, h2, h3⟩ := ih (fa.1 :: excl) fs' ex hrest
    refine ⟨?_, fun e he => h2 e (List.mem_cons_of_mem _ he), by simp [h3]⟩
    intro f hf
    simp only [List.mem_cons] at hf
    rcases hf with hf | hf
    · subst hf; exact h2 _ List.mem_cons_self
    · exact h1 f hf

/-- non-vacuity: three properties that sanitise to the same name (`a-`, `a_`, `a+`), the first one with
the boolean schema `true`: its name is reserved, the later ones get suffixes -/
example : foldProps pyEnv .pydantic {} [(['a', '-'], true), (['a', '_'], false), (['a', '+'], false)] [] =
    .ok ([((['a', '_'], some ['a', '-']), true), ((['a', '_', '_', '1'], some ['a', '_']), false),
          ((['a', '_', '_', '2'], some ['a', '+']), false)],
         [['a', '_', '_', '2'], ['a', '_', '_', '1'], ['a', '_']]) := by decide +kernel

/-- the hypothesis on `aliases` cannot be dropped: the user's map is applied without looking at the
excludes (two properties may be given the same name) -/
theorem fields_distinct_needs_alias_hypothesis :
    foldProps pyEnv .pydantic { aliases := [(['a'], ['b'])] } [(['b'], false), (['a'], false)] []
      = .ok ([((['b'], none), false), ((['b'], some ['a']), false)], [['b'], ['b']]) := by decide +kernel

/-! ### wire names -/

/-- FULL STRENGTH: for a property the user's map does not rename, the alias is the original name
exactly when the identifier differs from it and `no_alias` is off; otherwise there is no alias. -/
theorem alias_preserved (E : Env) (k : Kind) (cfg : Cfg) (n : List Char) (excl : List (List Char))
    (f : List Char) (a : Option (List Char)) (hn : cfg.aliases.lookup n = none)
    (h : getValidFieldNameAndAlias E k cfg n excl = .ok (f, a)) :
    (a = some n ↔ (f ≠ n ∧ cfg.noAlias = false)) ∧ (a = none ∨ a = some n) := by
  simp only [getValidFieldNameAndAlias, hn] at h
  cases hv : getValidName E k cfg n excl false false with
  | ok v =>
    rw [hv] at h
    simp only [Res.map, Res.ok.injEq, Prod.mk.injEq] at h
    obtain ⟨hfv, ha⟩ := h
    subst hfv
    by_cases hc : (cfg.noAlias || n == v) = true
    · rw [if_pos hc] at ha
      subst ha
      simp only [Bool.or_eq_true, beq_iff_eq] at hc
      refine ⟨⟨fun h => (by cases h), fun ⟨h1, h2⟩ => ?_⟩, Or.inl rfl⟩
      rcases hc with hc | hc
      · rw [h2] at hc; cases hc
      · exact absurd hc.symm h1
    · rw [if_neg hc] at ha
      subst ha
      simp only [Bool.or_eq_true, beq_iff_eq, not_or, Bool.not_eq_true] at hc
      exact ⟨⟨fun _ => ⟨fun h => hc.2 h.symm, hc.1⟩, fun _ => rfl⟩, Or.inr rfl⟩
  | outOfFuel => rw [hv] at h; simp [Res.map] at h
  | error => rw [hv] at h; simp [Res.map] at h

/-- non-vacuity: a keyword gets the suffix and keeps its name as alias; `no_alias` drops it -/
example : getValidFieldNameAndAlias pyEnv .pydantic {} ['c', 'l', 'a', 's', 's'] [] =
    .ok (['c', 'l', 'a', 's', 's', '_'], some ['c', 'l', 'a', 's', 's']) := by decide +kernel
example : getValidFieldNameAndAlias pyEnv .pydantic { noAlias := true } ['c', 'l', 'a', 's', 's'] [] =
    .ok (['c', 'l', 'a', 's', 's', '_'], none) := by decide +kernel

/-- the wire key (alias if any, else the name) of every member is the property name, also for
properties renamed through the `aliases` map — as long as `no_alias` is off -/
theorem wire_key_preserved (E : Env) (k : Kind) (cfg : Cfg) (n : List Char) (excl : List (List Char))
    (fa : List Char × Option (List Char)) (hna : cfg.noAlias = false)
    (h : getValidFieldNameAndAlias E k cfg n excl = .ok fa) : wireKey fa = n := by
  unfold getValidFieldNameAndAlias at h
  split at h
  · simp only [Res.ok.injEq] at h; subst h; rfl
  · cases hv : getValidName E k cfg n excl false false with
    | ok v =>
      rw [hv] at h
      simp only [Res.map, Res.ok.injEq, hna, Bool.false_or] at h
      subst h
      simp only [wireKey]
      split
      · rename_i hc; simpa using (beq_iff_eq.mp hc).symm
      · rfl
    | outOfFuel => rw [hv] at h; simp [Res.map] at h
    | error => rw [hv] at h; simp [Res.map] at h

/-- …and for the whole class, boolean-schema properties included: the list of wire keys is the list of
property names -/
theorem wire_keys_of_class (E : Env) (k : Kind) (cfg : Cfg) (hna : cfg.noAlias = false) :
    ∀ (props : List (List Char × Bool)) (excl : List (List Char)) (fs : List FieldOut)
      (ex : List (List Char)),
      foldProps E k cfg props excl = .ok (fs, ex) → fs.map (fun f => wireKey f.1) = props.map (·.1) := by
  intro props
  induction props with
  | nil =>
    intro excl fs ex h
    simp only [foldProps, Res.ok.injEq, Prod.mk.injEq] at h
    obtain ⟨h, _⟩ := h; subst h; rfl
  | cons p ps ih =>
    obtain ⟨n, isBool⟩ := p
    intro excl fs ex h
    obtain ⟨fa, fs', hfa, hrest, rfl⟩ := foldProps_cons_ok h
    simp only [List.map_cons, ih _ _ _ hrest, wire_key_preserved E k cfg n excl fa hna hfa]

/-- The key that reaches the running model is the alias or, without alias, what the Python compiler
makes of the identifier (`nfkc`, a parameter). PARTIAL: it is the property name whenever the
identifier is NFKC-stable. -/
theorem effective_key_partial (nfkc : List Char → List Char) (E : Env) (k : Kind) (cfg : Cfg)
    (n : List Char) (excl : List (List Char)) (fa : List Char × Option (List Char))
    (hna : cfg.noAlias = false) (h : getValidFieldNameAndAlias E k cfg n excl = .ok fa)
    (hstable : nfkc fa.1 = fa.1) : effKey nfkc fa = n := by
  have := wire_key_preserved E k cfg n excl fa hna h
  simpa [effKey, wireKey, hstable] using this

/-- …and the full statement is FALSE (known finding D21): fullwidth `ｘ` (U+FF58) is an identifier,
so it is returned unchanged and without alias, but the compiler binds the attribute `x`. -/
theorem effective_key_not_preserved (nfkc : List Char → List Char)
    (hn : nfkc [Char.ofNat 0xFF58] = ['x']) :
    ∃ fa, getValidFieldNameAndAlias pyEnv .pydantic {} [Char.ofNat 0xFF58] [] = .ok fa ∧
      effKey nfkc fa = ['x'] ∧ effKey nfkc fa ≠ [Char.ofNat 0xFF58] := by
  refine ⟨([Char.ofNat 0xFF58], none), by decide +kernel, ?_, ?_⟩
  · simp [effKey, hn]
  · simp only [effKey, hn]; decide

/-! ### TypedDict keys (own and inherited) -/

open Dcg.Model.TypedDict Dcg.Proofs.TypedDict

/-- FULL STRENGTH, own members: whichever syntax `TypedDict.render` chooses, the keys it writes for the
class's own members are the original property names (class syntax is chosen only when every key equals
its member name; the literal round trip of a key written in functional syntax is C10 `typedDict_key_exact`).
Covers members without a name (`required`-only) and without an original name. -/
theorem typedDict_keys_exact (fs : List TdField) : tdKeys fs = fs.map TdField.key := by
  unfold tdKeys
  split
  · rfl
  · rename_i h
    have hf : tdFunctional fs = false := by simpa using h
    have := class_syntax_entries hf
    have h2 := congrArg (List.map Prod.fst) this
    simpa [List.map_map, Function.comp_def, TdField.entry] using h2

/-- FULL STRENGTH, `TypedDict.all_fields` (the member list of the functional syntax): for every class tree —
any number of bases, any depth, bases that are not TypedDicts — the keys it lists are, in order, the wire
keys of the schemas the class extends followed by its own. Members are identified by nothing: none is
skipped because its identifier (or anything else) coincides with another member's. -/
theorem typedDict_all_fields_keys (c : TdClass) : c.allFields.map TdField.key = c.wireKeys :=
  allFields_keys c

/-- FULL STRENGTH, inheritance: the class object Python builds from the rendered text — a dict display over
`all_fields` in functional syntax, the annotations of the Python base classes plus the own ones in class
syntax, each class of the tree in the syntax ITS OWN members call for — has every key exactly once, and its
key set is exactly the set of wire keys of the schema: inherited and own, nothing lost, nothing merged. -/
theorem typedDict_inherited_keys_exact (c : TdClass) :
    (c.rendered.map (·.1)).Nodup ∧ ∀ k, k ∈ c.rendered.map (·.1) ↔ k ∈ c.wireKeys :=
  ⟨rendered_nodup c, mem_rendered_keys c⟩

/-- the same, one level unfolded: the key set of a class is (keys of its base TypedDicts) ∪ (own wire keys) -/
theorem typedDict_keys_base_union_own (bases : List TdClass) (fields : List TdField) (k : List Char) :
    k ∈ (TdClass.cls bases fields).rendered.map (·.1) ↔
      (∃ b ∈ bases, k ∈ b.rendered.map (·.1)) ∨ k ∈ fields.map TdField.key := by
  rw [mem_rendered_keys]
  simp only [TdClass.wireKeys, List.mem_append, mem_wireKeysL]
  constructor
  · rintro (⟨b, hb, hk⟩ | h)
    · exact Or.inl ⟨b, hb, (mem_rendered_keys b k).mpr hk⟩
    · exact Or.inr h
  · rintro (⟨b, hb, hk⟩ | h)
    · exact Or.inl ⟨b, hb, (mem_rendered_keys b k).mp hk⟩
    · exact Or.inr h

/-- non-vacuity, the shape that matters: the base has `unit-price`, the derived class declares the DIFFERENT
key `unit_price` (same identifier) and `valid-until` (forces functional syntax): all three are keys -/
example :
    let base := TdClass.mk' [] [⟨some "unit_price".toList, some "unit-price".toList, 0⟩]
    let derived := TdClass.mk' [base] [⟨some "unit_price".toList, some "unit_price".toList, 1⟩,
                                       ⟨some "valid_until".toList, some "valid-until".toList, 2⟩]
    derived.rendered = [("unit-price".toList, 0), ("unit_price".toList, 1), ("valid-until".toList, 2)] := by
  decide +kernel

/-- FULL STRENGTH: the type found under a key is that of the LAST declaration of the key along `all_fields`
(bases in order, then the class), whichever syntax each class of the tree is written in… -/
theorem typedDict_key_type_last_declaration (c : TdClass) (k : List Char) :
    dictGet k c.rendered = lastVal k (c.allFields.map TdField.entry) :=
  rendered_get c k

/-- …so a key the class declares again (e.g. to make it required) carries the class's own declaration -/
theorem typedDict_own_declaration_wins (bases : List TdClass) (fields : List TdField) (k : List Char) (v : Nat)
    (h : lastVal k (fields.map TdField.entry) = some v) :
    dictGet k (TdClass.cls bases fields).rendered = some v := by
  rw [rendered_get]
  simp only [TdClass.allFields, List.map_append, lastVal_append, h, Option.some_or]

/-- non-vacuity: a genuine re-declaration of the inherited key `unit-price`: one key, the derived type -/
example :
    let base := TdClass.mk' [] [⟨some "unit_price".toList, some "unit-price".toList, 0⟩, ⟨some ['x'], some ['x'], 1⟩]
    let derived := TdClass.mk' [base] [⟨some "unit_price".toList, some "unit-price".toList, 2⟩]
    derived.rendered = [("unit-price".toList, 2), (['x'], 1)] := by
  decide +kernel

example : lastVal "unit-price".toList
    ([⟨some "unit_price".toList, some "unit-price".toList, 2⟩].map TdField.entry) = some 2 := by decide +kernel

/-- The members of ONE `parse_object_fields` call all survive the model constructor (`_validate_fields` drops
later members with a name seen before: by `fields_distinct` there is none) and their keys are the property
names — for names the user's `aliases` map does not rename. -/
theorem typedDict_own_members_survive (E : Env) (k : Kind) (cfg : Cfg) (props : List (List Char × Bool))
    (excl : List (List Char)) (fs : List FieldOut) (ex : List (List Char))
    (hal : ∀ p ∈ props, cfg.aliases.lookup p.1 = none)
    (h : foldProps E k cfg props excl = .ok (fs, ex)) :
    validateFields (tdOwn props fs) = tdOwn props fs ∧ (tdOwn props fs).map TdField.key = props.map (·.1) := by
  have hlen : props.length = fs.length := by
    have := congrArg List.length (excludes_invariant E k cfg props excl fs ex h).2.2
    simpa using this.symm
  refine ⟨validateFields_id _ ?_, tdOwn_keys props fs hlen⟩
  rw [tdOwn_names props fs hlen]
  exact (fields_distinct E k cfg props excl fs ex hal h).1

/-- non-vacuity: the three colliding properties `a-`, `a_`, `a+` of the example after `excludes_invariant`:
the fold succeeds (hypothesis `h`), no alias-map hit (`hal`), three members with three different names survive -/
example :
    validateFields (tdOwn [(['a', '-'], true), (['a', '_'], false), (['a', '+'], false)]
      [((['a', '_'], some ['a', '-']), true), ((['a', '_', '_', '1'], some ['a', '_']), false),
       ((['a', '_', '_', '2'], some ['a', '+']), false)]) =
    [⟨some ['a', '_'], some ['a', '-'], 0⟩, ⟨some ['a', '_', '_', '1'], some ['a', '_'], 0⟩,
     ⟨some ['a', '_', '_', '2'], some ['a', '+'], 0⟩] := by decide +kernel

/-- …and that is as far as it goes: members of one class declared in SEVERAL places of its schema (two inline
objects of an `allOf`, an `allOf` item plus sibling `properties`) come from separate `parse_object_fields`
calls, each starting with empty excludes. The different keys `sku-` and `sku_` both become the member `sku_`,
and the constructor drops the second: its key is not a key of the class (known finding
C07-ALLOF-SPLIT-MEMBERS; the full statement "every declared key of the schema is a key" is false there). -/
theorem split_declarations_lose_key :
    foldProps pyEnv .pydantic {} [("sku-".toList, false)] [] =
      .ok ([(("sku_".toList, some "sku-".toList), false)], ["sku_".toList]) ∧
    foldProps pyEnv .pydantic {} [("sku_".toList, false)] [] =
      .ok ([(("sku_".toList, none), false)], ["sku_".toList]) ∧
    (TdClass.mk' [] (tdOwn [("sku-".toList, false)] [(("sku_".toList, some "sku-".toList), false)] ++
                     tdOwn [("sku_".toList, false)] [(("sku_".toList, none), false)])).rendered.map (·.1)
      = ["sku-".toList] := by
  refine ⟨by decide +kernel, by decide +kernel, by decide +kernel⟩

/-! ### discriminator members: the lookup-and-rewrite of `Parser.__apply_discriminator_type`, visited n times

`Dcg/Model/DiscrVisit`: `visit san pn ms` is one visit of a discriminator dict whose `propertyName` currently reads `pn`
on a variant with members `ms` (`san` = `get_valid_field_name_and_alias`); it returns the REWRITTEN `propertyName` and
the members. `visits san n` is n visits of the same dict (collapsed root models share it). -/
open Dcg.Model.DiscrVisit Dcg.Proofs.DiscrVisit in
/-- IDEMPOTENCE of a visit, for ALL member lists (no hypothesis on the class): when the identifier the sanitiser
returns is a fixed point of the sanitiser (`hfix`: sanitising `field_type` again gives `field_type` and no alias),
visiting the dict again — now reading the rewritten name — changes nothing: no member is added, retyped or renamed. -/
theorem discriminator_visit_fixpoint (san : San) (pn : List Char) (ms : List Member)
    (hfix : san (san pn).1 = ((san pn).1, none)) :
    visit san (visit san pn ms).1 (visit san pn ms).2 = visit san pn ms := by
  have h1 : (visit san pn ms).1 = (san pn).1 := rfl
  rw [h1]
  unfold visit
  rw [hfix]
  simp only
  by_cases hb : (mark (san pn).1 ms).2 = true
  · simp only [hb, if_true, mark_mark]
  · simp only [Bool.not_eq_true] at hb
    obtain ⟨he, hno⟩ := mark_false _ _ hb
    have hc : hits (san pn).1 (created san pn) = true := by simp [hits, created]
    simp only [hb, Bool.false_eq_true, if_false, he]
    rw [mark_append_new _ _ _ hno hc rfl]
    simp

open Dcg.Model.DiscrVisit Dcg.Proofs.DiscrVisit in
/-- UNBOUNDED: any number n ≥ 1 of visits of the same discriminator dict leaves every variant exactly as ONE visit
does (same hypothesis: the sanitised identifier is a fixed point of the sanitiser). -/
theorem discriminator_visits_idempotent (san : San) (n : Nat) (pn : List Char) (ms : List Member)
    (hfix : san (san pn).1 = ((san pn).1, none)) :
    visits san (n + 1) pn ms = visit san pn ms := by
  induction n generalizing pn ms with
  | zero => rfl
  | succ n ih =>
    have hfix' : san (san (visit san pn ms).1).1 = ((san (visit san pn ms).1).1, none) := by
      show san (san (san pn).1).1 = ((san (san pn).1).1, none)
      rw [hfix]; exact hfix
    show visits san (n + 1) (visit san pn ms).1 (visit san pn ms).2 = _
    rw [ih _ _ hfix']
    exact discriminator_visit_fixpoint san pn ms hfix

open Dcg.Model.DiscrVisit Dcg.Proofs.DiscrVisit in
/-- The class after ONE visit (hence, by `discriminator_visits_idempotent`, after any number): when the members the
lookup hits are exactly those stored under the tag's wire name (`hhit` — decidable; it fails for a sibling whose name
is the sanitised identifier, `discriminator_sibling_mistaken_for_tag`), wire keys and identifiers are unique in the
class as parse_object_fields leaves them, and the sanitiser keeps the wire name as alias whenever it changes the name
(`alias_preserved`), then EXACTLY ONE member is stored under the wire name of the tag, no wire key and no identifier
occurs twice, and the other members keep their keys and names. -/
theorem discriminator_one_tag_member_partial (san : San) (pn : List Char) (ms : List Member)
    (hhit : ∀ m ∈ ms, hits (san pn).1 m = true ↔ m.wire = pn)
    (hw : (ms.map Member.wire).Nodup) (hn : (ms.map Member.name).Nodup)
    (hal : (san pn).2 = if (san pn).1 = pn then none else some pn) :
    ((visit san pn ms).2.map Member.wire).count pn = 1 ∧
    ((visit san pn ms).2.map Member.wire).Nodup ∧ ((visit san pn ms).2.map Member.name).Nodup := by
  have hcw : (created san pn).wire = pn := by
    simp only [Member.wire, created, hal]
    by_cases h : (san pn).1 = pn <;> simp [h]
  unfold visit
  by_cases hb : (mark (san pn).1 ms).2 = true
  · simp only [hb, if_true, mark_wire, mark_name]
    obtain ⟨m, hm, hh⟩ := mark_true_mem _ _ hb
    have : pn ∈ ms.map Member.wire := List.mem_map.mpr ⟨m, hm, (hhit m hm).mp hh⟩
    exact ⟨count_one_of_nodup_mem hw this, hw, hn⟩
  · simp only [Bool.not_eq_true] at hb
    obtain ⟨he, hno⟩ := mark_false _ _ hb
    simp only [hb, Bool.false_eq_true, if_false, he, List.map_append, List.map_cons, List.map_nil, hcw]
    have hnw : pn ∉ ms.map Member.wire := by
      intro h
      obtain ⟨m, hm, hmw⟩ := List.mem_map.mp h
      have := (hhit m hm).mpr hmw
      rw [hno m hm] at this; cases this
    have hnn : (created san pn).name ∉ ms.map Member.name := by
      intro h
      obtain ⟨m, hm, hmn⟩ := List.mem_map.mp h
      have : hits (san pn).1 m = true := by
        simp only [hits, created] at hmn ⊢; simp [hmn]
      rw [hno m hm] at this; cases this
    refine ⟨?_, ?_, ?_⟩
    · rw [List.count_append, List.count_eq_zero_of_not_mem hnw]; simp
    · exact List.nodup_append.mpr ⟨hw, by simp, by
        intro a ha b hb; simp at hb; subst hb; intro hab; subst hab; exact hnw ha⟩
    · exact List.nodup_append.mpr ⟨hn, by simp, by
        intro a ha b hb; simp at hb; subst hb; intro hab; subst hab; exact hnn ha⟩

section DiscrExamples
open Dcg.Model.DiscrVisit

/-- `@type` ↦ (`field_type`, alias `@type`); identifiers map to themselves -/
def sanAt : San := fun s => if s = "@type".toList then ("field_type".toList, some "@type".toList) else (s, none)
def catDeclares : List Member :=
  [{ name := "field_type".toList, orig := some "@type".toList, alias := some "@type".toList, lit := false },
   { name := "lives".toList, orig := some "lives".toList, alias := none, lit := false }]
def dogOmits : List Member := [{ name := "bark".toList, orig := some "bark".toList, alias := none, lit := false }]

-- non-vacuity: the hypotheses hold for a sanitiser that really renames, on a variant that declares the tag and on one
-- that does not; the conclusion is about three visits
example : sanAt (sanAt "@type".toList).1 = ((sanAt "@type".toList).1, none) := by decide +kernel
example : (∀ m ∈ catDeclares, hits (sanAt "@type".toList).1 m = true ↔ m.wire = "@type".toList) ∧
    (∀ m ∈ dogOmits, hits (sanAt "@type".toList).1 m = true ↔ m.wire = "@type".toList) := by decide +kernel
example : (visits sanAt 3 "@type".toList dogOmits).2.map Member.wire = ["bark".toList, "@type".toList] := by
  decide +kernel
example : (visits sanAt 3 "@type".toList catDeclares).2.map (fun m => (m.name, m.lit)) =
    [("field_type".toList, true), ("lives".toList, false)] := by decide +kernel
end DiscrExamples

open Dcg.Model.DiscrVisit in
/-- WHY the rewritten name must be matched against identifiers: a lookup that compares the CURRENT `propertyName`
with wire names only (`visitWire`: `original_name != property_name → continue`, the created member recording the
wire name) is right on the first visit and fails on the second, because by then `propertyName` reads `field_type`:
both variants get a second `field_type` member, without alias. -/
theorem wire_only_matching_fails_on_second_visit :
    ((visitsWire sanAt 1 "@type".toList catDeclares).2.map Member.name).count "field_type".toList = 1 ∧
    ((visitsWire sanAt 1 "@type".toList dogOmits).2.map Member.wire).count "@type".toList = 1 ∧
    ((visitsWire sanAt 2 "@type".toList catDeclares).2.map Member.name).count "field_type".toList = 2 ∧
    ((visitsWire sanAt 2 "@type".toList dogOmits).2.map Member.name).count "field_type".toList = 2 ∧
    ((visits sanAt 2 "@type".toList catDeclares).2.map Member.name).count "field_type".toList = 1 ∧
    ((visits sanAt 2 "@type".toList dogOmits).2.map Member.name).count "field_type".toList = 1 := by
  decide +kernel

open Dcg.Model.DiscrVisit in
/-- The FULL statement (no `hhit`) is false of the code (known finding C07-DISCR-SIBLING): a variant that does not
declare the tag `pet-type` but has a property `pet_type` gets NO member under the wire name `pet-type` — the sibling
is taken for the tag (retyped, `lit`), nothing is created. -/
theorem discriminator_sibling_mistaken_for_tag :
    let san : San := fun s => if s = "pet-type".toList then ("pet_type".toList, some "pet-type".toList) else (s, none)
    let ms : List Member := [{ name := "pet_type".toList, orig := some "pet_type".toList, alias := none, lit := false }]
    ((visit san "pet-type".toList ms).2.map Member.wire).count "pet-type".toList = 0 ∧
    (visit san "pet-type".toList ms).2.map Member.lit = [true] := by
  decide +kernel

end Dcg.Props.C07
